"""C02 - queue, relay and boolean events complete exactly once and in order.

Implementation side: generated handler sets on the real EventManager of a real machine: sync handlers, waiting handlers
(queue.wait() and a later queue.clear() from a DelayManager timer at adversarial, pairwise distinct deadlines), coroutine
handlers (add_async_handler: sleeping or returning at once, awaiting a future that a timer resolves or cancels, raising
CancelledError, task cancelled by a timer / another handler / a plain event), handlers that post further queue events
(optionally handing their own wait cell on, the Mode.start/use_wait_queue pattern, cleared by the inner event's callback),
posted kwargs / handler kwargs / conditions, post_queue_async futures, wait_for_event / wait_for_any_event futures and their
cancellation, EventManager.stop() in flight, handlers removed between dispatch and task start; real modes with
use_wait_queue started by a queue event (corpus); the real queue_relay_player / queue_event_player; post_relay_async /
post_async futures.
Scheduler choices are never guessed: the harness logs which task step / drain / clear / coroutine end actually happened in
which order (instrumenting handlers, QueuedEvent.clear, _async_handler_coroutine, _async_handler_done, _set_result,
_wait_handler, _remove_wait_handlers and process_event_queue from this process) and feeds that schedule to the Lean driver,
which answers not-enabled when the model says that step could not run then.
Relay and boolean events: C01's generator restricted to those types, real post_relay/post_boolean vs. the event-bus model.
Oracle (model independent): every posted queue event's callback exactly once at quiescence, handlers of one event in
registry order (those whose condition holds), no handler of an event starts between an earlier handler's wait and its
clear, no task left; what the property does not state (events_when_finished counts, behaviour after stop()) is counted only.
"""
import asyncio

from harness.common import leanproc
from harness.common.shrink import ddmin
from harness.common.util import InfraError
from harness.corr import C01 as c01

ID = "C02"
LEAN_MODULES = ["MpfVerif.Props.C02"]
PROPS_FILE = "MpfVerif/Props/C02.lean"
GEN = []
MANIFEST = {
  "text": "Proof on a Lean model of queue-event dispatch (QueuedEvent cells addressed by id, dispatch tasks with snapshot / fresh cell per handler / kwargs merge with handler kwargs winning / 'k==v' conditions on the merged kwargs / 'if queue.waiter: queue.event = Event(); await' / completion callback with the posted kwargs, the fast path without handlers, the early return when all handlers were removed, add_async_handler's wait and _async_handler_done for a coroutine that returned, was cancelled or raised, clear setting the cell's current event, EventManager.stop() cancelling the existing tasks and refusing later posts, the handlers and the future of wait_for_event / wait_for_any_event incl. cancellation) with every scheduler choice an input: for ALL handler programs and ALL schedules a task step calls the handlers of its snapshot whose condition holds, in order, and stops at the first one that leaves its wait registered, a sleeping task cannot be resumed until exactly that wait is cleared and is resumable as soon as it is - also when the coroutine handler holding it ends cancelled -, a finished or stop()-cancelled task never runs again and a task logs its callback exactly once when it finishes; relay events fold the handlers' returned dicts left to right with every handler seeing the fold so far, boolean events stop at the first False and report ev_result=False (event-bus model of _run_handlers). Both models are tied to mpf/core/events.py on every check: generated handler sets run on the real EventManager (post_queue and post_queue_async, coroutine handlers that return / await a future that is resolved or cancelled / raise CancelledError / have their task cancelled by a timer, another handler or a plain event, wait futures, stop()), the observed schedule is replayed on the Lean driver (not-enabled = disagreement) and the observations incl. the kwargs every handler and callback received are compared; an independent oracle checks callback-exactly-once (for post_queue_async: the future resolved once with the kwargs as posted), order and no-overlap on the implementation trace, also on real use_wait_queue modes started by a queue event, on the REAL queue_relay_player / queue_event_player (machine level and in a mode: held until wait_for arrives, same event twice, mode stopping meanwhile, player chains, mode start posted as queue event) and on post_relay_async / post_async futures (handlers returning dict / None / non-dict, removed meanwhile).",
  "note": "Trusted: Lean kernel + {propext, Classical.choice, Quot.sound}; the hand-written models Model/QueueEvent.lean and Model/EventBus.lean (validated only by the differential runs, no translator tie: _run_handlers_sequential is an async for-loop outside the translators' subset); asyncio task/timer scheduling is an input, not modelled; exactly-once on fair schedules is stated as: every cleared wait re-enables its task and every step shortens the remaining handler list (no global liveness theorem, no global no-duplicate-callback theorem over op sequences). Not modelled: exceptions other than CancelledError in handlers, stop() called from inside a queue-event handler, blocking_facility, re-locking a cell after clear; queue players and post_relay_async/post_async futures are oracle-only (no Lean model of the config players).",
  "technique": "Lean 4 theorems over explicit schedules (unfolding lemmas + induction over handler lists) on hand models + schedule-replaying differential correspondence with the real EventManager + independent trace oracles on generated programs and on real config players",
  "translated": False,
 }
RULE = ("queue cases: 1-4 events with 0-4 handlers each (sync / wait+clear later / wait+clear at once / coroutine that sleeps and "
        "returns, awaits a future a timer resolves or cancels, raises CancelledError, or has its task cancelled by a timer / posts an "
        "inner queue event, optionally passing its cell on and waiting for the inner callback to clear it / removes a "
        "handler / cancels a coroutine handler's task; 30% of the sync handlers call replace_handler / remove_handler / "
        "remove_handler_by_event on their own event during its dispatch), priorities -2..2 with ties, in half of the cases posted "
        "kwargs, handler kwargs colliding with them and 'k==v' conditions; 30% of the cases with 1-2 wait_for_event / "
        "wait_for_any_event futures over the queue events, cancelled at generated points; 1-3 stimuli of 1-3 queue posts each (25% "
        "post_queue_async), optionally followed in the same drain by removals / task cancels / future cancels from a plain event's "
        "handler; 10% of the cases call EventManager.stop() at a generated point; clear deadlines pairwise distinct on the 1/8 s grid. "
        "non-trivial = a wait was outstanding across a scheduler step, a queue event was posted from a handler or "
        "callback, or handlers were removed before a task started. player cases: 3-10 ops over two queue_relay_players and a "
        "queue_event_player in a mode and at machine level (queue posts, wait_for posts, triggers, mode start (plain or as queue "
        "event) / stop), use_wait_queue and pass_args generated; non-trivial = a player held a queue. future cases: 0-4 handlers "
        "returning None / dict / int / False / str / list or removing a peer, post_relay_async or post_async once or twice. "
        "relay/boolean cases: C01's generator with only boolean and relay posts; non-trivial as in C01. distinct = canonical JSON of the case")
TRUSTED = [
    "modelled, not verified: asyncio (which ready task / timer / done-callback runs next is logged from the implementation and given to "
    "the model as input; the model only decides enabledness); DelayManager firing the clear timers; Task.cancel() delivering "
    "CancelledError at the await",
    "Model/QueueEvent.lean and Model/EventBus.lean are hand-written; tied to mpf/core/events.py by correspondence on every run",
    "BoolTemplate condition evaluation is modelled as: key present and equal to the int",
]
ASSUMPTIONS = ["queue-event handlers do not raise (a coroutine handler may end with CancelledError), clear each wait exactly once and "
               "do not re-lock a cell after clearing it",
               "post_queue is always given a callback (post_queue without callback and without handlers would call None)",
               "EventManager.stop() is called from outside queue-event handlers (shutdown); events in flight at stop() are exempt "
               "from callback-exactly-once (at most once is still checked)"]

CONFIG = "switches:\n  s_c02:\n    number: 1\n"
GRID = 0.125


# ---------------------------------------------------------------------------------------------------------------------
# generator.  handler program acts: ["W", ticks|None] wait (+ clear after ticks), ["C"] clear own now,
# ["Q", ev, cbpid, pass, kw] post queue event (cbpid 0 = post_queue_async: the completion callback is a future),
# ["R", ev, key], ["X", key] cancel the task(s) of coroutine handler `key`, ["WC", wid] cancel a wait future, ["STOP"]
# EventManager.stop(); callback acts: ["CP"] clear the passed cell, ["Q", ...]
# registration: ["A", ev, key, prio, pid, kw, cond], ["H", ev, key, prio, pid, kw] replace_handler,
# ["WA", wid, [[ev, key], ...], wpid] wait_for_event / wait_for_any_event (its handlers are entries with program wpid)
# coroutine programs: kind "a", "end" in ret (sleep `ticks`, return) / gset (await a future a timer resolves) / gcancel (a
# timer cancels the awaited future) / raise (sleep, raise CancelledError) / tcancel (a timer cancels the handler's task)
# ---------------------------------------------------------------------------------------------------------------------
def norm_act(a):
    """acts of replays written before kwargs/conditions existed"""
    if a[0] == "Q" and len(a) == 4:
        return a + [[]]
    if a[0] == "A" and len(a) == 5:
        return a + [[], None]
    if a[0] == "H" and len(a) == 5:
        return a + [[]]
    return a


def norm_case(case):
    if case.get("kind") != "queue":
        return case
    case = dict(case)
    case["progs"] = {k: dict(v, acts=[norm_act(a) for a in v["acts"]], end=v.get("end", "ret")) for k, v in case["progs"].items()}
    case["boot"] = [norm_act(a) for a in case["boot"]]
    case["stimuli"] = [dict(st, posts=[norm_act(a) for a in st["posts"]], sync=[norm_act(a) for a in st["sync"]])
                       for st in case["stimuli"]]
    return case


class Gen:
    def __init__(self, r):
        self.r = r
        self.nev = r.randint(1, 4)
        self.progs = {}
        self.next_pid = 1
        self.next_key = 1
        self.key_ev = {}
        self.async_keys = []
        self.use_kw = r.random() < 0.5

    def prog(self, kind, acts, ticks=None, end="ret"):
        pid = self.next_pid
        self.next_pid += 1
        self.progs[str(pid)] = {"kind": kind, "acts": acts, "ticks": ticks, "end": end}
        return pid

    def kw(self, p=0.5):
        r = self.r
        if not self.use_kw or r.random() > p:
            return []
        ks = r.sample([1, 2, 3], r.choice([1, 1, 2]))
        return [[k, r.randint(0, 2)] for k in ks]

    def cb_prog(self, level, passed):
        r = self.r
        acts = [["CP"]] if passed else []
        if level < self.nev and r.random() < 0.2:
            acts.append(["Q", r.randint(level + 1, self.nev), self.cb_prog(self.nev, False), 0, self.kw()])
        return self.prog("s", acts)

    def cb_or_future(self, level):
        return 0 if self.r.random() < 0.25 else self.cb_prog(level, False)

    def handler_prog(self, ev):
        r = self.r
        x = r.random()
        if x < 0.22:
            return self.prog("s", [])
        if x < 0.45:
            return self.prog("s", [["W", r.randint(1, 12)]])
        if x < 0.52:
            return self.prog("s", [["W", None], ["C"]])
        if x < 0.75:
            end = r.choice(["ret", "ret", "ret", "gset", "gcancel", "gcancel", "raise", "tcancel", "tcancel"])
            ticks = r.choice([0, 0, r.randint(1, 12)]) if end in ("ret", "raise") else r.randint(1, 12)
            return self.prog("a", [], ticks=ticks, end=end)
        if x < 0.92 and ev < self.nev:
            inner = r.randint(ev + 1, self.nev)
            if r.random() < 0.5:   # Mode.start with use_wait_queue: wait, pass the cell on, inner callback clears it
                return self.prog("s", [["W", None], ["Q", inner, self.cb_prog(inner, True), 1, self.kw()]])
            pw = r.choice([0, 0, 1])
            acts = [["Q", inner, self.cb_prog(inner, False) if pw else self.cb_or_future(inner), pw, self.kw()]]
            if r.random() < 0.4:
                acts.insert(r.choice([0, 1]), ["W", r.randint(1, 12)])
            return self.prog("s", acts)
        if self.key_ev:
            key = r.choice(list(self.key_ev))
            return self.prog("s", [["R", self.key_ev[key], key]])
        return self.prog("s", [])

    def handler(self, ev):
        r = self.r
        key = self.next_key
        self.next_key += 1
        self.key_ev[key] = ev
        pid = self.handler_prog(ev)
        if self.progs[str(pid)]["kind"] == "a":
            self.async_keys.append(key)
        cond = [r.randint(1, 3), r.randint(0, 2)] if self.use_kw and r.random() < 0.25 else None
        return ["A", ev, key, r.randint(-2, 2), pid, self.kw(0.3), cond]

    def mutator(self, ev, self_pid, peers):
        """replace_handler / remove_handler / remove_handler_by_event called from a handler while its own queue event is
        being dispatched; target = itself, a peer of the same event (served already or still waiting) or absent.
        (coroutine handlers are registered as functools.partial objects and cannot be found by callback: never a target)"""
        r = self.r
        sync_peers = [p for p in peers if self.progs[str(p)]["kind"] == "s"]
        x = r.random()
        tgt = self_pid if x < 0.4 else (r.choice(sync_peers) if sync_peers and x < 0.85 else self.prog("s", []))
        y = r.random()
        if y < 0.55:
            key = self.next_key
            self.next_key += 1
            self.key_ev[key] = ev
            return ["H", ev, key, r.randint(-2, 2), tgt, self.kw(0.3)]
        return ["E", ev, tgt] if y < 0.8 else ["M", tgt]

    def case(self):
        r = self.r
        boot = []
        for ev in range(1, self.nev + 1):
            for _ in range(r.choice([0, 1, 1, 2, 2, 3, 4])):
                boot.append(self.handler(ev))
        r.shuffle(boot)
        for a in list(boot):
            p = self.progs[str(a[4])]
            if p["kind"] == "s" and r.random() < 0.3:
                peers = [b[4] for b in boot if b[1] == a[1]]
                p["acts"].insert(r.randint(0, len(p["acts"])), self.mutator(a[1], a[4], peers))
            if p["kind"] == "s" and self.async_keys and r.random() < 0.15:
                p["acts"].insert(r.randint(0, len(p["acts"])), ["X", r.choice(self.async_keys)])
        # wait_for_event / wait_for_any_event futures on queue events
        waits = []
        if r.random() < 0.3:
            for wid in range(1, r.choice([1, 1, 2]) + 1):
                evs = r.sample(range(1, self.nev + 1), min(self.nev, r.choice([1, 1, 2])))
                pairs = []
                for ev in evs:
                    pairs.append([ev, self.next_key])
                    self.key_ev[self.next_key] = ev
                    self.next_key += 1
                wpid = self.prog("w", [["R", ev, k] for ev, k in pairs] + [["WR", wid]])
                waits.append(wid)
                boot.insert(r.randint(0, len(boot)), ["WA", wid, pairs, wpid])
        stimuli = []
        nst = r.randint(1, 3)
        stop_at = r.randrange(nst) if r.random() < 0.1 else None
        for i in range(nst):
            posts = [["Q", r.randint(1, self.nev), self.cb_or_future(r.choice([1, self.nev])), 0, self.kw()]
                     for _ in range(r.choice([1, 1, 2, 3]))]
            sync = []
            if r.random() < 0.3 and self.key_ev:
                for _ in range(r.choice([1, 1, 2, 4])):
                    key = r.choice(list(self.key_ev))
                    sync.append(["R", self.key_ev[key], key])
            if self.async_keys and r.random() < 0.3:
                (sync if r.random() < 0.7 else posts).append(["X", r.choice(self.async_keys)])
            if waits and r.random() < 0.4:
                tgt = sync if r.random() < 0.5 else posts
                tgt.insert(r.randint(0, len(tgt)), ["WC", r.choice(waits)])
            if stop_at == i:
                tgt = sync if r.random() < 0.6 else posts
                tgt.insert(r.randint(0, len(tgt)), ["STOP"])
            stimuli.append({"posts": posts, "sync": sync, "gap": r.choice([0, 1, 3, 20])})
        return {"kind": "queue", "progs": self.progs, "boot": boot, "stimuli": stimuli}


# ---------------------------------------------------------------------------------------------------------------------
# the real thing
# ---------------------------------------------------------------------------------------------------------------------
def kname(k):
    return "k%d" % k


def kwitems(kwargs):
    """the generated kwargs a handler / callback / future received, in the order of the dict"""
    return [[int(k[1:]), v] for k, v in kwargs.items() if k[0] == "k" and k[1:].isdigit()]


class QHandler:
    """sync handler of a queue event; equal by callback identity (program id) like bound methods are"""

    def __init__(self, real, key, pid):
        self.real, self.key, self.pid = real, key, pid

    def __call__(self, queue, sn, evn, **kwargs):
        return self.real.call_handler(self.key, self.pid, queue, sn, evn, kwargs)

    def __eq__(self, other):
        return isinstance(other, QHandler) and other.pid == self.pid

    def __ne__(self, other):
        return not self.__eq__(other)

    def __hash__(self):
        return hash(("QHandler", self.pid))


class Real:
    def __init__(self, vm, case):
        self.vm = vm
        self.ev = vm.machine.events
        self.case = case
        self.progs = case["progs"]
        self.L = []
        self.sn = 0
        self.cells = []          # keeps the objects alive; index = cell number
        self.keys = {}
        self.depth = 0
        self.deadlines = set()
        self.nested = False
        self.in_adone = 0
        self.coro_tasks = {}     # handler key -> tasks of its coroutine
        self.futures = {}        # sn -> post_queue_async future
        self.wfut = {}           # wid -> wait future
        self.wfut_id = {}        # id(future) -> wid
        self.wkeys = {}          # (wid, ev) -> handler key
        self.wpairs = {}         # wid -> [[ev, key], ...]
        self.stopped = False
        self.loop_errors = []

    def cellno(self, q):
        for i, c in enumerate(self.cells):
            if c is q:
                return i
        self.cells.append(q)
        return len(self.cells) - 1

    def deadline(self, ticks):
        """a grid instant `ticks` ahead that no other harness timer uses (no same-instant ties between timers)"""
        t = round(self.vm.now() / GRID) + max(1, ticks)
        while t in self.deadlines:
            t += 1
        self.deadlines.add(t)
        return t * GRID - self.vm.now()

    def timer(self, ticks, fn):
        self.vm.machine.delay.add(ms=self.deadline(ticks) * 1000, callback=fn)

    def run_acts(self, acts, own=None, passed=None):
        for a in acts:
            if a[0] == "W":
                own.wait()
                if a[1] is not None:
                    self.timer(a[1], own.clear)
            elif a[0] == "C":
                own.clear()
            elif a[0] == "CP":
                passed.clear()
            elif a[0] == "Q":
                _, ev, cb, pw, pkw = a
                sn = self.sn
                self.sn += 1
                kw = {"sn": sn, "evn": ev}
                kw.update({kname(k): v for k, v in pkw})
                if pw and own is not None:
                    kw["queue"] = own
                self.L.append(("post", sn, ev, self.depth > 0, pkw, cb == 0))
                if cb == 0:
                    fut = self.ev.post_queue_async("qe%d" % ev, **kw)
                    self.futures[sn] = (fut, {k: v for k, v in kw.items()})
                    fut.add_done_callback(lambda f, sn=sn: self.L.append(
                        ("fut", sn, "cancelled" if f.cancelled() else dict(f.result()))))
                else:
                    self.ev.post_queue("qe%d" % ev, self.make_cb(cb, sn, own if pw else None), **kw)
            elif a[0] == "A":
                _, ev, key, prio, pid, hkw, cond = a
                p = self.progs[str(pid)]
                name = "qe%d" % ev + ("{%s==%d}" % (kname(cond[0]), cond[1]) if cond is not None else "")
                kws = {kname(k): v for k, v in hkw}
                if p["kind"] == "a":
                    k = self.ev.add_async_handler(name, self.make_coro(key, pid), prio, **kws)
                else:
                    k = self.ev.add_handler(name, self.make_handler(key, pid), prio, **kws)
                self.keys.setdefault(key, []).append(k)
                self.L.append(("reg", "A", ev, key, prio, pid, hkw, cond))
            elif a[0] == "WA":
                _, wid, pairs, wpid = a
                names = ["qe%d" % ev for ev, _ in pairs]
                fut = self.ev.wait_for_event(names[0]) if len(names) == 1 else self.ev.wait_for_any_event(names)
                self.wfut[wid] = fut
                self.wfut_id[id(fut)] = wid
                self.wpairs[wid] = pairs
                for ev, key in pairs:
                    self.wkeys[(wid, ev)] = key
                    # the keys wait_for_any_event made (a program may remove_handler_by_key such an entry like any other)
                    for rh in self.ev.registered_handlers.get("qe%d" % ev, []):
                        if getattr(rh.callback, "keywords", {}).get("_future") is fut:
                            from mpf.core.events import EventHandlerKey
                            self.keys.setdefault(key, []).append(EventHandlerKey(rh.key, "qe%d" % ev))
                    self.L.append(("reg", "A", ev, key, 1, wpid, [], None))
                fut.add_done_callback(lambda f, wid=wid: self.L.append(("wfut", wid, "cancelled" if f.cancelled() else "result")))
            elif a[0] == "WC":
                self.wfut[a[1]].cancel()
                self.L.append(("wcancel", a[1]))
            elif a[0] == "X":
                n = 0
                for t in self.coro_tasks.get(a[1], []):
                    if not t.done():
                        t.cancel()
                        n += 1
                self.L.append(("xcancel", a[1], n))
            elif a[0] == "STOP":
                self.ev.stop()
                self.stopped = True
                self.L.append(("stop",))
            elif a[0] == "R":
                for k in self.keys.get(a[2], []):
                    self.ev.remove_handler_by_key(k)
                self.L.append(("reg", "R", a[1], a[2]))
            elif a[0] == "H":
                _, ev, key, prio, pid, hkw = a
                k = self.ev.replace_handler("qe%d" % ev, self.make_handler(key, pid), prio, **{kname(k): v for k, v in hkw})
                self.keys.setdefault(key, []).append(k)
                self.L.append(("reg", "H", ev, key, prio, pid, hkw))
            elif a[0] == "M":
                self.ev.remove_handler(QHandler(self, None, a[1]))
                self.L.append(("reg", "M", a[1]))
            elif a[0] == "E":
                self.ev.remove_handler_by_event("qe%d" % a[1], QHandler(self, None, a[2]))
                self.L.append(("reg", "E", a[1], a[2]))
            else:
                raise InfraError("bad act %r" % (a,))

    def make_handler(self, key, pid):
        return QHandler(self, key, pid)

    def call_handler(self, key, pid, queue, sn, evn, kwargs):
        self.depth += 1
        self.nested = self.nested or self.depth > 1
        try:
            c = self.cellno(queue)
            self.L.append(("call", key, evn, sn, c, kwitems(kwargs)))
            self.run_acts(self.progs[str(pid)]["acts"], own=queue)
        finally:
            self.depth -= 1

    def make_coro(self, key, pid):
        p = self.progs[str(pid)]

        async def coro(sn, evn, **kwargs):
            self.L.append(("coro", key, evn, sn))
            end, ticks = p.get("end", "ret"), p["ticks"]
            if end in ("ret", "raise"):
                if ticks:
                    await asyncio.sleep(self.deadline(ticks))
                if end == "raise":
                    raise asyncio.CancelledError()
            elif end in ("gset", "gcancel"):
                gate = asyncio.Future()
                self.timer(ticks, (lambda: gate.done() or gate.set_result(True)) if end == "gset" else gate.cancel)
                await gate
            elif end == "tcancel":
                task = asyncio.current_task()
                self.timer(ticks, task.cancel)
                await asyncio.Future()
            else:
                raise InfraError("bad coroutine end %r" % end)
        coro.c02_key = key
        return coro

    def make_cb(self, pid, sn, passed):
        def callback(**kwargs):
            self.depth += 1
            self.nested = self.nested or self.depth > 1
            try:
                self.L.append(("cb", pid, sn, kwitems(kwargs)))
                self.run_acts(self.progs[str(pid)]["acts"], passed=passed)
            finally:
                self.depth -= 1
        return callback

    def advance(self, dt):
        """after EventManager.stop() the done callback of a cancelled dispatch task raises CancelledError into the loop's
        exception handler (`_queue_task_done`: future.result()); the test loop re-raises it here: noted, not a failure"""
        for _ in range(50):
            t0 = self.vm.now()
            try:
                self.vm.advance(dt)
                return
            except asyncio.CancelledError:
                if not self.stopped:
                    raise
                self.loop_errors.append("CancelledError")
                dt = max(0.0, dt - (self.vm.now() - t0))
        raise InfraError("loop keeps raising CancelledError")

    def run(self):
        from mpf.core import events as evmod
        EM, QE = evmod.EventManager, evmod.QueuedEvent
        o_clear, o_async, o_peq = QE.clear, EM._async_handler_coroutine, EM.process_event_queue
        o_adone, o_setres, o_wait, o_rmwait = (EM.__dict__["_async_handler_done"], EM.__dict__["_set_result"], EM._wait_handler,
                                               EM._remove_wait_handlers)
        o_pqe = EM._process_queue_event
        real = self

        def clear(cell):
            real.L.append(("dclear" if real.in_adone else ("clear" if real.depth == 0 else "iclear"), real.cellno(cell)))
            return o_clear(cell)

        def async_spy(em, _coroutine, queue, **kwargs):
            real.L.append(("acall", kwargs.get("evn"), kwargs.get("sn"), real.cellno(queue), kwitems(kwargs)))
            orig = asyncio.create_task

            def create_task(coro, **kw):
                t = orig(coro, **kw)
                real.coro_tasks.setdefault(getattr(_coroutine, "c02_key", None), []).append(t)
                return t
            asyncio.create_task = create_task
            try:
                return o_async(em, _coroutine, queue, **kwargs)
            finally:
                asyncio.create_task = orig

        def adone_spy(queue, future):
            outcome = "cancelled" if future.cancelled() else ("raised" if future.exception() is not None else "ok")
            real.L.append(("adone", real.cellno(queue), outcome))
            real.in_adone += 1
            try:
                return o_adone.__func__(queue, future)
            finally:
                real.in_adone -= 1

        def setres_spy(_future, **kwargs):
            if "sn" in kwargs and real.futures.get(kwargs["sn"], (None,))[0] is _future:
                real.L.append(("cb", 0, kwargs["sn"], kwitems(kwargs)))
            return o_setres.__func__(_future, **kwargs)

        def wait_spy(em, _future, _keys, **kwargs):
            wid = real.wfut_id.get(id(_future))
            if wid is None or "sn" not in kwargs:
                return o_wait(em, _future, _keys, **kwargs)
            evn = kwargs["evn"]
            was_done = _future.done()
            real.depth += 1
            try:
                real.L.append(("call", real.wkeys[(wid, evn)], evn, kwargs["sn"], real.cellno(kwargs["queue"]), kwitems(kwargs)))
                r = o_wait(em, _future, _keys, **kwargs)
                for ev, key in real.wpairs[wid]:
                    real.L.append(("reg", "R", ev, key))
                if _future.done() and not was_done and not _future.cancelled():
                    real.L.append(("wres", wid, kwargs["sn"]))
                return r
            finally:
                real.depth -= 1

        def rmwait_spy(em, keys, future):
            wid = real.wfut_id.get(id(future))
            if wid is not None and future.cancelled():
                acts = [["R", ev, key] for ev, key in real.wpairs[wid]]
                real.L.append(("sync", acts))
                for a in acts:
                    real.L.append(("reg", "R", a[1], a[2]))
            return o_rmwait(em, keys, future)

        def pqe_spy(em, event, callback, **kwargs):
            if "sn" in kwargs and event.startswith("qe"):
                real.L.append(("qd", kwargs["sn"]))
            return o_pqe(em, event, callback, **kwargs)

        def peq(em):
            busy = bool(em.event_queue or em.callback_queue)
            if busy:
                real.L.append(("drain-begin",))
            try:
                return o_peq(em)
            finally:
                if busy:
                    real.L.append(("drain-end",))

        def sync_handler(acts, **kwargs):
            self.L.append(("sync", acts))
            self.run_acts(acts)
        QE.clear, EM._async_handler_coroutine, EM.process_event_queue = clear, async_spy, peq
        EM._async_handler_done, EM._set_result = staticmethod(adone_spy), staticmethod(setres_spy)
        EM._wait_handler, EM._remove_wait_handlers = wait_spy, rmwait_spy
        EM._process_queue_event = pqe_spy
        crash = None
        try:
            self.ev.add_handler("c02_sync", sync_handler)
            self.L.append(("top", self.case["boot"]))
            self.run_acts(self.case["boot"])
            self.vm.run()
            for st in self.case["stimuli"]:
                self.L.append(("top", st["posts"]))
                self.run_acts(st["posts"])
                if st["sync"]:
                    self.ev.post("c02_sync", acts=st["sync"])
                self.advance(GRID * st["gap"])
            for _ in range(60):      # until every harness timer has fired (handlers reached later add new ones)
                self.advance(GRID * 16)
                if not self.deadlines or max(self.deadlines) * GRID + 1 < self.vm.now():
                    break
        except InfraError:
            raise
        except Exception as e:
            crash = "%s: %s" % (type(e).__name__, str(e)[:200])
        finally:
            QE.clear, EM._async_handler_coroutine, EM.process_event_queue = o_clear, o_async, o_peq
            EM._async_handler_done, EM._set_result = o_adone, o_setres
            EM._wait_handler, EM._remove_wait_handlers = o_wait, o_rmwait
            EM._process_queue_event = o_pqe
        left = {"tasks": sum(1 for t in self.ev._queue_tasks if not t.done()),
                "queue": len(self.ev.event_queue) + len(self.ev.callback_queue),
                "waits": sum(1 for c in self.cells if c.waiter),
                "listed_tasks": len(self.ev._queue_tasks),
                "futures_pending": sorted(sn for sn, (f, _) in self.futures.items() if not f.done()),
                "future_results": {str(sn): (None if not f.done() or f.cancelled() else
                                             {k: (v if not isinstance(v, evmod.QueuedEvent) else "<cell>") for k, v in f.result().items()})
                                   for sn, (f, _) in self.futures.items()},
                "future_posted": {str(sn): kw for sn, (_, kw) in self.futures.items()},
                "loop_errors": self.loop_errors}
        return crash, left


def run_real(case):
    from harness.common.vmachine import VMachine, BootError
    try:
        vm = VMachine(CONFIG).start()
    except BootError as e:
        return [], "boot: " + str(e)[:200], {}, False
    try:
        vm.align()
        real = Real(vm, case)
        crash, left = real.run()
        return real.L, crash, left, real.nested
    finally:
        vm.stop()


# ---------------------------------------------------------------------------------------------------------------------
# oracle on the implementation trace
# ---------------------------------------------------------------------------------------------------------------------
def merged_kw(posted, hkw):
    d = {k: v for k, v in posted}
    d.update({k: v for k, v in hkw})
    return d


def oracle(case, L, crash, left, nested):
    if crash is not None:
        return "crash:" + crash.split(":")[0], {"error": crash}
    progs = case["progs"]
    reg = {}                      # ev -> [(key, prio, pid, kw, cond)] in call order
    posts, calls, cbs, started, postkw = {}, {}, {}, {}, {}
    futures = set()
    key_pid = {}
    waiting = {}      # sn -> cell whose wait is outstanding (registered by the last handler of that event)
    cleared = set()
    stop_at = None
    cancels = False
    for i, e in enumerate(L):
        if e[0] == "reg":
            if e[1] in ("A", "H"):
                key_pid[e[3]] = e[5]
                if e[1] == "H":
                    hkw = {k: v for k, v in e[6]}
                    reg[e[2]] = [h for h in reg.get(e[2], [])
                                 if not (h[2] == e[5] and (not hkw or {k: v for k, v in h[3]} == hkw))]
                lst = reg.setdefault(e[2], [])
                j = len(lst)
                while j > 0 and lst[j - 1][1] < e[4]:
                    j -= 1
                lst.insert(j, (e[3], e[4], e[5], e[6], e[7] if e[1] == "A" else None))
            elif e[1] == "M":
                for x in list(reg):
                    reg[x] = [h for h in reg[x] if h[2] != e[2]]
            elif e[1] == "E":
                reg[e[2]] = [h for h in reg.get(e[2], []) if h[2] != e[3]]
            else:
                reg[e[2]] = [h for h in reg.get(e[2], []) if h[0] != e[3]]
        elif e[0] == "post":
            if stop_at is None:          # a post after stop() is refused ("Event after stop"): not a posted event
                posts[e[1]] = e[2]
                postkw[e[1]] = e[4]
                if e[5]:
                    futures.add(e[1])
        elif e[0] == "stop":
            stop_at = i
        elif e[0] == "xcancel":
            cancels = cancels or e[2] > 0
        elif e[0] in ("call", "acall", "cb"):
            sn = e[3] if e[0] == "call" else e[2]
            if sn not in started:
                # snapshot when the task starts: the handlers whose condition holds on the merged kwargs are the ones to call
                started[sn] = [h[0] for h in reg.get(posts.get(sn), [])
                               if h[4] is None or merged_kw(postkw.get(sn, []), h[3]).get(h[4][0]) == h[4][1]]
            if sn in waiting and waiting[sn] not in cleared:
                return "overlap", {"what": "handler or callback of an event ran while an earlier handler's wait was outstanding",
                                   "sn": sn, "entry": list(e), "cell": waiting[sn]}
            if e[0] == "cb":
                cbs[sn] = cbs.get(sn, 0) + 1
            else:
                calls.setdefault(sn, []).append(e[1] if e[0] == "call" else None)
                cell = e[4] if e[0] == "call" else e[3]
                key = e[1] if e[0] == "call" else None
                pid = key_pid.get(key)
                w = e[0] == "acall" or (pid is not None and any(a[0] == "W" for a in progs[str(pid)]["acts"])
                                        and not any(a[0] == "C" for a in progs[str(pid)]["acts"]))
                if w:
                    waiting[sn] = cell
        elif e[0] in ("clear", "iclear", "dclear"):
            cleared.add(e[1])
    for sn, ev in posts.items():
        n = cbs.get(sn, 0)
        if n == 0 and stop_at is None:
            sub = "handlers-removed" if not calls.get(sn) else "after-handlers"
            return "callback-missing:" + sub, {"sn": sn, "event": ev, "calls": calls.get(sn), "left": left}
        if n > 1:
            return "callback-twice", {"sn": sn, "event": ev, "count": n}
        got = calls.get(sn, [])
        exp = started.get(sn, [])
        if n == 0:       # cut short by stop(): what was called is a prefix
            exp = exp[:len(got)]
        # coroutine handlers log no key at dispatch time: compare positions of the sync ones, and the length
        if len(got) != len(exp) or any(g is not None and g != x for g, x in zip(got, exp)):
            return "handler-order", {"sn": sn, "event": ev, "called": got, "registry": exp}
        if sn in futures and n == 1:
            # the completion "callback" of post_queue_async is its future: resolved, with the kwargs as posted
            res, posted = left.get("future_results", {}).get(str(sn)), left.get("future_posted", {}).get(str(sn))
            nfut = sum(1 for e in L if e[0] == "fut" and e[1] == sn)
            if res is None or nfut != 1:
                return "future-unresolved", {"sn": sn, "event": ev, "result": res, "done_callbacks": nfut}
            if res != {k: (v if k != "queue" else "<cell>") for k, v in posted.items()}:
                return "future-result", {"sn": sn, "event": ev, "result": res, "posted": posted}
    if stop_at is None and (left.get("tasks") or left.get("queue") or left.get("waits")):
        return "not-quiescent", {"left": left}
    if nested:
        return "nested-dispatch", {}
    if any(e[0] == "adone" and e[2] == "raised" for e in L):
        return "crash", {"error": "coroutine handler raised"}
    coro = [e for e in L if e[0] == "coro"]
    acalls = [e for e in L if e[0] == "acall"]
    if len(coro) > len(acalls) or (len(coro) != len(acalls) and not cancels and stop_at is None):
        return "coroutine-count", {"started": len(coro), "dispatched": len(acalls)}
    return None


def is_nontrivial(L):
    waits = any(e[0] in ("clear", "adone") for e in L)
    inner = any(e[0] == "post" and e[3] for e in L)
    sync = any(e[0] == "sync" for e in L)
    mut = any(e[0] == "reg" and e[1] in ("H", "M", "E") for e in L)
    return waits or inner or sync or mut


# ---------------------------------------------------------------------------------------------------------------------
# model: replay the observed schedule
# ---------------------------------------------------------------------------------------------------------------------
def enc_kw(kw):
    return ",".join("%d=%d" % (k, v) for k, v in kw) or "-"


def enc_act(a):
    if a[0] == "W":
        return ["W"]
    if a[0] in ("C", "CP", "STOP"):
        return [a[0]]
    if a[0] == "Q":
        return ["Q %d %d %d %s" % (a[1], a[2], 1 if a[3] else 0, enc_kw(a[4]))]
    if a[0] == "A":
        return ["A %d %d %d %d %s %s" % (a[1], a[2], a[3], a[4], enc_kw(a[5]), "-" if a[6] is None else "%d=%d" % tuple(a[6]))]
    if a[0] == "WA":
        return ["A %d %d 1 %d - -" % (ev, key, a[3]) for ev, key in a[2]]
    if a[0] == "R":
        return ["R %d %d" % (a[1], a[2])]
    if a[0] == "H":
        return ["H %d %d %d %d %s" % (a[1], a[2], a[3], a[4], enc_kw(a[5]))]
    if a[0] == "M":
        return ["M %d" % a[1]]
    if a[0] == "E":
        return ["E %d %d" % (a[1], a[2])]
    if a[0] in ("X", "WR", "WC"):
        return ["%s %d" % (a[0], a[1])]
    raise InfraError("bad act %r" % (a,))


def enc_acts(acts):
    return " | ".join(x for a in acts for x in enc_act(a))


def show_kw(kw):
    return "{" + ",".join("%d=%d" % (k, v) for k, v in kw) + "}"


def show(e):
    if e[0] == "call":
        return "c%d.%d.%d.%d" % (e[1], e[2], e[3], e[4]) + show_kw(e[5])
    if e[0] == "acall":
        return "a%d.%d.%d" % (e[1], e[2], e[3]) + show_kw(e[4])
    if e[0] == "wres":
        return "w%d" % e[1]
    return "b%d.%d" % (e[1], e[2]) + show_kw(e[3])


def sn_of(e):
    return e[3] if e[0] == "call" else e[2]


def schedule(L):
    """observed log -> [(model op, expected answer)]"""
    ops = []
    i, n = 0, len(L)
    in_drain = False
    drain_cbs = []
    passive = ("post", "reg", "iclear", "xcancel", "wcancel", "stop", "fut", "wfut", "coro")
    while i < n:
        e = L[i]
        if e[0] == "top":
            ops.append((("top " + enc_acts(e[1])).rstrip(), "ok"))
        elif e[0] == "drain-begin":
            in_drain, drain_cbs = True, []
        elif e[0] == "qd":
            # the loop reaches a waiting queue event (a plain event's handler may run between two of them); the ones
            # dispatched between two callbacks are part of the model's `callbacks` step
            if not in_drain:
                raise InfraError("queue event dispatched outside a drain: %r" % (e,))
            if not drain_cbs:
                ops.append(("dispatch1 %d" % e[1], "ok"))
        elif e[0] == "drain-end":
            in_drain = False
            ops.append(("callbacks", " ".join(drain_cbs) or "ok"))
        elif e[0] == "sync":
            ops.append((("top " + enc_acts(e[1])).rstrip(), "ok"))
        elif e[0] == "clear":
            ops.append(("clear %d" % e[1], "ok"))
        elif e[0] == "adone":
            ops.append(("adone %d %s" % (e[1], e[2]), "ok"))
        elif e[0] in ("call", "acall", "cb"):
            if in_drain:
                if e[0] != "cb":
                    raise InfraError("handler call inside a drain: %r" % (e,))
                drain_cbs.append(show(e))
            else:
                sn = sn_of(e)
                grp = []
                while i < n and (L[i][0] in passive or (L[i][0] == "wres" and L[i][2] == sn) or
                                 (L[i][0] in ("call", "acall", "cb") and sn_of(L[i]) == sn)):
                    if L[i][0] in ("call", "acall", "cb", "wres"):
                        grp.append(show(L[i]))
                    i += 1
                ops.append(("resume %d" % sn, " ".join(grp)))
                continue
        i += 1
    return ops


def run_model(model, case, L, left):
    def ask(line):
        ans = model.ask(line)
        if ans == "bad-op":
            raise InfraError("model rejected %r" % line)
        return ans
    ask("reset")
    for pid, p in case["progs"].items():
        ask(("prog %s %s %s" % (pid, "a" if p["kind"] == "a" else "s", enc_acts(p["acts"]))).rstrip())
    ops = schedule(L)
    got = [ask(op) for op, _ in ops]
    got.append(ask("quiescent"))
    return ([op for op, _ in ops] + ["quiescent"],
            [exp for _, exp in ops] + ["tasks=%d waits=%d left=%d" % (left.get("tasks", 0), left.get("waits", 0), left.get("queue", 0))],
            got)


def check_case(case):
    case = norm_case(case)
    L, crash, left, nested = run_real(case)
    return oracle(case, L, crash, left, nested), L


def units_of(case):
    u = [("b", j) for j in range(len(case["boot"]))]
    u += [("s", i, j) for i, st in enumerate(case["stimuli"]) for j in range(len(st["posts"]))]
    u += [("y", i, j) for i, st in enumerate(case["stimuli"]) for j in range(len(st["sync"]))]
    return u


def restrict(case, units):
    keep = set(units)
    return {"kind": "queue", "progs": case["progs"],
            "boot": [a for j, a in enumerate(case["boot"]) if ("b", j) in keep],
            "stimuli": [{"posts": [a for j, a in enumerate(st["posts"]) if ("s", i, j) in keep],
                         "sync": [a for j, a in enumerate(st["sync"]) if ("y", i, j) in keep], "gap": st["gap"]}
                        for i, st in enumerate(case["stimuli"])]}


def well_formed(case):
    """a shrunk case must not cancel a wait future it never created"""
    made = {a[1] for a in case["boot"] if a[0] == "WA"}
    return all(a[1] in made for st in case["stimuli"] for a in st["posts"] + st["sync"] if a[0] == "WC")


def shrink(case, sig):
    def fails(units):
        c = restrict(case, units)
        if not well_formed(c):
            return False
        res, _ = check_case(c)
        return res is not None and res[0] == sig
    small = restrict(case, ddmin(units_of(case), fails, max_tests=120))
    small["stimuli"] = [st for st in small["stimuli"] if st["posts"]] or small["stimuli"][:1]
    used, todo = set(), [a for a in small["boot"]] + [a for st in small["stimuli"] for a in st["posts"]]
    while todo:
        a = todo.pop()
        pid = a[4] if a[0] in ("A", "H") else (a[2] if a[0] in ("Q", "E") else (a[1] if a[0] == "M" else (a[3] if a[0] == "WA" else None)))
        if pid is not None and pid != 0 and str(pid) not in used:
            used.add(str(pid))
            todo += small["progs"][str(pid)]["acts"]
    small["progs"] = {k: v for k, v in small["progs"].items() if k in used}
    return small


def one_queue_case(ctx, model, case, sample=True):
    case = norm_case(case)
    L, crash, left, nested = run_real(case)
    ctx.evaluated(case, is_nontrivial(L), sample=sample)
    for e in L:
        if e[0] in ("call", "acall", "cb", "clear", "iclear", "sync", "drain-begin", "stop", "wres", "wcancel", "fut"):
            ctx.count("q_" + e[0])
        if e[0] == "adone":
            ctx.count("q_adone_" + e[2])
        if e[0] == "xcancel" and e[2]:
            ctx.count("q_task_cancelled_by_program")
        if e[0] == "wfut":
            ctx.count("q_wait_future_" + e[2])
        if e[0] == "post":
            ctx.count("q_post_from_handler" if e[3] else "q_post_top")
            if e[5]:
                ctx.count("q_post_queue_async")
            if e[4]:
                ctx.count("q_post_with_kwargs")
        if e[0] == "reg" and e[1] in ("H", "M", "E"):
            ctx.count("q_mutator_" + e[1])
        if e[0] == "reg" and e[1] == "A" and e[7] is not None:
            ctx.count("q_conditional_handler")
    if left.get("loop_errors"):
        ctx.count("stop_raises_CancelledError_into_loop")
    if any(e[0] == "stop" for e in L) and any(e[0] in ("call", "acall", "cb") for e in L[[e[0] for e in L].index("stop"):]):
        ctx.count("ran_after_stop")
    res = oracle(case, L, crash, left, nested)
    if res is not None:
        small = shrink(case, res[0])
        r2, _ = check_case(small)
        if r2 is None or r2[0] != res[0]:
            small, r2 = case, res
        ctx.fail(res[0], small, r2[1])
        return
    if model is not None:
        ops, exp, got = run_model(model, case, L, left)
        ctx.compare(dict(case, what="schedule replay", ops=ops), exp, got)


# ---------------------------------------------------------------------------------------------------------------------
# real modes with use_wait_queue started by a queue event (D4 shape), oracle only
# ---------------------------------------------------------------------------------------------------------------------
MODE_CONFIG = "modes:\n  - m1\n"
MODE_YAML = "mode:\n  start_events: start_m1\n  stop_events: stop_m1\n  game_mode: false\n  use_wait_queue: %s\n"


def mode_case(ctx, case):
    from harness.common.vmachine import VMachine, BootError
    ctx.evaluated(case, True)
    ctx.count("mode_cases")
    try:
        vm = VMachine(MODE_CONFIG, modes={"m1": MODE_YAML % ("true" if case["use_wait_queue"] else "false")}).start()
    except BootError as e:
        ctx.fail("crash", case, {"error": "boot: " + str(e)[:200]})
        return
    try:
        vm.align()
        ev = vm.machine.events
        log = []
        hk = case["starting_handler"]
        if hk == "sync":
            ev.add_handler("mode_m1_starting", lambda **kwargs: log.append("starting-handler"))
        elif hk == "wait":
            def h(queue, **kwargs):
                log.append("starting-handler")
                queue.wait()
                vm.machine.delay.add(ms=375, callback=queue.clear)
            ev.add_handler("mode_m1_starting", h)
        elif hk == "async":
            async def co(**kw):
                log.append("starting-handler")
                await asyncio.sleep(0.25)
            ev.add_async_handler("mode_m1_starting", co)
        ev.add_handler("start_m1", lambda **kwargs: log.append("later-handler"), priority=-5)
        crash = None
        mode = vm.machine.modes["m1"]
        mid = {}
        try:
            ev.post_queue("start_m1", lambda **kwargs: log.append("outer-callback"))
            vm.advance(2)
            # use_wait_queue: the mode holds the outer queue event until it stops
            mid = {"active": bool(mode.active), "starting": bool(mode._starting), "log": list(log)}
            ev.post("stop_m1")
            vm.advance(2)
        except Exception as e:
            crash = "%s: %s" % (type(e).__name__, str(e)[:200])
        detail = {"log": log, "after_start": mid, "active_after_stop": bool(mode.active), "tasks": len(ev._queue_tasks),
                  "crash": crash}
        ok = crash is None and mid.get("active") and not mid.get("starting") and \
            (hk == "none" or mid["log"].count("starting-handler") == 1) and \
            (("outer-callback" not in mid["log"]) if case["use_wait_queue"] else ("outer-callback" in mid["log"])) and \
            log.count("outer-callback") == 1 and log.count("later-handler") == 1 and not mode.active and \
            not ev._queue_tasks and log.index("later-handler") < log.index("outer-callback")
        if not ok:
            ctx.fail("callback-missing:mode-start-shared-cell" if log.count("outer-callback") == 0 else "mode-start-order",
                     case, detail)
    finally:
        vm.stop()


# ---------------------------------------------------------------------------------------------------------------------
# the REAL queue_relay_player / queue_event_player (machine level and in a mode), oracle only
# ---------------------------------------------------------------------------------------------------------------------
PLAYER_CONFIG = """modes:
  - m1
queue_relay_player:
  qe_machine:
    post: machine_req
    wait_for: machine_done
queue_event_player:
  trigger_machine:
    queue_event: qe_inner
    events_when_finished: inner_finished
"""
PLAYER_MODE = """mode:
  start_events: start_m1
  stop_events: stop_m1
  game_mode: false
  use_wait_queue: %s
queue_relay_player:
  qe_mode:
    post: mode_req
    wait_for: mode_done
    pass_args: %s
  qe_both:
    post: mode_req
    wait_for: mode_done
queue_event_player:
  trigger_mode:
    queue_event: qe_mode
    events_when_finished: mode_chain_finished
"""
PLAYER_OPS = ["Qmachine", "Qmode", "Qboth", "Qinner", "Dmachine", "Dmode", "start", "qstart", "stop", "Tmachine", "Tmode", "Dinner"]


def gen_player_case(r):
    ops = []
    if r.random() < 0.8:
        ops.append(r.choice(["start", "qstart"]))
    for _ in range(r.randint(2, 9)):
        x = r.random()
        ops.append(r.choice(["Qmachine", "Qmode", "Qmode", "Qboth", "Qinner"]) if x < 0.45 else
                   r.choice(["Dmachine", "Dmode", "Dmode", "Dinner"]) if x < 0.7 else
                   r.choice(["Tmachine", "Tmode"]) if x < 0.82 else r.choice(["start", "qstart", "stop", "stop"]))
        if r.random() < 0.5:
            ops.append("gap%d" % r.choice([1, 1, 3]))
    return {"kind": "player", "use_wait_queue": r.random() < 0.4, "pass_args": r.random() < 0.5, "ops": ops,
            "inner_waits": r.random() < 0.6}


def run_player(case):
    """-> (log, crash, left).  log: post/h/cb per serial, play (a player took the wait of that serial's dispatch), clear"""
    from harness.common.vmachine import VMachine, BootError
    from harness.common import util
    util.ensure_repo_mpf()
    from mpf.core import events as evmod
    from mpf.config_players.queue_relay_player import QueueRelayPlayer
    from mpf.config_players.queue_event_player import QueueEventPlayer
    try:
        vm = VMachine(PLAYER_CONFIG, modes={"m1": PLAYER_MODE % ("true" if case["use_wait_queue"] else "false",
                                                                 "true" if case["pass_args"] else "false")}).start()
    except BootError as e:
        return [], "boot: " + str(e)[:200], {}
    L, cells = [], []
    QE = evmod.QueuedEvent
    o_clear, o_rplay, o_eplay = QE.clear, QueueRelayPlayer.play, QueueEventPlayer.play

    def cellno(q):
        for i, c in enumerate(cells):
            if c is q:
                return i
        cells.append(q)
        return len(cells) - 1

    def clear(cell):
        L.append(("clear", cellno(cell)))
        return o_clear(cell)

    def rplay(self, settings, context, calling_context, priority=0, **kwargs):
        L.append(("play", kwargs.get("sn"), cellno(kwargs["queue"]) if "queue" in kwargs else None, settings["wait_for"]))
        return o_rplay(self, settings, context, calling_context, priority, **kwargs)

    def eplay(self, settings, context, calling_context, priority=0, **kwargs):
        L.append(("eplay", settings["queue_event"]))
        return o_eplay(self, settings, context, calling_context, priority, **kwargs)
    QE.clear, QueueRelayPlayer.play, QueueEventPlayer.play = clear, rplay, eplay
    crash = None
    try:
        vm.align()
        ev, m = vm.machine.events, vm.machine
        sn = [0]

        def later(name):
            def h(**kwargs):
                L.append(("h", name, kwargs.get("sn")))
            return h

        def inner_wait(queue, **kwargs):
            L.append(("h", "inner-wait", kwargs.get("sn")))
            if case["inner_waits"]:
                queue.wait()
                L.append(("play", kwargs.get("sn"), cellno(queue), "timer"))
                m.delay.add(ms=375, callback=queue.clear)
        for q in ("qe_machine", "qe_mode", "qe_both", "start_m1"):
            ev.add_handler(q, later("later:" + q), priority=-5)
        ev.add_handler("qe_inner", inner_wait, priority=3)
        ev.add_handler("qe_inner", later("later:qe_inner"), priority=-5)
        for e in ("machine_req", "mode_req", "inner_finished", "mode_chain_finished"):
            ev.add_handler(e, lambda e=e, **kwargs: L.append(("seen", e, kwargs.get("sn"), sorted(k for k in kwargs if k not in ("sn",)))))

        def post_queue(name):
            n = sn[0]
            sn[0] += 1
            L.append(("post", n, name))
            ev.post_queue(name, lambda n=n, **kwargs: L.append(("cb", n)), sn=n)
        for op in case["ops"] + ["gap8", "Dmachine", "Dmode", "gap8", "stop", "gap8", "Dmachine", "gap16"]:
            if op.startswith("gap"):
                vm.advance(GRID * int(op[3:]))
            elif op.startswith("Q"):
                post_queue("qe_" + op[1:])
            elif op.startswith("D"):
                ev.post(op[1:] + "_done")
            elif op.startswith("T"):
                L.append(("trigger", op[1:]))
                ev.post("trigger_" + op[1:])
            elif op == "start":
                ev.post("start_m1")
            elif op == "qstart":
                post_queue("start_m1")
            elif op == "stop":
                ev.post("stop_m1")
            else:
                raise InfraError("bad player op %r" % op)
    except InfraError:
        raise
    except Exception as e:
        crash = "%s: %s" % (type(e).__name__, str(e)[:200])
    finally:
        QE.clear, QueueRelayPlayer.play, QueueEventPlayer.play = o_clear, o_rplay, o_eplay
        left = {}
        try:
            left = {"tasks": len(vm.machine.events._queue_tasks), "waits": sum(1 for c in cells if c.waiter),
                    "mode_active": bool(vm.machine.modes["m1"].active)}
        finally:
            vm.stop()
    return L, crash, left


def player_oracle(case, L, crash, left):
    if crash is not None:
        return "player:crash:" + crash.split(":")[0], {"error": crash}
    posts = {e[1]: e[2] for e in L if e[0] == "post"}
    held = {}                  # sn -> cells whose wait a player / the waiting handler registered and has not cleared
    for e in L:
        if e[0] == "play" and e[1] is not None and e[2] is not None:
            held.setdefault(e[1], set()).add(e[2])
        elif e[0] == "clear":
            for cs in held.values():
                cs.discard(e[1])
        elif e[0] in ("h", "cb"):
            n = e[2] if e[0] == "h" else e[1]
            if held.get(n):
                return "player:overlap", {"what": "a later handler / the callback ran while a queue player held the event",
                                          "entry": list(e), "held": sorted(held[n])}
    for n, name in posts.items():
        c = sum(1 for e in L if e[0] == "cb" and e[1] == n)
        if c != 1:
            return "player:callback-missing" if c == 0 else "player:callback-twice", {"sn": n, "event": name, "count": c, "left": left}
        lat = [i for i, e in enumerate(L) if e[0] == "h" and e[1] == "later:" + name and e[2] == n]
        if len(lat) != 1 or lat[0] > [i for i, e in enumerate(L) if e[0] == "cb" and e[1] == n][0]:
            return "player:handler-order", {"sn": n, "event": name, "later_handler_calls": len(lat)}
    if left.get("tasks") or left.get("waits"):
        return "player:not-quiescent", {"left": left}
    return None


def player_case(ctx, case):
    L, crash, left = run_player(case)
    ctx.evaluated(case, any(e[0] == "play" for e in L))
    ctx.count("player_cases")
    for e in L:
        if e[0] in ("play", "eplay", "trigger"):
            ctx.count("player_" + e[0] + (":" + str(e[3]) if e[0] == "play" else ""))
    # not stated by the property, counted only: every queue_event_player run posts its events_when_finished once
    fin = sum(1 for e in L if e[0] == "seen" and e[1] in ("inner_finished", "mode_chain_finished"))
    if fin != sum(1 for e in L if e[0] == "eplay"):
        ctx.count("player_events_when_finished_mismatch")
    res = player_oracle(case, L, crash, left)
    if res is not None:
        def fails(ops):
            c = dict(case, ops=list(ops))
            r2 = player_oracle(c, *run_player(c))
            return r2 is not None and r2[0] == res[0]
        small = dict(case, ops=ddmin(list(case["ops"]), fails, max_tests=60))
        r2 = player_oracle(small, *run_player(small))
        if r2 is None or r2[0] != res[0]:
            small, r2 = case, res
        ctx.fail(res[0], small, r2[1])


def player_corpus():
    return [{"kind": "player", "use_wait_queue": u, "pass_args": True, "inner_waits": True, "ops": ops}
            for u in (False, True)
            for ops in (["start", "gap1", "Qmode", "gap1", "Dmode"],                        # held until wait_for arrives
                        ["start", "gap1", "Qmode", "Qmode", "gap1", "Dmode"],               # the same event twice
                        ["start", "gap1", "Qmode", "Qboth", "gap1", "stop"],                # the mode stops meanwhile
                        ["start", "gap1", "Qboth", "gap1", "Dmode", "gap1", "Qmachine", "Tmachine", "gap1", "Dmachine"],
                        ["qstart", "gap1", "Tmode", "gap1", "Dmode", "stop"],               # player chain inside a mode
                        ["Qmachine", "qstart", "Qinner", "Dmachine", "stop", "Tmachine"])]


# ---------------------------------------------------------------------------------------------------------------------
# relay / boolean events (event-bus model behind the "bus " prefix of the C02 driver)
# ---------------------------------------------------------------------------------------------------------------------
class BusModel:
    def __init__(self, model):
        self.model = model

    def ask(self, line):
        return self.model.ask("bus " + line)


def relay_bool_case(ctx, model, r):
    g = c01.Gen(r)
    g.types = ["b", "b", "r", "r", "r", "n"]
    case = g.case()
    try:
        per_ref, ref = c01.reference(case)
    except c01.TooBig:
        ctx.count("skipped_too_big")
        return
    ctx.evaluated(dict(case, kind="bus"), bool(ref.flags & {"boolean-stop", "relay-update"}))
    for f in ref.flags:
        ctx.count("bus_" + f)
    per, crash, nested, left = c01.run_real(case)
    res = c01.oracle(case, per, crash, nested, left)
    if res is not None:
        small = c01.shrink(case, res[0])
        r2, _ = c01.check_case(small)
        ctx.fail("bus:" + res[0], dict(small, kind="bus"), (r2 or res)[1])
        return
    if getattr(left, "too_big", False):      # the real run was cut off at the call cap (as in C01.one_case): nothing to compare
        ctx.count("skipped_too_big")
        return
    if model is not None:
        ctx.compare(dict(case, kind="bus"), [c01.show_trace(tr) for tr in per], c01.run_model(BusModel(model), case))


# ---------------------------------------------------------------------------------------------------------------------
# post_relay_async / post_async futures (oracle only; the fold itself is the event-bus model's, compared above)
# ---------------------------------------------------------------------------------------------------------------------
def gen_future_case(r):
    hs = []
    for i in range(r.randint(0, 4)):
        ret = r.choice(["none", "dict", "dict", "int", "false", "str", "list", "remove-next", "remove-self"])
        hs.append({"prio": r.randint(-2, 2), "ret": ret, "upd": [[r.randint(1, 3), r.randint(0, 5)] for _ in range(r.randint(1, 2))],
                   "kw": [[r.randint(1, 3), r.randint(6, 9)]] if r.random() < 0.3 else []})
    return {"kind": "future", "api": r.choice(["relay", "relay", "plain"]), "handlers": hs,
            "kw": [[k, r.randint(0, 5)] for k in r.sample([1, 2, 3], r.randint(0, 2))], "twice": r.random() < 0.3}


def run_future(case):
    """-> (results of the futures, crash, calls [(handler index, kwargs it saw)])"""
    from harness.common.vmachine import VMachine, BootError
    try:
        vm = VMachine(CONFIG).start()
    except BootError as e:
        return [], "boot: " + str(e)[:200], []
    calls, keys, crash, futs = [], {}, None, []
    try:
        vm.align()
        ev = vm.machine.events

        def mk(i, h):
            def handler(**kwargs):
                calls.append((i, {k: v for k, v in kwargs.items()}))
                if h["ret"] == "remove-next" and i + 1 in keys:
                    ev.remove_handler_by_key(keys[i + 1])
                if h["ret"] == "remove-self":
                    ev.remove_handler_by_key(keys[i])
                return {"none": None, "dict": {kname(k): v for k, v in h["upd"]}, "int": 7, "false": False, "str": "x",
                        "list": [1]}.get(h["ret"])
            return handler
        for i, h in enumerate(case["handlers"]):
            keys[i] = ev.add_handler("fe", mk(i, h), h["prio"], **{kname(k): v for k, v in h["kw"]})
        f = ev.post_relay_async if case["api"] == "relay" else ev.post_async
        for _ in range(2 if case["twice"] else 1):
            futs.append(f("fe", **{kname(k): v for k, v in case["kw"]}))
        vm.advance(GRID)
        vm.advance(GRID)
    except Exception as e:
        crash = "%s: %s" % (type(e).__name__, str(e)[:200])
    finally:
        res = [(dict(x.result()) if x.done() and not x.cancelled() else None) for x in futs]
        vm.stop()
    return res, crash, calls


def future_oracle(case, res, crash, calls):
    if crash is not None:
        return "future:crash:" + crash.split(":")[0], {"error": crash}
    order = sorted(range(len(case["handlers"])), key=lambda i: -case["handlers"][i]["prio"])      # stable: registration order
    ci = 0
    for n in range(2 if case["twice"] else 1):
        removed_self = set() if n == 0 else removed_after_first
        live = [i for i in order if i not in removed_self]
        kw = {kname(k): v for k, v in case["kw"]}
        last = None
        for i in live:      # the snapshot: a peer removed meanwhile is still called
            h = case["handlers"][i]
            seen = dict(kw)
            seen.update({kname(k): v for k, v in h["kw"]})
            if ci >= len(calls) or calls[ci] != (i, seen):
                return "future:relay-args", {"post": n, "handler": i, "expected_kwargs": seen, "got": calls[ci] if ci < len(calls) else None}
            ci += 1
            if case["api"] == "relay" and h["ret"] == "dict":
                kw.update({kname(k): v for k, v in h["upd"]})
            last = {"none": None, "dict": {kname(k): v for k, v in h["upd"]}, "int": 7, "false": False, "str": "x",
                    "list": [1]}.get(h["ret"])
        if n == 0:
            removed_after_first = set()
            for i in live:
                r = case["handlers"][i]["ret"]
                if r == "remove-self":
                    removed_after_first.add(i)
                if r == "remove-next" and i + 1 < len(case["handlers"]):
                    removed_after_first.add(i + 1)
        exp = dict(kw)
        if last:
            exp["ev_result"] = last
        if res[n] is None:
            return "future:unresolved", {"post": n, "expected": exp}
        if res[n] != exp:
            return "future:result", {"post": n, "expected": exp, "got": res[n]}
    if ci != len(calls):
        return "future:relay-args", {"extra_calls": calls[ci:]}
    return None


def future_case(ctx, case):
    res, crash, calls = run_future(case)
    ctx.evaluated(case, len(case["handlers"]) > 1)
    ctx.count("future_cases_" + case["api"])
    for h in case["handlers"]:
        ctx.count("future_handler_returns_" + h["ret"])
    r = future_oracle(case, res, crash, calls)
    if r is not None:
        ctx.fail(r[0], case, r[1])


def corpus():
    cases = []
    # D24: q's only handler is removed in the same drain, before q's task starts
    cases.append({"kind": "queue", "progs": {"1": {"kind": "s", "acts": [], "ticks": None}, "9": {"kind": "s", "acts": [], "ticks": None}},
                  "boot": [["A", 1, 1, 0, 1]],
                  "stimuli": [{"posts": [["Q", 1, 9, 0]], "sync": [["R", 1, 1]], "gap": 1}]})
    # D4 shape on plain handlers: wait, pass the cell on to an inner queue event that has a handler; inner callback clears
    cases.append({"kind": "queue", "progs": {"1": {"kind": "s", "acts": [["W", None], ["Q", 2, 8, 1]], "ticks": None},
                                             "2": {"kind": "s", "acts": [], "ticks": None},
                                             "3": {"kind": "s", "acts": [["W", 3]], "ticks": None},
                                             "8": {"kind": "s", "acts": [["CP"]], "ticks": None},
                                             "9": {"kind": "s", "acts": [], "ticks": None}},
                  "boot": [["A", 1, 1, 1, 1], ["A", 1, 2, 0, 2], ["A", 2, 3, 0, 3], ["A", 2, 4, -1, 2]],
                  "stimuli": [{"posts": [["Q", 1, 9, 0]], "sync": [], "gap": 1}]})
    # two waiting handlers and a coroutine, cleared in the reverse order of their registration
    cases.append({"kind": "queue", "progs": {"1": {"kind": "s", "acts": [["W", 9]], "ticks": None},
                                             "2": {"kind": "s", "acts": [["W", 2]], "ticks": None},
                                             "3": {"kind": "a", "acts": [], "ticks": 1},
                                             "4": {"kind": "a", "acts": [], "ticks": 0},
                                             "9": {"kind": "s", "acts": [["Q", 2, 8, 0]], "ticks": None},
                                             "8": {"kind": "s", "acts": [], "ticks": None}},
                  "boot": [["A", 1, 1, 2, 1], ["A", 1, 2, 2, 2], ["A", 1, 3, 0, 3], ["A", 1, 4, 0, 4], ["A", 2, 5, 0, 2]],
                  "stimuli": [{"posts": [["Q", 1, 9, 0], ["Q", 1, 9, 0], ["Q", 3, 8, 0]], "sync": [], "gap": 0}]})
    # a handler replace_handler()s an already served peer / itself / removes a waiting peer while the queue event runs:
    # the handlers of the snapshot are still called once each, in order, then the callback
    cases.append({"kind": "queue", "progs": {"1": {"kind": "s", "acts": [], "ticks": None},
                                             "2": {"kind": "s", "acts": [["H", 1, 21, 4, 1], ["H", 1, 22, 3, 2]], "ticks": None},
                                             "3": {"kind": "s", "acts": [["W", 2], ["E", 1, 4]], "ticks": None},
                                             "4": {"kind": "s", "acts": [["M", 3]], "ticks": None},
                                             "9": {"kind": "s", "acts": [], "ticks": None}},
                  "boot": [["A", 1, 1, 4, 1], ["A", 1, 2, 3, 2], ["A", 1, 3, 2, 3], ["A", 1, 4, 1, 4]],
                  "stimuli": [{"posts": [["Q", 1, 9, 0]], "sync": [], "gap": 8}, {"posts": [["Q", 1, 9, 0]], "sync": [], "gap": 1}]})
    S = lambda acts=(): {"kind": "s", "acts": list(acts), "ticks": None, "end": "ret"}
    CO = lambda end, ticks: {"kind": "a", "acts": [], "ticks": ticks, "end": end}
    # a coroutine handler between two sync handlers ends cancelled (awaited future cancelled / raises CancelledError /
    # its task cancelled by a timer / by a plain event's handler): the wait is over, the rest runs, one callback
    for end in ("gcancel", "raise", "tcancel", "gset"):
        cases.append({"kind": "queue", "progs": {"1": S(), "2": CO(end, 2), "3": S(), "9": S()},
                      "boot": [["A", 1, 1, 3, 1, [], None], ["A", 1, 2, 2, 2, [], None], ["A", 1, 3, 1, 3, [], None]],
                      "stimuli": [{"posts": [["Q", 1, 9, 0, []]], "sync": [], "gap": 1}]})
    cases.append({"kind": "queue", "progs": {"1": S(), "2": CO("gset", 9), "3": S([["X", 2]]), "9": S()},
                  "boot": [["A", 1, 1, 3, 1, [], None], ["A", 1, 2, 2, 2, [], None], ["A", 2, 3, 1, 3, [], None]],
                  "stimuli": [{"posts": [["Q", 1, 9, 0, []], ["Q", 1, 0, 0, []]], "sync": [], "gap": 1},
                              {"posts": [["Q", 2, 9, 0, []]], "sync": [["X", 2]], "gap": 1}]})
    # post_queue_async with kwargs, conditional handlers, handler kwargs overriding posted ones; handlers removed meanwhile
    cases.append({"kind": "queue", "progs": {"1": S(), "2": S([["W", 3]]), "3": S()},
                  "boot": [["A", 1, 1, 2, 1, [[1, 2]], [1, 2]], ["A", 1, 2, 1, 2, [[2, 0]], None], ["A", 1, 3, 0, 3, [], [1, 0]],
                           ["A", 2, 4, 0, 1, [], None]],
                  "stimuli": [{"posts": [["Q", 1, 0, 0, [[1, 1], [2, 2]]], ["Q", 1, 0, 0, [[1, 0]]], ["Q", 2, 0, 0, [[3, 1]]]],
                               "sync": [["R", 2, 4]], "gap": 1}]})
    # wait_for_any_event over two queue events: first post resolves it and removes both handlers; a cancelled wait future
    # loses its handlers in a later loop iteration (999c3a7)
    cases.append({"kind": "queue", "progs": {"1": S(), "9": S(), "20": {"kind": "w", "acts": [["R", 1, 5], ["R", 2, 6], ["WR", 1]], "ticks": None, "end": "ret"},
                                             "21": {"kind": "w", "acts": [["R", 2, 7], ["WR", 2]], "ticks": None, "end": "ret"}},
                  "boot": [["A", 1, 1, 0, 1, [], None], ["WA", 1, [[1, 5], [2, 6]], 20], ["WA", 2, [[2, 7]], 21]],
                  "stimuli": [{"posts": [["Q", 2, 9, 0, [[1, 1]]], ["WC", 2]], "sync": [], "gap": 1},
                              {"posts": [["WC", 1], ["Q", 1, 9, 0, []], ["Q", 2, 0, 0, []]], "sync": [], "gap": 1}]})
    # a wait_for_any_event handler still in the snapshot of a sleeping queue event after another event of the list resolved
    # the future (was: InvalidStateError killed the dispatcher, the callback never fired; fixed by 4202979)
    cases.append({"kind": "queue", "progs": {"1": S([["W", 3]]), "9": S(),
                                             "20": {"kind": "w", "acts": [["R", 2, 8], ["R", 1, 9], ["WR", 1]], "ticks": None, "end": "ret"}},
                  "boot": [["A", 1, 1, 2, 1, [], None], ["WA", 1, [[2, 8], [1, 9]], 20]],
                  "stimuli": [{"posts": [["Q", 1, 9, 0, []], ["Q", 2, 9, 0, []]], "sync": [], "gap": 1}]})
    # EventManager.stop() with a queue event in flight and one not started yet
    cases.append({"kind": "queue", "progs": {"1": S([["W", 4]]), "2": S(), "9": S()},
                  "boot": [["A", 1, 1, 1, 1, [], None], ["A", 1, 2, 0, 2, [], None]],
                  "stimuli": [{"posts": [["Q", 1, 9, 0, []]], "sync": [], "gap": 1},
                              {"posts": [["Q", 1, 9, 0, []]], "sync": [["STOP"]], "gap": 1},
                              {"posts": [["Q", 1, 9, 0, []]], "sync": [], "gap": 8}]})
    return cases


def mode_corpus():
    return [{"kind": "mode", "use_wait_queue": u, "starting_handler": h}
            for u in (True, False) for h in ("none", "sync", "wait", "async")]


def run(ctx):
    model = None if getattr(ctx, "model_unavailable", False) else leanproc.LeanProc(ID)
    try:
        for case in corpus():
            one_queue_case(ctx, model, case)
        for case in mode_corpus():
            mode_case(ctx, case)
        for case in player_corpus():
            player_case(ctx, case)
        for i in range(ctx.n(450, 6000)):
            one_queue_case(ctx, model, Gen(ctx.rng("queue", i)).case())
            if len(ctx.failures) >= 3:
                break
        for i in range(ctx.n(120, 1500)):
            player_case(ctx, gen_player_case(ctx.rng("player", i)))
            if len(ctx.failures) >= 3:
                break
        for i in range(ctx.n(100, 1000)):
            future_case(ctx, gen_future_case(ctx.rng("future", i)))
            if len(ctx.failures) >= 3:
                break
        for i in range(ctx.n(250, 3000)):
            relay_bool_case(ctx, model, ctx.rng("bus", i))
            if len(ctx.failures) >= 3:
                break
    finally:
        if model is not None:
            model.close()


def replay(ctx, rep):
    case = rep["case"]
    if case.get("kind") == "mode":
        mode_case(ctx, case)
    elif case.get("kind") == "player":
        res = player_oracle(case, *run_player(case))
        if res is not None:
            ctx.fail(res[0], case, res[1])
    elif case.get("kind") == "future":
        res = future_oracle(case, *run_future(case))
        if res is not None:
            ctx.fail(res[0], case, res[1])
    elif case.get("kind") == "bus":
        res, _ = c01.check_case(case)
        if res is not None:
            ctx.fail("bus:" + res[0], case, res[1])
    else:
        res, _ = check_case(case)
        if res is not None:
            ctx.fail(res[0], case, res[1])
