"""C02 - queue, relay and boolean events complete exactly once and in order.

Implementation side: generated handler sets on the real EventManager of a real machine: sync handlers, waiting handlers
(queue.wait() and a later queue.clear() from a DelayManager timer at adversarial, pairwise distinct deadlines), coroutine
handlers (add_async_handler, sleeping or returning at once), handlers that post further queue events (optionally
handing their own wait cell on, the Mode.start/use_wait_queue pattern, cleared by the inner event's callback), handlers
removed between dispatch and task start; real modes with use_wait_queue started by a queue event (corpus).
Scheduler choices are never guessed: the harness logs which task step / drain / clear actually happened in which order
(instrumenting handlers, QueuedEvent.clear, _async_handler_coroutine and process_event_queue from this process) and feeds
that schedule to the Lean driver, which answers not-enabled when the model says that step could not run then.
Relay and boolean events: C01's generator restricted to those types, real post_relay/post_boolean vs. the event-bus model.
Oracle (model independent): every posted queue event's callback exactly once at quiescence, handlers of one event in
registry order, no handler of an event starts between an earlier handler's wait and its clear, no task left.
"""
import asyncio

from harness.common import leanproc
from harness.common.shrink import ddmin
from harness.common.util import InfraError
from harness.corr import C01 as c01

ID = "C02"
LEAN_MODULES = ["MpfVerif.Props.C02"]
PROPS_FILE = "MpfVerif/Props/C02.lean"
GEN = []
MANIFEST = {
  "text": "Proof on a Lean model of queue-event dispatch (QueuedEvent cells addressed by id, dispatch tasks with snapshot / fresh cell per handler / 'if queue.waiter: queue.event = Event(); await' / completion callback, the fast path without handlers, the early return when all handlers were removed, add_async_handler's wait..clear, clear setting the cell's current event) with every scheduler choice an input: for ALL handler programs and ALL schedules a task step calls handlers of its snapshot in order and stops at the first one that leaves its wait registered, a sleeping task cannot be resumed until exactly that wait is cleared and is resumable as soon as it is, a finished task never runs again and logs its callback exactly once when it finishes; relay events fold the handlers' returned dicts left to right with every handler seeing the fold so far, boolean events stop at the first False and report ev_result=False (event-bus model of _run_handlers). Both models are tied to mpf/core/events.py on every check: generated handler sets run on the real EventManager, the observed schedule is replayed on the Lean driver (not-enabled = disagreement) and the observations compared; an independent oracle checks callback-exactly-once, order and no-overlap on the implementation trace, including real use_wait_queue modes started by a queue event.",
  "note": "Trusted: Lean kernel + {propext, Classical.choice, Quot.sound}; the hand-written models Model/QueueEvent.lean and Model/EventBus.lean (validated only by the differential runs); asyncio task/timer scheduling is an input, not modelled; exactly-once on fair schedules is stated as: every cleared wait re-enables its task and every step shortens the remaining handler list (no global liveness theorem). Not modelled: kwargs/conditions of queue-event handlers, exceptions in handlers, EventManager.stop() cancelling tasks, re-locking a cell after clear.",
  "technique": "Lean 4 theorems over explicit schedules (unfolding lemmas + induction over handler lists) on hand models + schedule-replaying differential correspondence with the real EventManager + independent trace oracle",
  "translated": False,
 }
RULE = ("queue cases: 1-4 events with 0-4 handlers each (sync / wait+clear later / wait+clear at once / coroutine / posts an "
        "inner queue event, optionally passing its cell on and waiting for the inner callback to clear it / removes a "
        "handler; 30% of the sync handlers call replace_handler / remove_handler / remove_handler_by_event on their own "
        "event during its dispatch, aimed at themselves, a peer or an absent callback), priorities -2..2 with ties, 1-3 stimuli of 1-3 queue posts each, optionally followed in the same drain "
        "by removals (handlers gone before the task starts); clear deadlines pairwise distinct on the 1/8 s grid. "
        "non-trivial = a wait was outstanding across a scheduler step, a queue event was posted from a handler or "
        "callback, or handlers were removed before a task started. relay/boolean cases: C01's generator with only "
        "boolean and relay posts; non-trivial as in C01. distinct = canonical JSON of the case")
TRUSTED = [
    "modelled, not verified: asyncio (which ready task / timer runs next is logged from the implementation and given to "
    "the model as input; the model only decides enabledness); DelayManager firing the clear timers",
    "Model/QueueEvent.lean and Model/EventBus.lean are hand-written; tied to mpf/core/events.py by correspondence on every run",
]
ASSUMPTIONS = ["queue-event handlers do not raise, clear each wait exactly once and do not re-lock a cell after clearing it",
               "post_queue is always given a callback (post_queue without callback and without handlers would call None)"]

CONFIG = "switches:\n  s_c02:\n    number: 1\n"
GRID = 0.125


# ---------------------------------------------------------------------------------------------------------------------
# generator.  handler program acts: ["W", ticks|None] wait (+ clear after ticks), ["C"] clear own now,
# ["Q", ev, cbpid, pass] post queue event, ["R", ev, key], callback acts: ["CP"] clear the passed cell, ["Q", ...]
# ---------------------------------------------------------------------------------------------------------------------
class Gen:
    def __init__(self, r):
        self.r = r
        self.nev = r.randint(1, 4)
        self.progs = {}
        self.next_pid = 1
        self.next_key = 1
        self.key_ev = {}

    def prog(self, kind, acts, ticks=None):
        pid = self.next_pid
        self.next_pid += 1
        self.progs[str(pid)] = {"kind": kind, "acts": acts, "ticks": ticks}
        return pid

    def cb_prog(self, level, passed):
        r = self.r
        acts = [["CP"]] if passed else []
        if level < self.nev and r.random() < 0.2:
            acts.append(["Q", r.randint(level + 1, self.nev), self.cb_prog(self.nev, False), 0])
        return self.prog("s", acts)

    def handler_prog(self, ev):
        r = self.r
        x = r.random()
        if x < 0.25:
            return self.prog("s", [])
        if x < 0.5:
            return self.prog("s", [["W", r.randint(1, 12)]])
        if x < 0.58:
            return self.prog("s", [["W", None], ["C"]])
        if x < 0.75:
            return self.prog("a", [], ticks=r.choice([0, 0, r.randint(1, 12)]))
        if x < 0.92 and ev < self.nev:
            inner = r.randint(ev + 1, self.nev)
            if r.random() < 0.5:   # Mode.start with use_wait_queue: wait, pass the cell on, inner callback clears it
                return self.prog("s", [["W", None], ["Q", inner, self.cb_prog(inner, True), 1]])
            acts = [["Q", inner, self.cb_prog(inner, False), r.choice([0, 0, 1])]]
            if r.random() < 0.4:
                acts.insert(r.choice([0, 1]), ["W", r.randint(1, 12)])
            return self.prog("s", acts)
        if self.key_ev:
            key = r.choice(list(self.key_ev))
            return self.prog("s", [["R", self.key_ev[key], key]])
        return self.prog("s", [])

    def handler(self, ev):
        key = self.next_key
        self.next_key += 1
        self.key_ev[key] = ev
        return ["A", ev, key, self.r.randint(-2, 2), self.handler_prog(ev)]

    def mutator(self, ev, self_pid, peers):
        """replace_handler / remove_handler / remove_handler_by_event called from a handler while its own queue event is
        being dispatched; target = itself, a peer of the same event (served already or still waiting) or absent.
        (coroutine handlers are registered as functools.partial objects and cannot be found by callback: never a target)"""
        r = self.r
        sync_peers = [p for p in peers if self.progs[str(p)]["kind"] == "s"]
        x = r.random()
        tgt = self_pid if x < 0.4 else (r.choice(sync_peers) if sync_peers and x < 0.85 else self.prog("s", []))
        y = r.random()
        if y < 0.55:
            key = self.next_key
            self.next_key += 1
            self.key_ev[key] = ev
            return ["H", ev, key, r.randint(-2, 2), tgt]
        return ["E", ev, tgt] if y < 0.8 else ["M", tgt]

    def case(self):
        r = self.r
        boot = []
        for ev in range(1, self.nev + 1):
            for _ in range(r.choice([0, 1, 1, 2, 2, 3, 4])):
                boot.append(self.handler(ev))
        r.shuffle(boot)
        for a in list(boot):
            p = self.progs[str(a[4])]
            if p["kind"] == "s" and r.random() < 0.3:
                peers = [b[4] for b in boot if b[1] == a[1]]
                p["acts"].insert(r.randint(0, len(p["acts"])), self.mutator(a[1], a[4], peers))
        stimuli = []
        for _ in range(r.randint(1, 3)):
            posts = [["Q", r.randint(1, self.nev), self.cb_prog(r.choice([1, self.nev]), False), 0]
                     for _ in range(r.choice([1, 1, 2, 3]))]
            sync = []
            if r.random() < 0.3 and self.key_ev:
                for _ in range(r.choice([1, 1, 2, 4])):
                    key = r.choice(list(self.key_ev))
                    sync.append(["R", self.key_ev[key], key])
            stimuli.append({"posts": posts, "sync": sync, "gap": r.choice([0, 1, 3, 20])})
        return {"kind": "queue", "progs": self.progs, "boot": boot, "stimuli": stimuli}


# ---------------------------------------------------------------------------------------------------------------------
# the real thing
# ---------------------------------------------------------------------------------------------------------------------
class QHandler:
    """sync handler of a queue event; equal by callback identity (program id) like bound methods are"""

    def __init__(self, real, key, pid):
        self.real, self.key, self.pid = real, key, pid

    def __call__(self, queue, sn, evn, **kwargs):
        return self.real.call_handler(self.key, self.pid, queue, sn, evn)

    def __eq__(self, other):
        return isinstance(other, QHandler) and other.pid == self.pid

    def __ne__(self, other):
        return not self.__eq__(other)

    def __hash__(self):
        return hash(("QHandler", self.pid))


class Real:
    def __init__(self, vm, case):
        self.vm = vm
        self.ev = vm.machine.events
        self.case = case
        self.progs = case["progs"]
        self.L = []
        self.sn = 0
        self.cells = []          # keeps the objects alive; index = cell number
        self.keys = {}
        self.depth = 0
        self.deadlines = set()
        self.nested = False

    def cellno(self, q):
        for i, c in enumerate(self.cells):
            if c is q:
                return i
        self.cells.append(q)
        return len(self.cells) - 1

    def deadline(self, ticks):
        """a grid instant `ticks` ahead that no other harness timer uses (no same-instant ties between timers)"""
        t = round(self.vm.now() / GRID) + max(1, ticks)
        while t in self.deadlines:
            t += 1
        self.deadlines.add(t)
        return t * GRID - self.vm.now()

    def run_acts(self, acts, own=None, passed=None):
        for a in acts:
            if a[0] == "W":
                own.wait()
                if a[1] is not None:
                    self.vm.machine.delay.add(ms=self.deadline(a[1]) * 1000, callback=own.clear)
            elif a[0] == "C":
                own.clear()
            elif a[0] == "CP":
                passed.clear()
            elif a[0] == "Q":
                _, ev, cb, pw = a
                sn = self.sn
                self.sn += 1
                kw = {"sn": sn, "evn": ev}
                if pw and own is not None:
                    kw["queue"] = own
                self.L.append(("post", sn, ev, self.depth > 0))
                self.ev.post_queue("qe%d" % ev, self.make_cb(cb, sn, own if pw else None), **kw)
            elif a[0] == "A":
                _, ev, key, prio, pid = a
                p = self.progs[str(pid)]
                if p["kind"] == "a":
                    k = self.ev.add_async_handler("qe%d" % ev, self.make_coro(key, pid), prio)
                else:
                    k = self.ev.add_handler("qe%d" % ev, self.make_handler(key, pid), prio)
                self.keys.setdefault(key, []).append(k)
                self.L.append(("reg", "A", ev, key, prio))
            elif a[0] == "R":
                for k in self.keys.get(a[2], []):
                    self.ev.remove_handler_by_key(k)
                self.L.append(("reg", "R", a[1], a[2]))
            elif a[0] == "H":
                _, ev, key, prio, pid = a
                k = self.ev.replace_handler("qe%d" % ev, self.make_handler(key, pid), prio)
                self.keys.setdefault(key, []).append(k)
                self.L.append(("reg", "H", ev, key, prio, pid))
            elif a[0] == "M":
                self.ev.remove_handler(QHandler(self, None, a[1]))
                self.L.append(("reg", "M", a[1]))
            elif a[0] == "E":
                self.ev.remove_handler_by_event("qe%d" % a[1], QHandler(self, None, a[2]))
                self.L.append(("reg", "E", a[1], a[2]))
            else:
                raise InfraError("bad act %r" % (a,))

    def make_handler(self, key, pid):
        return QHandler(self, key, pid)

    def call_handler(self, key, pid, queue, sn, evn):
        self.depth += 1
        self.nested = self.nested or self.depth > 1
        try:
            c = self.cellno(queue)
            self.L.append(("call", key, evn, sn, c))
            self.run_acts(self.progs[str(pid)]["acts"], own=queue)
        finally:
            self.depth -= 1

    def make_coro(self, key, pid):
        async def coro(sn, evn, **kwargs):
            self.L.append(("coro", key, evn, sn))
            ticks = self.progs[str(pid)]["ticks"]
            if ticks:
                await asyncio.sleep(self.deadline(ticks))
        return coro

    def make_cb(self, pid, sn, passed):
        def callback(**kwargs):
            self.depth += 1
            self.nested = self.nested or self.depth > 1
            try:
                self.L.append(("cb", pid, sn))
                self.run_acts(self.progs[str(pid)]["acts"], passed=passed)
            finally:
                self.depth -= 1
        return callback

    def run(self):
        from mpf.core import events as evmod
        EM, QE = evmod.EventManager, evmod.QueuedEvent
        o_clear, o_async, o_peq = QE.clear, EM._async_handler_coroutine, EM.process_event_queue
        real = self

        def clear(cell):
            real.L.append(("clear" if real.depth == 0 else "iclear", real.cellno(cell)))
            return o_clear(cell)

        def async_spy(em, _coroutine, queue, **kwargs):
            real.L.append(("acall", kwargs.get("evn"), kwargs.get("sn"), real.cellno(queue)))
            return o_async(em, _coroutine, queue, **kwargs)

        def peq(em):
            busy = bool(em.event_queue or em.callback_queue)
            if busy:
                real.L.append(("drain-begin",))
            try:
                return o_peq(em)
            finally:
                if busy:
                    real.L.append(("drain-end",))

        def sync_handler(acts, **kwargs):
            self.L.append(("sync", acts))
            self.run_acts(acts)
        QE.clear, EM._async_handler_coroutine, EM.process_event_queue = clear, async_spy, peq
        crash = None
        try:
            self.ev.add_handler("c02_sync", sync_handler)
            self.L.append(("top", self.case["boot"]))
            self.run_acts(self.case["boot"])
            self.vm.run()
            for st in self.case["stimuli"]:
                self.L.append(("top", st["posts"]))
                self.run_acts(st["posts"])
                if st["sync"]:
                    self.ev.post("c02_sync", acts=st["sync"])
                self.vm.advance(GRID * st["gap"])
            for _ in range(60):      # until every harness timer has fired (handlers reached later add new ones)
                self.vm.advance(GRID * 16)
                if not self.deadlines or max(self.deadlines) * GRID + 1 < self.vm.now():
                    break
        except InfraError:
            raise
        except Exception as e:
            crash = "%s: %s" % (type(e).__name__, str(e)[:200])
        finally:
            QE.clear, EM._async_handler_coroutine, EM.process_event_queue = o_clear, o_async, o_peq
        left = {"tasks": len(self.ev._queue_tasks), "queue": len(self.ev.event_queue) + len(self.ev.callback_queue),
                "waits": sum(1 for c in self.cells if c.waiter)}
        return crash, left


def run_real(case):
    from harness.common.vmachine import VMachine, BootError
    try:
        vm = VMachine(CONFIG).start()
    except BootError as e:
        return [], "boot: " + str(e)[:200], {}, False
    try:
        vm.align()
        real = Real(vm, case)
        crash, left = real.run()
        return real.L, crash, left, real.nested
    finally:
        vm.stop()


# ---------------------------------------------------------------------------------------------------------------------
# oracle on the implementation trace
# ---------------------------------------------------------------------------------------------------------------------
def oracle(case, L, crash, left, nested):
    if crash is not None:
        return "crash", {"error": crash}
    progs = case["progs"]
    reg = {}
    posts, calls, cbs, started = {}, {}, {}, {}
    passed_post = set()
    key_pid = {}
    for a in case["boot"]:
        key_pid[a[2]] = a[4]
    waiting = {}      # sn -> cell whose wait is outstanding (registered by the last handler of that event)
    cleared = set()
    for i, e in enumerate(L):
        if e[0] == "reg":
            if e[1] in ("A", "H"):
                if e[1] == "H":
                    key_pid[e[3]] = e[5]
                    reg[e[2]] = [h for h in reg.get(e[2], []) if h[2] != e[5]]
                lst = reg.setdefault(e[2], [])
                j = len(lst)
                while j > 0 and lst[j - 1][1] < e[4]:
                    j -= 1
                lst.insert(j, (e[3], e[4], key_pid.get(e[3])))
            elif e[1] == "M":
                for x in list(reg):
                    reg[x] = [h for h in reg[x] if h[2] != e[2]]
            elif e[1] == "E":
                reg[e[2]] = [h for h in reg.get(e[2], []) if h[2] != e[3]]
            else:
                reg[e[2]] = [h for h in reg.get(e[2], []) if h[0] != e[3]]
        elif e[0] == "post":
            posts[e[1]] = e[2]
        elif e[0] in ("call", "acall", "cb"):
            sn = e[3] if e[0] == "call" else e[2]
            if sn not in started:
                started[sn] = [h[0] for h in reg.get(posts.get(sn), [])]   # snapshot when the task starts
            if sn in waiting and waiting[sn] not in cleared:
                return "overlap", {"what": "handler or callback of an event ran while an earlier handler's wait was outstanding",
                                   "sn": sn, "entry": list(e), "cell": waiting[sn]}
            if e[0] == "cb":
                cbs[sn] = cbs.get(sn, 0) + 1
            else:
                calls.setdefault(sn, []).append(e[1] if e[0] == "call" else None)
                cell = e[4] if e[0] == "call" else e[3]
                key = e[1] if e[0] == "call" else None
                pid = key_pid.get(key)
                w = e[0] == "acall" or (pid is not None and any(a[0] == "W" for a in progs[str(pid)]["acts"])
                                        and not any(a[0] == "C" for a in progs[str(pid)]["acts"]))
                if w:
                    waiting[sn] = cell
        elif e[0] in ("clear", "iclear"):
            cleared.add(e[1])
    for sn, ev in posts.items():
        n = cbs.get(sn, 0)
        if n == 0:
            sub = "handlers-removed" if not calls.get(sn) else "after-handlers"
            return "callback-missing:" + sub, {"sn": sn, "event": ev, "calls": calls.get(sn), "left": left}
        if n > 1:
            return "callback-twice", {"sn": sn, "event": ev, "count": n}
        got = calls.get(sn, [])
        exp = started.get(sn, [])
        # coroutine handlers log no key at dispatch time: compare positions of the sync ones, and the length
        if len(got) != len(exp) or any(g is not None and g != x for g, x in zip(got, exp)):
            return "handler-order", {"sn": sn, "event": ev, "called": got, "registry": exp}
    if left.get("tasks") or left.get("queue") or left.get("waits"):
        return "not-quiescent", {"left": left}
    if nested:
        return "nested-dispatch", {}
    coro = [e for e in L if e[0] == "coro"]
    acalls = [e for e in L if e[0] == "acall"]
    if len(coro) != len(acalls):
        return "coroutine-count", {"started": len(coro), "dispatched": len(acalls)}
    return None


def is_nontrivial(L):
    waits = any(e[0] == "clear" for e in L)
    inner = any(e[0] == "post" and e[3] for e in L)
    sync = any(e[0] == "sync" for e in L)
    mut = any(e[0] == "reg" and e[1] in ("H", "M", "E") for e in L)
    return waits or inner or sync or mut


# ---------------------------------------------------------------------------------------------------------------------
# model: replay the observed schedule
# ---------------------------------------------------------------------------------------------------------------------
def enc_act(a):
    if a[0] == "W":
        return "W"
    if a[0] in ("C", "CP"):
        return a[0]
    if a[0] == "Q":
        return "Q %d %d %d" % (a[1], a[2], 1 if a[3] else 0)
    if a[0] == "A":
        return "A %d %d %d %d" % (a[1], a[2], a[3], a[4])
    if a[0] == "R":
        return "R %d %d" % (a[1], a[2])
    if a[0] == "H":
        return "H %d %d %d %d" % (a[1], a[2], a[3], a[4])
    if a[0] == "M":
        return "M %d" % a[1]
    if a[0] == "E":
        return "E %d %d" % (a[1], a[2])
    raise InfraError("bad act %r" % (a,))


def enc_acts(acts):
    return " | ".join(enc_act(a) for a in acts)


def show(e):
    if e[0] == "call":
        return "c%d.%d.%d.%d" % (e[1], e[2], e[3], e[4])
    if e[0] == "acall":
        return "a%d.%d.%d" % (e[1], e[2], e[3])
    return "b%d.%d" % (e[1], e[2])


def schedule(L):
    """observed log -> [(model op, expected answer)]"""
    ops = []
    i, n = 0, len(L)
    in_drain = False
    drain_cbs = []
    while i < n:
        e = L[i]
        if e[0] == "top":
            ops.append((("top " + enc_acts(e[1])).rstrip(), "ok"))
        elif e[0] == "drain-begin":
            in_drain, drain_cbs = True, []
            ops.append(("dispatch", "ok"))
        elif e[0] == "drain-end":
            in_drain = False
            ops.append(("callbacks", " ".join(drain_cbs) or "ok"))
        elif e[0] == "sync":
            ops.append((("top " + enc_acts(e[1])).rstrip(), "ok"))
        elif e[0] == "clear":
            ops.append(("clear %d" % e[1], "ok"))
        elif e[0] in ("call", "acall", "cb"):
            if in_drain:
                if e[0] != "cb":
                    raise InfraError("handler call inside a drain: %r" % (e,))
                drain_cbs.append(show(e))
            else:
                sn = e[3] if e[0] == "call" else e[2]
                grp = []
                while i < n and L[i][0] in ("call", "acall", "cb", "post", "reg", "iclear") and \
                        (L[i][0] in ("post", "reg", "iclear") or (L[i][3] if L[i][0] == "call" else L[i][2]) == sn):
                    if L[i][0] in ("call", "acall", "cb"):
                        grp.append(show(L[i]))
                    i += 1
                ops.append(("resume %d" % sn, " ".join(grp)))
                continue
        i += 1
    return ops


def run_model(model, case, L):
    def ask(line):
        ans = model.ask(line)
        if ans == "bad-op":
            raise InfraError("model rejected %r" % line)
        return ans
    ask("reset")
    for pid, p in case["progs"].items():
        ask(("prog %s %s %s" % (pid, p["kind"], enc_acts(p["acts"]))).rstrip())
    ops = schedule(L)
    got = [ask(op) for op, _ in ops]
    got.append(ask("quiescent"))
    return [op for op, _ in ops] + ["quiescent"], [exp for _, exp in ops] + ["tasks=0 waits=0 left=0"], got


def check_case(case):
    L, crash, left, nested = run_real(case)
    return oracle(case, L, crash, left, nested), L


def units_of(case):
    u = [("b", j) for j in range(len(case["boot"]))]
    u += [("s", i, j) for i, st in enumerate(case["stimuli"]) for j in range(len(st["posts"]))]
    u += [("y", i, j) for i, st in enumerate(case["stimuli"]) for j in range(len(st["sync"]))]
    return u


def restrict(case, units):
    keep = set(units)
    return {"kind": "queue", "progs": case["progs"],
            "boot": [a for j, a in enumerate(case["boot"]) if ("b", j) in keep],
            "stimuli": [{"posts": [a for j, a in enumerate(st["posts"]) if ("s", i, j) in keep],
                         "sync": [a for j, a in enumerate(st["sync"]) if ("y", i, j) in keep], "gap": st["gap"]}
                        for i, st in enumerate(case["stimuli"])]}


def shrink(case, sig):
    def fails(units):
        res, _ = check_case(restrict(case, units))
        return res is not None and res[0] == sig
    small = restrict(case, ddmin(units_of(case), fails, max_tests=120))
    small["stimuli"] = [st for st in small["stimuli"] if st["posts"]] or small["stimuli"][:1]
    used, todo = set(), [a for a in small["boot"]] + [a for st in small["stimuli"] for a in st["posts"]]
    while todo:
        a = todo.pop()
        pid = a[4] if a[0] in ("A", "H") else (a[2] if a[0] in ("Q", "E") else (a[1] if a[0] == "M" else None))
        if pid is not None and str(pid) not in used:
            used.add(str(pid))
            todo += small["progs"][str(pid)]["acts"]
    small["progs"] = {k: v for k, v in small["progs"].items() if k in used}
    return small


def one_queue_case(ctx, model, case, sample=True):
    L, crash, left, nested = run_real(case)
    ctx.evaluated(case, is_nontrivial(L), sample=sample)
    for e in L:
        if e[0] in ("call", "acall", "cb", "clear", "iclear", "sync", "drain-begin"):
            ctx.count("q_" + e[0])
        if e[0] == "post":
            ctx.count("q_post_from_handler" if e[3] else "q_post_top")
        if e[0] == "reg" and e[1] in ("H", "M", "E"):
            ctx.count("q_mutator_" + e[1])
    res = oracle(case, L, crash, left, nested)
    if res is not None:
        small = shrink(case, res[0])
        r2, _ = check_case(small)
        if r2 is None or r2[0] != res[0]:
            small, r2 = case, res
        ctx.fail(res[0], small, r2[1])
        return
    if model is not None:
        ops, exp, got = run_model(model, case, L)
        ctx.compare(dict(case, what="schedule replay", ops=ops), exp, got)


# ---------------------------------------------------------------------------------------------------------------------
# real modes with use_wait_queue started by a queue event (D4 shape), oracle only
# ---------------------------------------------------------------------------------------------------------------------
MODE_CONFIG = "modes:\n  - m1\n"
MODE_YAML = "mode:\n  start_events: start_m1\n  stop_events: stop_m1\n  game_mode: false\n  use_wait_queue: %s\n"


def mode_case(ctx, case):
    from harness.common.vmachine import VMachine, BootError
    ctx.evaluated(case, True)
    ctx.count("mode_cases")
    try:
        vm = VMachine(MODE_CONFIG, modes={"m1": MODE_YAML % ("true" if case["use_wait_queue"] else "false")}).start()
    except BootError as e:
        ctx.fail("crash", case, {"error": "boot: " + str(e)[:200]})
        return
    try:
        vm.align()
        ev = vm.machine.events
        log = []
        hk = case["starting_handler"]
        if hk == "sync":
            ev.add_handler("mode_m1_starting", lambda **kwargs: log.append("starting-handler"))
        elif hk == "wait":
            def h(queue, **kwargs):
                log.append("starting-handler")
                queue.wait()
                vm.machine.delay.add(ms=375, callback=queue.clear)
            ev.add_handler("mode_m1_starting", h)
        elif hk == "async":
            async def co(**kw):
                log.append("starting-handler")
                await asyncio.sleep(0.25)
            ev.add_async_handler("mode_m1_starting", co)
        ev.add_handler("start_m1", lambda **kwargs: log.append("later-handler"), priority=-5)
        crash = None
        mode = vm.machine.modes["m1"]
        mid = {}
        try:
            ev.post_queue("start_m1", lambda **kwargs: log.append("outer-callback"))
            vm.advance(2)
            # use_wait_queue: the mode holds the outer queue event until it stops
            mid = {"active": bool(mode.active), "starting": bool(mode._starting), "log": list(log)}
            ev.post("stop_m1")
            vm.advance(2)
        except Exception as e:
            crash = "%s: %s" % (type(e).__name__, str(e)[:200])
        detail = {"log": log, "after_start": mid, "active_after_stop": bool(mode.active), "tasks": len(ev._queue_tasks),
                  "crash": crash}
        ok = crash is None and mid.get("active") and not mid.get("starting") and \
            (hk == "none" or mid["log"].count("starting-handler") == 1) and \
            (("outer-callback" not in mid["log"]) if case["use_wait_queue"] else ("outer-callback" in mid["log"])) and \
            log.count("outer-callback") == 1 and log.count("later-handler") == 1 and not mode.active and \
            not ev._queue_tasks and log.index("later-handler") < log.index("outer-callback")
        if not ok:
            ctx.fail("callback-missing:mode-start-shared-cell" if log.count("outer-callback") == 0 else "mode-start-order",
                     case, detail)
    finally:
        vm.stop()


# ---------------------------------------------------------------------------------------------------------------------
# relay / boolean events (event-bus model behind the "bus " prefix of the C02 driver)
# ---------------------------------------------------------------------------------------------------------------------
class BusModel:
    def __init__(self, model):
        self.model = model

    def ask(self, line):
        return self.model.ask("bus " + line)


def relay_bool_case(ctx, model, r):
    g = c01.Gen(r)
    g.types = ["b", "b", "r", "r", "r", "n"]
    case = g.case()
    try:
        per_ref, ref = c01.reference(case)
    except c01.TooBig:
        ctx.count("skipped_too_big")
        return
    ctx.evaluated(dict(case, kind="bus"), bool(ref.flags & {"boolean-stop", "relay-update"}))
    for f in ref.flags:
        ctx.count("bus_" + f)
    per, crash, nested, left = c01.run_real(case)
    res = c01.oracle(case, per, crash, nested, left)
    if res is not None:
        small = c01.shrink(case, res[0])
        r2, _ = c01.check_case(small)
        ctx.fail("bus:" + res[0], dict(small, kind="bus"), (r2 or res)[1])
        return
    if model is not None:
        ctx.compare(dict(case, kind="bus"), [c01.show_trace(tr) for tr in per], c01.run_model(BusModel(model), case))


def corpus():
    cases = []
    # D24: q's only handler is removed in the same drain, before q's task starts
    cases.append({"kind": "queue", "progs": {"1": {"kind": "s", "acts": [], "ticks": None}, "9": {"kind": "s", "acts": [], "ticks": None}},
                  "boot": [["A", 1, 1, 0, 1]],
                  "stimuli": [{"posts": [["Q", 1, 9, 0]], "sync": [["R", 1, 1]], "gap": 1}]})
    # D4 shape on plain handlers: wait, pass the cell on to an inner queue event that has a handler; inner callback clears
    cases.append({"kind": "queue", "progs": {"1": {"kind": "s", "acts": [["W", None], ["Q", 2, 8, 1]], "ticks": None},
                                             "2": {"kind": "s", "acts": [], "ticks": None},
                                             "3": {"kind": "s", "acts": [["W", 3]], "ticks": None},
                                             "8": {"kind": "s", "acts": [["CP"]], "ticks": None},
                                             "9": {"kind": "s", "acts": [], "ticks": None}},
                  "boot": [["A", 1, 1, 1, 1], ["A", 1, 2, 0, 2], ["A", 2, 3, 0, 3], ["A", 2, 4, -1, 2]],
                  "stimuli": [{"posts": [["Q", 1, 9, 0]], "sync": [], "gap": 1}]})
    # two waiting handlers and a coroutine, cleared in the reverse order of their registration
    cases.append({"kind": "queue", "progs": {"1": {"kind": "s", "acts": [["W", 9]], "ticks": None},
                                             "2": {"kind": "s", "acts": [["W", 2]], "ticks": None},
                                             "3": {"kind": "a", "acts": [], "ticks": 1},
                                             "4": {"kind": "a", "acts": [], "ticks": 0},
                                             "9": {"kind": "s", "acts": [["Q", 2, 8, 0]], "ticks": None},
                                             "8": {"kind": "s", "acts": [], "ticks": None}},
                  "boot": [["A", 1, 1, 2, 1], ["A", 1, 2, 2, 2], ["A", 1, 3, 0, 3], ["A", 1, 4, 0, 4], ["A", 2, 5, 0, 2]],
                  "stimuli": [{"posts": [["Q", 1, 9, 0], ["Q", 1, 9, 0], ["Q", 3, 8, 0]], "sync": [], "gap": 0}]})
    # a handler replace_handler()s an already served peer / itself / removes a waiting peer while the queue event runs:
    # the handlers of the snapshot are still called once each, in order, then the callback
    cases.append({"kind": "queue", "progs": {"1": {"kind": "s", "acts": [], "ticks": None},
                                             "2": {"kind": "s", "acts": [["H", 1, 21, 4, 1], ["H", 1, 22, 3, 2]], "ticks": None},
                                             "3": {"kind": "s", "acts": [["W", 2], ["E", 1, 4]], "ticks": None},
                                             "4": {"kind": "s", "acts": [["M", 3]], "ticks": None},
                                             "9": {"kind": "s", "acts": [], "ticks": None}},
                  "boot": [["A", 1, 1, 4, 1], ["A", 1, 2, 3, 2], ["A", 1, 3, 2, 3], ["A", 1, 4, 1, 4]],
                  "stimuli": [{"posts": [["Q", 1, 9, 0]], "sync": [], "gap": 8}, {"posts": [["Q", 1, 9, 0]], "sync": [], "gap": 1}]})
    return cases


def mode_corpus():
    return [{"kind": "mode", "use_wait_queue": u, "starting_handler": h}
            for u in (True, False) for h in ("none", "sync", "wait", "async")]


def run(ctx):
    model = None if getattr(ctx, "model_unavailable", False) else leanproc.LeanProc(ID)
    try:
        for case in corpus():
            one_queue_case(ctx, model, case)
        for case in mode_corpus():
            mode_case(ctx, case)
        for i in range(ctx.n(450, 6000)):
            one_queue_case(ctx, model, Gen(ctx.rng("queue", i)).case())
            if len(ctx.failures) >= 3:
                break
        for i in range(ctx.n(250, 3000)):
            relay_bool_case(ctx, model, ctx.rng("bus", i))
            if len(ctx.failures) >= 3:
                break
    finally:
        if model is not None:
            model.close()


def replay(ctx, rep):
    case = rep["case"]
    if case.get("kind") == "mode":
        mode_case(ctx, case)
    elif case.get("kind") == "bus":
        res, _ = c01.check_case(case)
        if res is not None:
            ctx.fail("bus:" + res[0], case, res[1])
    else:
        res, _ = check_case(case)
        if res is not None:
            ctx.fail(res[0], case, res[1])
