"""C06 - Game lifecycle: turns, balls and lifecycle events are well-formed.

Two streams of cases, both on the real Game mode of a real machine:
* kind "game" (fake-game scaffolding: playfield.add_ball stubbed, num_balls_known set): 1-4 players, balls_per_game 1-4 as a
  TEMPLATE (machine variable) that may change during the game, requests injected from handlers of every lifecycle event (above or
  below the game's own handlers, optionally only while a given player is up), from inside queue events whose clear is delayed, and
  between events: end_ball, end_game, slam (flag + end_ball), balls_in_play = n (also out of range), ball_drain relay posts (also
  with more balls than are in play), extra balls, player-add requests (vetoed by a player_add_request handler or not), restart
  (mode stopped, game_start when it has stopped).
* kind "world" (harness/common/gameworld_c06.py): a REAL trough -> plunger -> playfield (balls as tokens, switches through
  process_switch, coil pulses intercepted), the real ball controller, a ball_saves device (1/2/unlimited saves, timer, hurry-up,
  grace period, early save, only_last_ball), a multiballs device (total/add, shoot again, add-a-ball), the REAL tilt mode (warning
  / tilt / slam-tilt switches), wait_for_empty_playfields_on_ball_start on or off, the start button for player adds.  balls_in_play
  is driven by the real ball_drain relay (trough -> ball controller -> ball save / multiball handlers -> Game.ball_drained), by
  the multiball's adds, by playfield.add_ball of a ball the game does not count and by balls MPF did not know about.
Every lifecycle post (with current player and ball) and every request that took effect - logged by wrappers of Game.end_ball /
end_game / balls_in_play / ball_drained / request_player_add / mode_stop and of Tilt.tilt / tilt_warning / slam_tilt /
reset_warnings / _tilt_done - is replayed on the Lean model (MpfVerif.Model.Game: the coroutine as a resumable state machine; one
`resume` per lifecycle post; not-enabled = disagreement); balls_in_play, num_players, ending, tilted, slam_tilted, the end-of-ball
event, the current player's tilt warnings and num_balls_known are compared after every step.
Oracle (model independent): a recursive-descent recogniser of the lifecycle grammar + the numeric clauses of the property on the
real trace of every game played (also the restarted one and the game after the requests).
"""
import sys

from harness.common import leanproc
from harness.common import gameworld_c06 as gw
from harness.common.shrink import ddmin
from harness.common.util import InfraError

ID = "C06"
LEAN_MODULES = ["MpfVerif.Props.C06"]
PROPS_FILE = "MpfVerif/Props/C06.lean"
GEN = []
MANIFEST = {
  "text": "Proof on a Lean model of the coroutine Game._run as a resumable state machine (one pc per awaited lifecycle event; players, current player, per-player ball and extra-ball counts, balls_in_play with its clamping setter, ending, slam tilt, tilted, the end-of-ball event, per-player tilt warnings) with environment requests arriving at any pc and every resumption an input: end_ball, end_game, balls_in_play = n, drain n (also more balls than are in play), extra ball, player add (accepted / refused / vetoed by a player_add_request handler), the real tilt mode's tilt / slam_tilt / tilt_warning / reset_warnings / tilt clear, a stop of the game mode from outside (restart), a growing num_balls_known, and balls_per_game / max_players templates evaluated when a game begins. For ALL op sequences: the emitted lifecycle trace starts with game_will_start and every adjacent pair of events is one the lifecycle grammar allows (game_will_start game_starting [game_started turn*] game_will_end game_ending game_ended, turn = player_turn_will_start/starting/started ball* player_turn_will_end/ending/ended, ball = ball_will_start/starting/started ball_will_end/ending/ended; a stop from outside is the pseudo event `aborted`, after which only game_will_start follows), the pc is always the last event emitted, 0 <= balls_in_play <= num_balls_known (as known at that moment), once end_game has been accepted no further ball_will_start is emitted and ending stays set, ball_will_end is only emitted when the end-of-ball event is set, which only end_ball / end_game / slam / an effective tilt / balls_in_play going from >0 to 0 set; a drain of at least balls_in_play balls (also MORE) takes it to exactly 0 and the ball ends; after game_ended (or a stop from outside) the game slot is empty and start is enabled again; the player rotates 1..n; no ball number exceeds the balls_per_game evaluated at game start (which no step of a running game changes); one ball per turn plus one per extra ball; a slam tilt is final (the flag survives every step and the running turn is the last); the tilt mode never touches trace, pc, balls_in_play or roster; the warnings_to_tilt-th warning tilts; a vetoed add leaves roster and trace as they were; end_game while waiting for the first player ends the game. The model is tied to mpf/modes/game/code/game.py, mpf/core/async_mode.py and mpf/modes/tilt/code/tilt.py on every check: the real Game mode runs generated request schedules on a fake-game scaffold AND inside a physical world with the real trough/plunger/playfield, ball controller, ball_saves, multiballs and tilt mode; every lifecycle post and effective request is replayed on the Lean driver (not-enabled = disagreement) and event, player, ball, balls_in_play, num_players, ending, tilted, slam_tilted, end-of-ball event, tilt warnings, num_balls_known are compared step by step; an independent recursive-descent recogniser checks the grammar and the numeric clauses (player rotation, ball numbers, one ball plus one per extra ball, a ball ends iff - and in the same instant as - balls_in_play hits zero or an end is requested, bounds, clean end, restartable) on the real trace of every game.",
  "note": "Trusted: Lean kernel + {propext, Classical.choice, Quot.sound}; the hand-written model Model/Game.lean (validated only by the differential runs); harness/common/gameworld_c06.py (world simulator, cut down from ballworld.py: every eject physically succeeds); the event bus and asyncio are not modelled (when a posted event completes is an input); ball devices, ball_saves and multiballs are NOT modelled: what they do reaches the model as the effective drain count / balls_in_play assignment the game receives (logged at Game.ball_drained and the balls_in_play setter); the tilt mode is modelled as far as it acts on the game (tilted, slam_tilted, end_ball, warnings), not its ball collection and settle timer (when tilt_clear happens is an input). Not claimed / observations: a slam tilt or tilt before a ball has started does not prevent that ball; a tilt that arrives while the ball is ending stays set through the whole next ball (witness theorem); Tilt._ball_ending_tilted called after _tilt_done already ran with _balls_to_collect < 0 never releases ball_ending (counted as observation, not failed); Multiball._ball_drain_shoot_again raises AttributeError when a ball drains after the game has ended (counted). Real ball devices report drains ball by ball: a relay with more balls than are in play is generated by posting the real ball_drain relay itself.",
  "technique": "Lean 4 theorems (invariants by induction over op sequences) on a hand model + step-replaying differential correspondence with the real Game/Tilt modes on a fake-game scaffold and in a simulated physical world with the real ball devices + independent grammar recogniser",
  "translated": False,
 }
RULE = ("two interleaved streams. kind game: balls_per_game 1-4 (template, may be changed by a request), max_players 1-4, "
        "num_balls_known 1-3; 0-6 hooks on lifecycle events (priority above / below the game's handlers, each firing once or "
        "twice, optionally only while player k is up; extra: end_game inside a queue event of player 2/3) and 2-10 top-level "
        "requests: end_ball, end_game, slam, balls_in_play = n in -1..5, ball_drain relay 0..3, extra ball, add player, "
        "balls_per_game := n, restart, queue delay of 1-9 ticks on the six queue events, advance; in 30% a handler vetoes some of "
        "the first four player_add_requests. kind world: trough with 2-4 balls, ball save (1/2/unlimited, 0-10 s, hurry-up, grace, "
        "auto-enable or not, only_last_ball), multiball (total/add 2-3 balls, shoot again 0-5 s), tilt (1-3 warnings, settle 0-2 "
        "s), wait_for_empty_playfields on/off, physical timings, 0-4 hooks and 3-13 requests: 1 / several / all loose balls roll "
        "into the trough, ball_drain relay with 1-3 balls, a ball MPF does not know appears, playfield.add_ball, multiball start / "
        "add-a-ball / stop, ball save on / early / off, tilt-warning / tilt / slam-tilt switch, start button, end_ball / end_game "
        "events, extra ball, restart, advance 0.125-10 s. every game is driven to its end (drains; world: every loose ball rolls "
        "home, ball save and multiball off; last resort an end_game request, counted), a second game is started and, after a "
        "restart or a template change, played to its end. non-trivial = a request arrived inside a lifecycle handler or more than "
        "one player / an extra ball / an end request / a tilt / a veto / a restart occurred, or (world) a ball drained. distinct = "
        "canonical JSON")
TRUSTED = [
    "modelled, not verified: the event bus and asyncio (each lifecycle post is one resume of the model; when it happens is "
    "taken from the implementation)",
    "not modelled: ball devices, ball controller, ball_saves, multiballs (their effect reaches the model as the drain count / "
    "balls_in_play assignment the game receives); the tilt mode's ball collection and settle timer (tilt clear is an input)",
    "harness/common/gameworld_c06.py: physical-world simulator (hand-written, cut down from ballworld.py; every eject succeeds)",
    "Model/Game.lean is hand-written; tied to mpf/modes/game/code/game.py, mpf/core/async_mode.py, mpf/modes/tilt/code/tilt.py by "
    "correspondence on every run",
]
ASSUMPTIONS = ["handlers of lifecycle events do not raise; every queue wait is eventually cleared",
               "num_balls_known only grows during a case (no ball is written off: every eject of the simulated world succeeds)",
               "no ball search, no ball locks, no mechanical / player-controlled eject; one playfield",
               "a stop of the game mode from outside is followed by game_start only once the mode has stopped"]

KNOWN_SIGS = ()
GRID = 0.125
WARN_TO_FAKE = 3
ANCHOR_FILES = ("modes/game/code/game.py", "core/async_mode.py", "core/player.py", "modes/tilt/code/tilt.py", "modes/attract/code/attract.py")
LIFE = ["game_will_start", "game_starting", "game_started", "player_turn_will_start", "player_turn_starting",
        "player_turn_started", "ball_will_start", "ball_starting", "ball_started", "ball_will_end", "ball_ending",
        "ball_ended", "player_turn_will_end", "player_turn_ending", "player_turn_ended", "game_will_end", "game_ending",
        "game_ended"]
QUEUE_EVS = ["game_starting", "player_turn_starting", "ball_starting", "ball_ending", "player_turn_ending", "game_ending"]
CONFIG = """
switches:
  s_start:
    number: 1
    tags: start
machine_vars:
  c06_bpg:
    initial_value: %d
    value_type: int
    persist: false
game:
  balls_per_game: machine.c06_bpg
  max_players: %d
"""


class Rec:
    cur = None


def _install():
    from mpf.core import events as evmod
    from mpf.modes.game.code import game as gmod
    EM = evmod.EventManager
    if getattr(EM, "_c06_wrapped", False):
        return
    EM._c06_wrapped = True
    o_post = EM._post

    def post(self, event, ev_type, callback, **kwargs):
        r = Rec.cur
        if r is not None and event in r.life:
            r.posted(event)
        return o_post(self, event, ev_type, callback, **kwargs)
    EM._post = post
    G = gmod.Game
    o_drained = G.ball_drained

    def ball_drained(self, balls=0, **kwargs):
        r = Rec.cur
        res = o_drained(self, balls=balls, **kwargs)
        if r is not None:
            r.env("drain %d" % balls)
        return res
    G.ball_drained = ball_drained
    o_req, o_done = G.request_player_add, G._player_add_request_complete

    def request_player_add(self, **kwargs):
        r = Rec.cur
        res = o_req(self, **kwargs)
        if r is not None and r.machine.game is self and getattr(self, "_end_ball_event", None) is not None:
            r.env("addaccepted" if res else "addrejected")
        return res

    def _player_add_request_complete_v(self, ev_result=True, **kwargs):
        r = Rec.cur
        res = o_done(self, ev_result=ev_result, **kwargs)
        if r is not None:
            r.env("playeradded" if res else "addvetoed")
        return res
    G.request_player_add = request_player_add
    G._player_add_request_complete = _player_add_request_complete_v
    # requests that reach the game through real handlers (events, switches, devices) are logged where they take effect
    o_end_ball, o_end_game, o_mode_stop = G.end_ball, G.end_game, G.mode_stop
    bip_prop = G.__dict__["balls_in_play"]

    def end_ball(self):
        r = Rec.cur
        res = o_end_ball(self)
        if r is not None and not r.quiet and r.machine.game is self:
            r.env("endball")
        return res

    def end_game(self):
        r = Rec.cur
        if r is None or r.quiet or r.machine.game is not self:
            return o_end_game(self)
        r.quiet += 1
        try:
            res = o_end_game(self)
        finally:
            r.quiet -= 1
        r.env("endgame")
        return res

    def set_bip(self, value):
        r = Rec.cur
        bip_prop.fset(self, value)
        if r is not None and not r.quiet and r.machine.game is self and \
                sys._getframe(1).f_code.co_name not in ("ball_drained", "_start_ball"):
            r.env("setbip %d" % value)

    def mode_stop(self, **kwargs):
        r = Rec.cur
        if r is not None and r.machine.game is self and r.last_life != "game_ended":
            r.env("abort")
        return o_mode_stop(self, **kwargs)
    G.end_ball, G.end_game, G.mode_stop = end_ball, end_game, mode_stop
    G.balls_in_play = property(bip_prop.fget, set_bip)

    from mpf.modes.tilt.code import tilt as tmod
    T = tmod.Tilt

    def wrap_tilt(name, tag):
        orig = getattr(T, name)

        def f(self, **kwargs):
            r = Rec.cur
            if r is None or r.quiet or not self.machine.game:
                return orig(self, **kwargs)
            r.quiet += 1
            try:
                res = orig(self, **kwargs)
            finally:
                r.quiet -= 1
            r.env(tag)
            return res
        setattr(T, name, f)
    for nm, tg in (("tilt", "tilt"), ("tilt_warning", "tiltwarn"), ("slam_tilt", "slamtilt"), ("reset_warnings", "warnreset")):
        wrap_tilt(nm, tg)
    o_tdone = T._tilt_done

    def _tilt_done(self):
        r = Rec.cur
        g = self.machine.game
        before = bool(g and g.tilted)
        res = o_tdone(self)
        if r is not None and before and self.machine.game is g and not g.tilted:
            r.env("tiltclear")
        return res
    T._tilt_done = _tilt_done


class Real:
    """one real machine (fake-game scaffolding, or the physical world of harness/common/gameworld_c06.py) + the log L:
    ("cfg", balls_per_game, max_players, warnings_to_tilt, known) before every game_will_start,
    ("ev", event, player, ball, snap), ("env", request, snap, in_handler, player), ("q", snap), ("second",)"""

    def __init__(self, case):
        self.case = case
        self.world = case["kind"] == "world"
        self.life = set(LIFE)
        self.L = []
        self.deadlines = set()
        self.runs = {}
        self.hooks_off = False
        self.in_handler = 0
        self.quiet = 0
        self.last_life = None
        self.last_known = None
        self.bpg_now = case["bpg"]
        self.adds_seen = 0
        self.counts = {}
        self.forced = False
        self.over = self.restarted = False
        self.second_full = False
        self.crash_in_anchor = True
        self.crash_tb = ""
        self.start_accepted = 0
        self.tilt_holds = False
        self.run_ = None
        self.vm = None

    def boot(self):
        from harness.common.vmachine import VMachine
        if self.world:
            self.run_ = gw.Run(self.case, {k: int(v) * gw.GRID for k, v in self.case["timing"].items()})
            self.vm = self.run_.vm
            self.run_.start()
        else:
            self.vm = VMachine(CONFIG % (self.case["bpg"], self.case["maxp"]), game=True).start()
        self.machine = self.vm.machine

    def stop(self):
        if self.vm is not None:
            self.vm.stop()

    def count(self, k):
        self.counts[k] = self.counts.get(k, 0) + 1

    def advance(self, units):
        """units of GRID (1/8 s)"""
        if self.world:
            self.run_.advance(GRID * units)
        else:
            self.vm.advance(GRID * units)

    def snap(self):
        g = self.machine.game
        if not g:
            return None
        p = g.player
        ev = g._end_ball_event
        return (g.balls_in_play, g.num_players, 1 if g.ending else 0, 1 if g.tilted else 0, 1 if g.slam_tilted else 0,
                1 if (ev is not None and ev.is_set()) else 0, (p.vars.get("tilt_warnings", 0) if p else 0),
                self.machine.ball_controller.num_balls_known)

    def _known_check(self):
        k = self.machine.ball_controller.num_balls_known
        if self.last_known is not None and k != self.last_known and self.machine.game:
            self.last_known = k
            self.L.append(("env", "known %d" % k, self.snap(), self.in_handler > 0, 0, self.vm.now()))

    def posted(self, event):
        g = self.machine.game
        if event == "game_will_start" and g:
            import asyncio
            rec = self

            class LoggedEvent(asyncio.Event):
                """_start_game touches this event (set or clear) right after its `if self.ending: return`"""
                seen = False

                def _log(self):
                    import sys as _sys
                    if not self.seen and _sys._getframe(2).f_code.co_name == "_start_game":
                        self.seen = True
                        rec.env("startcheck")

                def set(self):
                    self._log()
                    super().set()

                def clear(self):
                    self._log()
                    super().clear()
            g._at_least_one_player_event = LoggedEvent()
            self.last_known = self.machine.ball_controller.num_balls_known
            warn_to = self.case["tilt"]["warn"] if self.world else WARN_TO_FAKE
            self.L.append(("cfg", self.bpg_now, self.case["maxp"], warn_to, self.last_known))
        else:
            self._known_check()
        p = g.player if g else None
        self.last_life = event
        self.L.append(("ev", event, p.number if p else 0, p.ball if p else 0, self.snap(), self.vm.now()))

    def env(self, what):
        self._known_check()
        g = self.machine.game
        p = g.player if g else None
        self.L.append(("env", what, self.snap(), self.in_handler > 0, p.number if p else 0, self.vm.now()))

    def deadline(self, ticks):
        t = round(self.vm.now() / GRID) + max(1, ticks)
        while t in self.deadlines:
            t += 1
        self.deadlines.add(t)
        return t * GRID - self.vm.now()

    def switch_hit(self, name):
        self.vm.hit_switch(name, 1)
        self.vm.hit_switch(name, 0)

    def act(self, a, queue=None):
        g = self.machine.game
        m = self.machine
        k = a[0]
        if k == "adv":
            if not self.in_handler:
                self.advance(a[1])
            return
        if k == "wait":
            if queue is not None:
                queue.wait()
                self.machine.delay.add(ms=self.deadline(a[1]) * 1000, callback=queue.clear)
            return
        if k == "setbpg":
            m.variables.set_machine_var("c06_bpg", a[1])
            self.bpg_now = a[1]
            self.second_full = True
            return
        if self.world and self.act_world(a):
            return
        if k == "drain":
            self.machine.events.post_relay("ball_drain", balls=a[1])    # logged when Game.ball_drained really runs
            return
        if not g:
            return
        if k == "endball":
            g.end_ball()                # logged by the wrappers of Game.end_ball / end_game / balls_in_play
        elif k == "endgame":
            g.end_game()
        elif k == "slam":
            self.quiet += 1
            try:
                g.slam_tilted = True
                g.end_ball()
            finally:
                self.quiet -= 1
            self.env("slam")
        elif k == "setbip":
            g.balls_in_play = a[1]
        elif k == "extraball":
            if g.player:
                g.player.extra_balls += 1
                self.env("extraball")
        elif k == "addplayer":
            g.request_player_add()      # logged by the wrappers: accepted / rejected now, player added / vetoed later
        elif k == "restart":
            # the game mode is stopped from outside (as service mode does) and a new game is started as soon as it has stopped
            self.second_full = True
            self.L.append(("env", "restartreq", self.snap(), self.in_handler > 0, 0, self.vm.now()))
            g.stop(callback=lambda: m.events.post("game_start"))
        else:
            raise InfraError("bad act %r" % (a,))

    def act_world(self, a):
        """requests that go through the real devices; True = handled"""
        m, w, k = self.machine, self.run_.world, a[0]
        g = m.game
        if k == "drain":
            n = w.drain(a[1])
            self.count("world_drain_%d" % n)
        elif k == "rdrain":
            # the relay itself with a count the real devices never report at once (they report ball by ball): custom code / another
            # platform posting ball_drain for several balls; the real ball_save / multiball handlers are in the chain
            m.events.post_relay("ball_drain", balls=a[1])
            self.count("world_relay_drain_%d" % a[1])
        elif k == "newball":
            self.count("world_newball" if w.new_ball() else "world_newball_noop")
        elif k == "pfadd":
            if g and m.playfield.available_balls + 1 <= m.ball_controller.num_balls_known:
                m.playfield.add_ball(1)
                self.count("world_pfadd")
        elif k in ("mbstart", "mbadd", "mbstop", "saveon", "saveearly", "saveoff"):
            if g:
                m.events.post({"mbstart": "ev_mb_start", "mbadd": "ev_mb_add", "mbstop": "ev_mb_stop", "saveon": "ev_save_on",
                               "saveearly": "ev_save_early", "saveoff": "ev_save_off"}[k])
        elif k in ("tiltwarn", "tilt", "slamtilt"):
            self.switch_hit({"tiltwarn": "s_tilt_warning", "tilt": "s_tilt", "slamtilt": "s_slam_tilt"}[k])
        elif k == "start":
            self.switch_hit("s_start")
        elif k in ("endball", "endgame") and not self.in_handler:
            m.events.post("end_ball" if k == "endball" else "end_game")
        else:
            return False
        return True

    def install_hooks(self):
        for i, h in enumerate(self.case["hooks"]):
            def handler(_h=h, _i=i, **kwargs):
                if self.hooks_off or self.runs.get(_i, 0) >= _h["max"]:
                    return
                g = self.machine.game
                if _h.get("player") and not (g and g.player and g.player.number == _h["player"]):
                    return
                self.runs[_i] = self.runs.get(_i, 0) + 1
                self.in_handler += 1
                try:
                    for a in _h["acts"]:
                        self.act(a, queue=kwargs.get("queue"))
                finally:
                    self.in_handler -= 1
            self.machine.events.add_handler(h["event"], handler, h["prio"])
        veto = list(self.case.get("veto", []))

        def add_request(**kwargs):
            self.adds_seen += 1
            if self.adds_seen <= len(veto) and veto[self.adds_seen - 1]:
                return False
            return None
        if veto:
            self.machine.events.add_handler("player_add_request", add_request, 5)

    def start_game(self):
        self.vm.hit_switch("s_start", 1)
        self.vm.run()
        self.vm.hit_switch("s_start", 0)
        self.advance(8)

    def finish_game(self):
        """drive the game to its end (bounded): drains; in the world: ball save and multiball off, every loose ball rolls
        into the trough; last resort (counted): an end_game request"""
        def first_player():
            # a game whose first player was vetoed waits (for ever) for another add request: make one
            g = self.machine.game
            if g and not g.player_list and g._at_least_one_player_event is not None and self.last_life == "game_starting":
                self.count("finish_adds_first_player")
                g.request_player_add()
        if self.world:
            w = self.run_.world
            for i in range(70):
                if not self.machine.game:
                    return True
                first_player()
                if i % 8 == 0:
                    self.machine.events.post("ev_save_off")
                    self.machine.events.post("ev_mb_stop")
                if i == 60:
                    self.forced = True
                    self.machine.events.post("end_game")
                if w.loose:
                    w.drain(len(w.loose))
                self.advance(24)
            # observation, not C06's business: the tilt mode's own ball_ending handler never releases the queue event
            # (Tilt._ball_ending_tilted called after _tilt_done has already run, with _balls_to_collect < 0)
            self.tilt_holds = self.last_life == "ball_ending" and self.machine.modes["tilt"].ball_ending_tilted_queue is not None
            return False
        for _ in range(80):
            g = self.machine.game
            if not g:
                return True
            first_player()
            if g.balls_in_play > 0:
                self.act(["drain", g.balls_in_play])
            self.vm.advance(GRID * 12)
        return False

    def all_home(self):
        """let every ball come home (the ball controller refuses a game start while balls are under way)"""
        w = self.run_.world
        for _ in range(12):
            if w.loose:
                w.drain(len(w.loose))
            self.advance(24)
            if not w.loose and not w.moving() and not w.occupancy("plunger"):
                break

    def run(self):
        crash = None
        Rec.cur = self
        try:
            m = self.machine
            if not self.world:
                def _add_ball(**kwargs):      # no ball devices: the playfield stays empty, balls_in_play is the game's own count
                    pass
                m.playfield.add_ball = _add_ball
                m.ball_controller.num_balls_known = self.case["known"]
            else:
                self.advance(8)
            self.install_hooks()
            self.vm.align()
            self.start_game()
            for op in self.case["ops"]:
                self.act(op)
                self.advance(1)
            self.over = self.finish_game()
            self.L.append(("q", self.snap()))
            self.hooks_off = True
            self.L.append(("second",))
            if self.world:
                self.all_home()

            def accepted(**kwargs):
                self.start_accepted += 1
            m.events.add_handler("game_start", accepted, 5)
            self.start_game()
            self.restarted = self.machine.game is not None
            if self.second_full:
                self.over2 = self.finish_game()
            self.L.append(("q", self.snap()))
        except InfraError:
            raise
        except Exception as e:
            import traceback
            crash = "%s: %s" % (type(e).__name__, str(e)[:300])
            tb = traceback.format_exc()
            # EventHandlerException does not chain the handler's traceback: the handler is named in its message
            self.crash_in_anchor = any(f in tb for f in ANCHOR_FILES) or \
                any(("<bound method %s." % c) in str(e) for c in ("Game", "Tilt", "Attract", "Player", "AsyncMode"))
            self.crash_tb = tb[-1500:]
        finally:
            Rec.cur = None
        return crash


def run_real(case):
    from harness.common.vmachine import BootError
    _install()
    real = Real(case)
    try:
        try:
            real.boot()
        except BootError as e:
            return None, "boot: " + str(e)[:300]
        crash = real.run()
        return real, crash
    finally:
        real.stop()


# ---------------------------------------------------------------------------------------------------------------------
# oracle: recursive-descent recogniser + numeric clauses, on the real trace of the first game
# ---------------------------------------------------------------------------------------------------------------------
class Reject(Exception):
    def __init__(self, sig, detail):
        self.sig, self.detail = sig, detail


class Parser:
    """one game: items from its game_will_start up to the next game's cfg record"""

    def __init__(self, bpg, items):
        self.bpg = bpg
        self.items = items       # ("ev", name, player, ball, snap) | ("env", what, snap, in_handler, player)
        self.i = 0
        self.ball_of = {}
        self.extra = {}
        self.end_req = False     # end_game accepted
        self.slam = False
        self.trigger = False     # a reason for the current ball to end exists
        self.bip = 0
        self.tilted = 0
        self.cur = 0
        self.players = 0
        self.start_checked = False
        self.end_req_at_check = False
        self.in_ball = False
        self.trigger_t = None    # when the first reason for the ball in play to end appeared

    def reason(self, t):
        if not self.trigger and self.in_ball and self.trigger_t is None:
            self.trigger_t = t
        self.trigger = True

    def see(self, snap, what, t=None):
        """bounds + the reasons for a ball to end that show in the game's public state"""
        if snap is None:
            return
        if not 0 <= snap[0] <= snap[7]:
            raise Reject("bip-out-of-bounds", {"balls_in_play": snap[0], "num_balls_known": snap[7], "at": what})
        if self.bip > 0 and snap[0] == 0:
            self.reason(t)               # balls in play reached zero
        if not self.tilted and snap[3]:
            self.reason(t)               # the tilt mode has tilted the game: it requests the end of the ball
        self.bip = snap[0]
        self.tilted = snap[3]
        self.players = snap[1]

    def envs(self):
        """consume requests between lifecycle events, tracking what they mean for the numeric clauses"""
        while self.i < len(self.items) and self.items[self.i][0] == "env":
            _, what, snap, _, curnum, t = self.items[self.i]
            w = what.split()
            self.see(snap, what, t)
            if w[0] == "startcheck":
                self.start_checked = True
                if self.end_req:
                    raise Reject("game-started-after-end-request", {"at": "start check"})
            if w[0] == "endball":
                self.reason(t)
            elif w[0] == "endgame":
                self.reason(t)
                self.end_req = True
                if not self.start_checked:
                    self.end_req_at_check = True
            elif w[0] == "slam":
                self.reason(t)
                self.slam = True
            elif w[0] == "slamtilt":
                self.slam = True
            elif w[0] == "extraball" and curnum:
                self.extra[curnum] = self.extra.get(curnum, 0) + 1
            self.i += 1

    def expect(self, name, player=None, ball=None):
        self.envs()
        if self.i >= len(self.items):
            sig = "trace-incomplete"
            if self.in_ball and name == "ball_will_end" and self.trigger:
                sig = "ball-not-ended-despite-reason"
            raise Reject(sig, {"expected": name, "balls_in_play": self.bip, "trace_tail": [x[1] for x in self.items[-6:]]})
        it = self.items[self.i]
        if it[1] != name:
            sig = "grammar"
            if it[1] == "ball_will_start" and self.end_req:
                sig = "ball-after-end-request:" + ("extra-ball" if name == "player_turn_will_end" and self.items[self.i - 1][1] == "ball_ended" else "turn-start")
            raise Reject(sig, {"expected": name, "got": it[1], "at": self.i, "before": [x[1] for x in self.items[max(0, self.i - 5):self.i]]})
        if player is not None and (it[2], it[3]) != (player, ball):
            raise Reject("numbers", {"event": name, "expected": [player, ball], "got": [it[2], it[3]]})
        if name == "ball_will_end" and self.in_ball and self.trigger_t is not None and it[5] > self.trigger_t + GRID:
            # "a ball ends exactly when ...": the coroutine is woken in the same instant
            raise Reject("ball-not-ended-despite-reason", {"reason_at": self.trigger_t, "ball_will_end_at": it[5], "balls_in_play": self.bip})
        self.see(it[4], name, it[5])
        self.i += 1
        return it

    def peek(self):
        self.envs()
        return self.items[self.i][1] if self.i < len(self.items) else None

    def game(self):
        self.expect("game_will_start", 0, 0)
        self.expect("game_starting")
        nx = self.peek()
        if not self.start_checked:
            # end_game() before _start_game looked at `ending`: the game ends without having started (no player needed)
            if not self.end_req_at_check:
                raise Reject("game-start-abandoned-without-end-request" if nx is not None else "trace-incomplete", {"next": nx})
            if nx != "game_will_end":
                raise Reject("game-started-after-end-request" if nx is not None else "trace-incomplete", {"next": nx})
        else:
            if nx is None and self.end_req and self.players == 0:
                raise Reject("game-never-ends:end-request-while-waiting-for-first-player", {"trace_tail": [x[1] for x in self.items[-6:]]})
            if nx == "game_will_end" and self.end_req and self.players == 0:
                pass        # ended while waiting for the first player: the game ends without having started
            else:
                self.expect("game_started", 1, 0)
                while self.peek() == "player_turn_will_start":
                    self.turn()
        self.expect("game_will_end")
        self.expect("game_ending")
        self.expect("game_ended")
        self.envs()

    def turn(self):
        it = self.items[self.i]
        players = it[4][1]
        nxt = 1 if self.cur == 0 or self.cur >= players else self.cur + 1
        if self.end_req:
            raise Reject("turn-after-end-request", {"at": self.i})
        p, b0 = nxt, self.ball_of.get(nxt, 0)
        b = b0 + 1          # the ball number counts from the beginning of the turn
        if b > self.bpg:
            raise Reject("ball-number-exceeds-balls-per-game", {"player": p, "ball": b, "balls_per_game": self.bpg})
        self.ball_of[p] = b
        self.expect("player_turn_will_start", p, b)
        self.cur = p
        self.expect("player_turn_starting", p, b)
        self.expect("player_turn_started", p, b)
        first = True
        while True:
            nx = self.peek()
            want_ball = (first and not self.end_req) or \
                (not first and self.extra.get(p, 0) > 0 and not self.slam and not self.end_req)
            if nx == "ball_will_start":
                if self.end_req:
                    raise Reject("ball-after-end-request:" + ("turn-start" if first else "extra-ball"), {"player": p, "ball": b})
                if not want_ball:
                    raise Reject("unexpected-ball", {"player": p, "ball": b, "extra": self.extra.get(p, 0)})
                if not first:
                    self.extra[p] -= 1
                self.ball(p, b)
                first = False
            else:
                if want_ball:
                    raise Reject("ball-missing" if nx is not None else "trace-incomplete",
                                 {"player": p, "ball": b, "first": first, "extra": self.extra.get(p, 0), "next": nx})
                break
        self.expect("player_turn_will_end", p, b)
        self.expect("player_turn_ending", p, b)
        self.expect("player_turn_ended", p, b)
        nx = self.peek()     # consumes the requests made in player_turn_ended handlers (a player may have been added)
        last = self.slam or (b >= self.bpg and p == self.players)
        if (last or self.end_req) and nx == "player_turn_will_start":
            raise Reject("turn-after-last-ball", {"player": p, "ball": b})
        if not (last or self.end_req) and nx == "game_will_end":
            raise Reject("game-ended-early", {"player": p, "ball": b})

    def ball(self, p, b):
        self.envs()
        self.trigger = self.end_req     # _run_ball clears the end-of-ball event just before ball_will_start
        self.expect("ball_will_start", p, b)
        self.expect("ball_starting", p, b)
        it = self.expect("ball_started", p, b)
        if it[4][0] != min(1, it[4][7]):
            raise Reject("bip-at-ball-start", {"balls_in_play": it[4][0]})
        self.in_ball = True
        self.trigger_t = None
        self.envs()
        if self.peek() == "ball_will_end" and not self.trigger:
            raise Reject("ball-ended-without-reason", {"player": p, "ball": b})
        self.expect("ball_will_end", p, b)
        self.in_ball = False
        self.expect("ball_ending", p, b)
        self.expect("ball_ended", p, b)
        self.trigger = False


def split_games(L):
    """[(cfg, items, phase)]: phase 0 = while the generated requests ran, 1 = the game started afterwards"""
    games, phase = [], 0
    for e in L:
        if e[0] == "second":
            phase = 1
        elif e[0] == "cfg":
            games.append((e, [], phase))
        elif e[0] in ("ev", "env") and games:
            games[-1][1].append(e)
    return games


def oracle(case, real, crash):
    if real is not None and crash is not None and not real.crash_in_anchor:
        return None         # an exception out of a device outside the game / tilt / attract / player code: observation (counted)
    if real is None or crash is not None:
        return "crash", {"error": crash, "traceback": real.crash_tb if real is not None else ""}
    L = real.L
    cut = L.index(("second",))
    try:
        games = split_games(L)
        first = [g for g in games if g[2] == 0]
        if not first:
            raise Reject("game-not-started", {})
        for n, (cfg, items, phase) in enumerate(games):
            if phase == 1 and not real.second_full:
                break
            ab = [j for j, x in enumerate(items) if x[0] == "env" and x[1] == "abort"]
            aborted = bool(ab)
            if aborted:
                items = items[:ab[0] + 1]       # what a stopped game's pending callbacks still do is not part of its lifecycle
            if aborted and not any(x[0] == "env" and x[1] == "restartreq" for x in items):
                raise Reject("game-stopped-without-request", {"game": n, "trace": [x[1] for x in items][-8:]})
            body = [x for x in (items[:-1] if aborted else items) if not (x[0] == "env" and x[1] == "restartreq")]
            ps = Parser(cfg[1], body)
            try:
                ps.game()
                if ps.i != len(body):
                    raise Reject("grammar", {"trailing": [x[1] for x in body[ps.i:ps.i + 5]]})
                if aborted:
                    raise Reject("grammar", {"trailing": ["abort after game_ended"]})
            except Reject as r:
                if r.sig in ("trace-incomplete", "ball-not-ended-despite-reason") and aborted:
                    continue            # stopped from outside: every event up to there was in order
                if r.sig == "trace-incomplete" and real.tilt_holds:
                    return None     # counted as an observation
                if r.sig == "trace-incomplete":
                    raise Reject("game-not-ended", dict(r.detail, game=n, forced_end_request=real.forced))
                raise
        q = [e for e in L[:cut] if e[0] == "q"][-1]
        if q[1] is not None:
            raise Reject("game-slot-not-empty", {})
        second = [e for e in L[cut:] if e[0] == "ev"]
        if real.world and not real.start_accepted:
            return None         # the ball controller (not the game) refused the start request: counted, not C06's business
        if not real.restarted or not second or second[0][1] != "game_will_start":
            raise Reject("not-restartable", {"second": [x[1] for x in second[:4]]})
        if real.second_full and L[-1][1] is not None:
            raise Reject("game-slot-not-empty", {"game": "second"})
    except Reject as r:
        return r.sig, r.detail
    return None


def is_nontrivial(real):
    if real is None:
        return False
    return any(e[0] == "env" and (e[3] or e[1].split()[0] in ("endgame", "slam", "extraball", "playeradded", "tilt", "slamtilt", "tiltwarn",
                                                                "abort", "addvetoed", "setbip") or
                                  (real.world and e[1].split()[0] == "drain")) for e in real.L)


# ---------------------------------------------------------------------------------------------------------------------
def gen_hooks(r, act, n_choices, maxp):
    hooks = []
    for _ in range(r.choice(n_choices)):
        ev = r.choice(LIFE[:-1])        # not game_ended: the coroutine is over, machine.game is about to be cleared
        acts = [act() for _ in range(r.choice([1, 1, 2]))]
        if ev in QUEUE_EVS and r.random() < 0.4:
            acts.insert(r.choice([0, len(acts)]), ["wait", r.choice([1, 2, 5, 9])])
        h = {"event": ev, "prio": r.choice([1, 1, 100000]), "max": r.choice([1, 1, 2]), "acts": acts}
        if maxp > 1 and r.random() < 0.25:
            h["player"] = r.choice([1, 2, 2, 3])      # fires only while that player is up (e.g. end_game inside ANOTHER player's queue event)
        hooks.append(h)
    if maxp > 1 and r.random() < 0.2:
        # (d) end_game from inside a lifecycle queue event of another player than the first
        hooks.append({"event": r.choice(QUEUE_EVS[1:5]), "prio": r.choice([1, 100000]), "max": 1, "player": r.choice([2, 2, 3]),
                      "acts": [["endgame"]] if r.random() < 0.7 else [["wait", r.choice([1, 5])], ["endgame"]]})
    return hooks


def gen_case(r):
    def act():
        x = r.random()
        if x < 0.15:
            return ["endball"]
        if x < 0.26:
            return ["endgame"]
        if x < 0.31:
            return ["slam"]
        if x < 0.47:
            return ["setbip", r.choice([-1, 0, 0, 1, 2, 3, 5])]
        if x < 0.62:
            return ["drain", r.choice([0, 1, 1, 2, 3])]
        if x < 0.77:
            return ["extraball"]
        if x < 0.93:
            return ["addplayer"]
        if x < 0.97:
            return ["setbpg", r.choice([1, 2, 3, 4])]
        return ["restart"]
    maxp = r.choice([1, 2, 4])
    hooks = gen_hooks(r, act, [0, 1, 2, 2, 3, 4, 5], maxp)
    ops = []
    for _ in range(r.randint(2, 10)):
        ops.append(act() if r.random() < 0.75 else ["adv", r.choice([1, 4, 12])])
    case = {"kind": "game", "bpg": r.choice([1, 2, 3, 3, 4]), "maxp": maxp, "known": r.choice([1, 2, 3, 3]),
            "hooks": hooks, "ops": ops}
    if r.random() < 0.3:
        case["veto"] = [r.random() < 0.5 for _ in range(4)]
    return case


WORLD_ACTS = [("drain1", 14), ("drain2", 9), ("rdrain", 4), ("newball", 3), ("pfadd", 7), ("mbstart", 7), ("mbadd", 3), ("mbstop", 1), ("saveon", 4),
              ("saveearly", 4), ("saveoff", 1), ("tiltwarn", 10), ("tilt", 4), ("slamtilt", 3), ("start", 8), ("endball", 4),
              ("endgame", 3), ("extraball", 5), ("addplayer", 3), ("setbpg", 1), ("restart", 1)]


def gen_world(r):
    tot = sum(w for _, w in WORLD_ACTS)

    def act():
        x = r.random() * tot
        for name, w in WORLD_ACTS:
            x -= w
            if x < 0:
                break
        if name == "drain1":
            return ["drain", 1]
        if name == "drain2":
            return ["drain", r.choice([2, 2, 3, 9, 9])]       # 9 = every loose ball at once
        if name == "setbpg":
            return ["setbpg", r.choice([1, 2, 3])]
        if name == "rdrain":
            return ["rdrain", r.choice([1, 2, 2, 3])]
        return [name]
    maxp = r.choice([1, 2, 2, 3])
    hooks = gen_hooks(r, act, [0, 0, 1, 1, 2, 3], maxp)
    ops = []
    if r.random() < 0.85:
        ops.append(["adv", r.choice([24, 40])])       # the first ball reaches the playfield
    for _ in range(r.randint(3, 12)):
        ops.append(act() if r.random() < 0.7 else ["adv", r.choice([1, 4, 8, 24, 40, 80])])
    active = r.choice([0, 2, 5, 10])
    case = {"kind": "world", "bpg": r.choice([1, 2, 2, 3]), "maxp": maxp, "balls": r.choice([2, 3, 3, 4]),
            "wait_empty": r.random() < 0.7,
            "save": {"n": r.choice([1, 1, 2, -1]), "active": active, "hurry": r.choice([0, 1000]) if active else 0,
                     "grace": r.choice([0, 500, 1000]), "auto": r.random() < 0.6, "last": r.random() < 0.2},
            "mb": {"count": r.choice([2, 2, 3]), "type": r.choice(["total", "total", "add"]), "shoot": r.choice([0, 0, 2000, 5000])},
            "tilt": {"warn": r.choice([1, 2, 2, 3]), "settle": r.choice([0, 500, 1000, 2000])},
            "timing": {"leave": r.choice([1, 2]), "transit": r.choice([2, 4, 8])},       # ticks of 1/16 s
            "hooks": hooks, "ops": ops}
    if r.random() < 0.25:
        case["veto"] = [r.random() < 0.5 for _ in range(4)]
    return case


def fmt(s):
    return "bip=%d players=%d ending=%d tilted=%d slam=%d endev=%d warn=%d known=%d" % tuple(s)


def schedule(case, real):
    ops, exp = [], []
    last_ev = None
    first = True
    kn = None
    for e in real.L:
        if e[0] == "cfg":
            if first:
                ops.append("reset %d %d %d %d" % (e[1], e[2], e[4], e[3]))
                exp.append("ok")
                first = False
                kn = e[4]
            if last_ev is not None:
                # a new game although the previous one was never seen to leave the game slot (restart): the old coroutine is gone
                ops.append("finish" if last_ev == "game_ended" else "state")
                exp.append("ok" if last_ev == "game_ended" else "game=0")
                last_ev = None
            ops.append("config %d %d" % (e[1], e[2]))
            exp.append("ok")
            if e[4] != kn:      # balls found (or written off) while no game was running
                kn = e[4]
                ops.append("known %d" % kn)
                exp.append(None)
        elif e[0] == "ev":
            last_ev = e[1]
            ops.append("start" if e[1] == "game_will_start" else "resume")
            exp.append("%s:%d:%d | %s" % (e[1], e[2], e[3], fmt(e[4])))
        elif e[0] == "env" and e[1] == "restartreq":
            pass
        elif e[0] == "env":
            ops.append(e[1])
            if e[1] == "abort":
                exp.append("ok")
                last_ev = None
            elif e[1].startswith("known "):
                kn = int(e[1].split()[1])
                exp.append(None)        # any answer but not-enabled; the value is compared from the next line on
            else:
                exp.append("| " + fmt(e[2]) if e[2] else "not-enabled")
        elif e[0] == "q":
            if last_ev == "game_ended" and e[1] is None:
                ops.append("finish")
                exp.append("ok")
                last_ev = None
            ops.append("state")
            exp.append("game=%d" % (1 if e[1] is not None else 0))
    return ops, exp


def run_model(model, ops):
    out = []
    for o in ops:
        a = model.ask(o)
        if a == "bad-op":
            raise InfraError("model rejected %r" % o)
        out.append(a)
    return out


def check_case(case):
    real, crash = run_real(case)
    return oracle(case, real, crash), real


def shrink(case, sig):
    units = [("h", i) for i in range(len(case["hooks"]))] + [("o", i) for i in range(len(case["ops"]))]

    def restrict(us):
        keep = set(us)
        return dict(case, hooks=[h for i, h in enumerate(case["hooks"]) if ("h", i) in keep],
                    ops=[o for i, o in enumerate(case["ops"]) if ("o", i) in keep])

    def fails(us):
        res, _ = check_case(restrict(us))
        return res is not None and res[0] == sig
    small = restrict(ddmin(units, fails, max_tests=60))
    res, _ = check_case(small)
    if res is None or res[0] != sig:
        return case, None
    return small, res


def one_case(ctx, model, case, sample=True):
    real, crash = run_real(case)
    ctx.evaluated(case, is_nontrivial(real), sample=sample)
    if real is not None:
        pre = "w_" if real.world else ""
        for e in real.L:
            if e[0] == "env":
                ctx.count(pre + "req_" + e[1].split()[0] + ("_in_handler" if e[3] else ""))
            elif e[0] == "ev":
                ctx.count(pre + "events")
        for k, v in real.counts.items():
            for _ in range(v):
                ctx.count(k)
        if real.forced:
            ctx.count("world_finish_needed_end_game_request")
        if real.tilt_holds:
            ctx.count("observation_tilt_mode_never_releases_ball_ending")
            ctx.notes["observation_tilt_mode_never_releases_ball_ending"] = case
        if real.world and ("second",) in real.L and not real.start_accepted:
            ctx.count("world_second_start_refused_by_ball_controller")
    if real is not None and crash is not None and not real.crash_in_anchor:
        ctx.count("observation_crash_outside_game_code")
        ctx.notes["observation_crash_outside_game_code"] = {"error": crash[:300], "traceback_tail": real.crash_tb[-600:], "case": case}
        return
    res = oracle(case, real, crash)
    if res is None and crash is not None:
        return
    if res is not None:
        if res[0] in KNOWN_SIGS and any(f["signature"] == res[0] for f in ctx.failures):
            ctx.count("known_" + res[0])        # recorded (and shrunk) once per run
            return
        small, r2 = shrink(case, res[0])
        ctx.fail(res[0], small, (r2 or res)[1])
        return
    if model is not None:
        ops, exp = schedule(case, real)
        got = run_model(model, ops)
        exp = [got[k] if (exp[k] is None and got[k] not in ("not-enabled", "bad-op")) else exp[k] for k in range(len(ops))]
        bad = [k for k in range(len(ops)) if exp[k] != got[k]]
        ctx.compare(dict(case, what="step replay", first_diff=([ops[bad[0]], bad[0]] if bad else None)), exp, got)


def corpus():
    c = []
    # D19: end_game() from a player_turn_starting handler
    c.append({"kind": "game", "bpg": 3, "maxp": 2, "known": 3, "ops": [["adv", 4]],
              "hooks": [{"event": "player_turn_starting", "prio": 1, "max": 1, "acts": [["endgame"]]}]})
    # D20: end_game() during a ball with an extra ball pending
    c.append({"kind": "game", "bpg": 3, "maxp": 2, "known": 3, "ops": [["extraball"], ["adv", 2], ["endgame"], ["adv", 8]], "hooks": []})
    # two players, an extra ball, delayed queue events, out-of-range balls_in_play
    c.append({"kind": "game", "bpg": 2, "maxp": 4, "known": 2,
              "ops": [["addplayer"], ["setbip", 5], ["extraball"], ["drain", 1], ["adv", 12], ["setbip", -1], ["adv", 12]],
              "hooks": [{"event": "ball_ending", "prio": 100000, "max": 2, "acts": [["wait", 5], ["addplayer"]]},
                        {"event": "ball_starting", "prio": 1, "max": 2, "acts": [["wait", 2], ["endball"]]}]})
    # (fixed) end_game() in a game_will_start handler: the game used to wait for its first player for ever
    c.append({"kind": "game", "bpg": 3, "maxp": 2, "known": 3, "ops": [["adv", 4], ["addplayer"]],
              "hooks": [{"event": "game_will_start", "prio": 1, "max": 1, "acts": [["endgame"]]}]})
    # (fixed) a player added inside player_turn_starting of player 1's second turn (guard sees ball 1)
    c.append({"kind": "game", "bpg": 3, "maxp": 4, "known": 2, "ops": [["drain", 1], ["addplayer"]],
              "hooks": [{"event": "player_turn_starting", "prio": 100000, "max": 2, "acts": [["setbip", 0], ["wait", 5]]}]})
    # a drain reporting more balls than are in play (relay posted with balls=2 while balls_in_play == 1): the ball ends
    c.append({"kind": "game", "bpg": 2, "maxp": 1, "known": 3, "ops": [["adv", 4], ["drain", 2], ["adv", 4]], "hooks": []})
    # ---- session 3: vetoed adds, restart, balls_per_game template, end_game inside another player's queue event
    # first player vetoed, then end_game while the game waits for a player (fixed: used to wait for ever)
    c.append({"kind": "game", "bpg": 3, "maxp": 2, "known": 3, "ops": [["adv", 4], ["endgame"], ["adv", 4]], "hooks": [],
              "veto": [True, False]})
    # restart during ball 1 (mode stopped, game_start as soon as it has stopped; fixed: the old task's callback killed the new game)
    c.append({"kind": "game", "bpg": 2, "maxp": 2, "known": 3, "ops": [["adv", 4], ["addplayer"], ["restart"], ["adv", 4]], "hooks": []})
    # balls_per_game template changed during ball 1 of a 3-ball game: this game keeps 3, the next one has 1
    c.append({"kind": "game", "bpg": 3, "maxp": 1, "known": 3, "ops": [["adv", 4], ["setbpg", 1], ["adv", 4]], "hooks": []})
    # end_game inside player 2's ball_ending / player_turn_starting
    for ev in QUEUE_EVS[1:5]:
        c.append({"kind": "game", "bpg": 2, "maxp": 2, "known": 3, "ops": [["addplayer"], ["adv", 4]],
                  "hooks": [{"event": ev, "prio": 1, "max": 1, "player": 2, "acts": [["wait", 2], ["endgame"]]}]})
    return c


W0 = {"kind": "world", "bpg": 2, "maxp": 2, "balls": 3, "wait_empty": True,
      "save": {"n": 1, "active": 5, "hurry": 1000, "grace": 500, "auto": False, "last": False},
      "mb": {"count": 2, "type": "total", "shoot": 0}, "tilt": {"warn": 2, "settle": 1000},
      "timing": {"leave": 1, "transit": 4}, "hooks": [], "ops": []}


def world_corpus():
    c = []
    # a drain reporting MORE balls than are in play: a second ball reaches the playfield without the game counting it
    # (playfield.add_ball by a device), both roll into the trough together: ball_drain balls=2 with balls_in_play == 1
    c.append(dict(W0, ops=[["adv", 40], ["pfadd"], ["adv", 40], ["drain", 9], ["adv", 24]]))
    # the real devices report drains ball by ball; the relay posted with 2 while one ball is in play (and with a ball save armed)
    c.append(dict(W0, ops=[["adv", 40], ["rdrain", 2], ["adv", 24], ["drain", 9], ["adv", 24]]))
    c.append(dict(W0, save=dict(W0["save"], auto=True, n=2), ops=[["adv", 40], ["mbstart"], ["adv", 40], ["rdrain", 3], ["adv", 40], ["drain", 9], ["adv", 24]]))
    # the same with a ball MPF does not know at all
    c.append(dict(W0, ops=[["adv", 40], ["newball"], ["drain", 9], ["adv", 24]]))
    # ball save: the drained ball is given back (drain 0 reaches the game), the second drain ends the ball; early save; unlimited
    c.append(dict(W0, save=dict(W0["save"], auto=True), ops=[["adv", 40], ["drain", 1], ["adv", 40], ["drain", 1], ["adv", 24]]))
    c.append(dict(W0, save=dict(W0["save"], auto=True, n=-1, active=0),
                  ops=[["adv", 40], ["saveearly"], ["adv", 24], ["drain", 1], ["adv", 40], ["drain", 9], ["adv", 40], ["saveoff"], ["drain", 9]]))
    # hurry-up / grace period: drains inside and after the grace period
    c.append(dict(W0, save=dict(W0["save"], auto=True, active=2, grace=1000), ops=[["adv", 40], ["drain", 1], ["adv", 40], ["drain", 1]]))
    # multiball: two balls in play, one drains (ball goes on), then the other
    c.append(dict(W0, ops=[["adv", 40], ["mbstart"], ["adv", 40], ["drain", 1], ["adv", 24], ["drain", 1], ["adv", 24]]))
    c.append(dict(W0, mb=dict(W0["mb"], shoot=5000), ops=[["adv", 40], ["mbstart"], ["adv", 40], ["drain", 1], ["adv", 40], ["mbadd"], ["adv", 40], ["drain", 9]]))
    # tilt warnings up to the tilt; the tilt mode holds ball_ending until the ball is home and the bob has settled
    c.append(dict(W0, ops=[["adv", 40], ["tiltwarn"], ["adv", 4], ["tiltwarn"], ["adv", 24], ["drain", 1], ["adv", 40]]))
    # tilt while the ball is ending (a handler holds ball_ending)
    c.append(dict(W0, ops=[["adv", 40], ["drain", 1], ["adv", 8], ["tilt"], ["adv", 40]],
                  hooks=[{"event": "ball_ending", "prio": 1, "max": 1, "acts": [["wait", 9]]}]))
    # slam tilt during game start, during a ball, during ball ending
    c.append(dict(W0, hooks=[{"event": "game_starting", "prio": 1, "max": 1, "acts": [["slamtilt"]]}], ops=[["adv", 40], ["drain", 1], ["adv", 40]]))
    c.append(dict(W0, ops=[["adv", 40], ["start"], ["adv", 4], ["slamtilt"], ["adv", 8], ["drain", 1], ["adv", 40]]))
    c.append(dict(W0, hooks=[{"event": "ball_ending", "prio": 1, "max": 1, "acts": [["wait", 5], ["slamtilt"]]}], ops=[["adv", 40], ["drain", 1], ["adv", 40]]))
    # wait_for_empty_playfields_on_ball_start: end_ball with the ball still on the playfield; the next ball waits for the drain
    c.append(dict(W0, ops=[["adv", 40], ["endball"], ["adv", 40], ["drain", 1], ["adv", 40]]))
    c.append(dict(W0, wait_empty=False, ops=[["adv", 40], ["endball"], ["adv", 40], ["drain", 1], ["adv", 40], ["drain", 9]]))
    # player 2 through the start button, vetoed once; end_game inside player 2's ball_starting; restart in the real world
    c.append(dict(W0, veto=[False, True, False], ops=[["adv", 8], ["start"], ["adv", 4], ["start"], ["adv", 40], ["drain", 1], ["adv", 40]],
                  hooks=[{"event": "ball_starting", "prio": 1, "max": 1, "player": 2, "acts": [["endgame"]]}]))
    c.append(dict(W0, ops=[["adv", 40], ["restart"], ["adv", 40], ["drain", 9], ["adv", 40]]))
    return c


def run(ctx):
    model = None if getattr(ctx, "model_unavailable", False) else leanproc.LeanProc(ID)
    try:
        for case in corpus() + world_corpus():
            one_case(ctx, model, case)
        nf, nw = ctx.n(650, 7000), ctx.n(380, 3700)
        # the two streams are interleaved so that an early stop (3 failures) has seen both
        for i in range(max(nf, nw)):
            if i < nw:
                one_case(ctx, model, gen_world(ctx.rng("world", i)))
            if i < nf:
                one_case(ctx, model, gen_case(ctx.rng("case", i)))
            if len({f["signature"] for f in ctx.failures if f["signature"] not in KNOWN_SIGS}) >= 3:
                break
    finally:
        if model is not None:
            model.close()


def replay(ctx, rep):
    case = rep["case"]
    res, _ = check_case(case)
    if res is not None:
        ctx.fail(res[0], case, res[1])
