"""C06 - Game lifecycle: turns, balls and lifecycle events are well-formed.

Implementation side: the real Game mode on a real machine (MpfFakeGameTestCase scaffolding: playfield.add_ball stubbed,
num_balls_known set), 1-4 players, 1-4 balls per game; requests injected from handlers of every lifecycle event (above or
below the game's own handlers), from inside queue events whose clear is delayed, and between events: end_ball, end_game,
slam tilt (as the tilt mode does it), balls_in_play = n (also out of range), ball_drain relay events, extra-ball awards,
player-add requests.  Every lifecycle post (with current player and ball) and every request that took effect is logged
and replayed on the Lean model (MpfVerif.Model.Game: the coroutine as a resumable state machine; one `resume` per
lifecycle post; not-enabled = disagreement); balls_in_play, num_players, ending compared after every step.
Oracle (model independent): a recursive-descent recogniser of the lifecycle grammar + the numeric clauses of the property
on the real trace.
"""
from harness.common import leanproc
from harness.common.shrink import ddmin
from harness.common.util import InfraError

ID = "C06"
LEAN_MODULES = ["MpfVerif.Props.C06"]
PROPS_FILE = "MpfVerif/Props/C06.lean"
GEN = []
MANIFEST = {
  "text": "Proof on a Lean model of the coroutine Game._run as a resumable state machine (one pc per awaited lifecycle event; players, current player, per-player ball and extra-ball counts, balls_in_play with its clamping setter, ending, slam tilt, the end-of-ball event) with environment requests (end_ball, end_game, slam tilt, balls_in_play = n, drain, extra ball, player add) arriving at any pc and every resumption an input: for ALL op sequences the emitted lifecycle trace starts with game_will_start and every adjacent pair of events is one the lifecycle grammar allows (game_will_start game_starting game_started turn* game_will_end game_ending game_ended, turn = player_turn_will_start/starting/started ball* player_turn_will_end/ending/ended, ball = ball_will_start/starting/started ball_will_end/ending/ended), the pc is always the last event emitted, 0 <= balls_in_play <= num_balls_known, once end_game has been accepted no further ball_will_start is emitted and ending stays set until game_ended, ball_will_end is only emitted when the end-of-ball event is set, after game_ended the game slot is empty and start is enabled again, and the player rotates 1..n. The model is tied to mpf/modes/game/code/game.py on every check: the real Game mode runs generated request schedules, every lifecycle post and effective request is replayed on the Lean driver (not-enabled = disagreement) and event, player, ball, balls_in_play, num_players, ending are compared step by step; an independent recursive-descent recogniser checks the grammar and the numeric clauses (player rotation, ball numbers, one ball plus one per extra ball, ball ends iff balls_in_play hits zero or an end was requested, bounds, clean end, restartable) on the real trace.",
  "note": "Trusted: Lean kernel + {propext, Classical.choice, Quot.sound}; the hand-written model Model/Game.lean (validated only by the differential runs); the event bus and asyncio are not modelled (when a posted event completes is an input); player add is modelled as immediate; ball devices, ball saves and the playfield are outside (fake-game scaffolding). A slam tilt arriving before a ball has started does not prevent that ball (not claimed).",
  "technique": "Lean 4 theorems (invariants by induction over op sequences) on a hand model + step-replaying differential correspondence with the real Game mode + independent grammar recogniser",
  "translated": False,
 }
RULE = ("cases: balls_per_game 1-4, max_players 1-4, num_balls_known 1-3; 0-5 hooks on lifecycle events (priority above / below "
        "the game's handlers, each firing once or twice) and 2-10 top-level requests: end_ball, end_game, slam, balls_in_play "
        "= n in -1..5, drain 0..3, extra ball, add player, queue delay of 1-9 ticks on the six queue events, advance. "
        "every game is driven to its end (drains) and a second game is started. non-trivial = a request arrived inside a "
        "lifecycle handler or more than one player / an extra ball / an end request occurred. distinct = canonical JSON")
TRUSTED = [
    "modelled, not verified: the event bus and asyncio (each lifecycle post is one resume of the model; when it happens is "
    "taken from the implementation); player_add_request is granted at once (no vetoing handler)",
    "Model/Game.lean is hand-written; tied to mpf/modes/game/code/game.py by correspondence on every run",
]
ASSUMPTIONS = ["no handler vetoes player_add_request; no ball devices / ball save / ball search (fake-game scaffolding)",
               "handlers of lifecycle events do not raise"]

KNOWN_SIGS = ()
GRID = 0.125
LIFE = ["game_will_start", "game_starting", "game_started", "player_turn_will_start", "player_turn_starting",
        "player_turn_started", "ball_will_start", "ball_starting", "ball_started", "ball_will_end", "ball_ending",
        "ball_ended", "player_turn_will_end", "player_turn_ending", "player_turn_ended", "game_will_end", "game_ending",
        "game_ended"]
QUEUE_EVS = ["game_starting", "player_turn_starting", "ball_starting", "ball_ending", "player_turn_ending", "game_ending"]
CONFIG = """
switches:
  s_start:
    number: 1
    tags: start
game:
  balls_per_game: %d
  max_players: %d
"""


class Rec:
    cur = None


def _install():
    from mpf.core import events as evmod
    from mpf.modes.game.code import game as gmod
    EM = evmod.EventManager
    if getattr(EM, "_c06_wrapped", False):
        return
    EM._c06_wrapped = True
    o_post = EM._post

    def post(self, event, ev_type, callback, **kwargs):
        r = Rec.cur
        if r is not None and event in r.life:
            r.posted(event)
        return o_post(self, event, ev_type, callback, **kwargs)
    EM._post = post
    G = gmod.Game
    o_drained = G.ball_drained

    def ball_drained(self, balls=0, **kwargs):
        r = Rec.cur
        res = o_drained(self, balls=balls, **kwargs)
        if r is not None:
            r.env("drain %d" % balls)
        return res
    G.ball_drained = ball_drained
    o_req, o_done = G.request_player_add, G._player_add_request_complete

    def request_player_add(self, **kwargs):
        r = Rec.cur
        res = o_req(self, **kwargs)
        if r is not None and r.machine.game is self and getattr(self, "_end_ball_event", None) is not None:
            r.env("addaccepted" if res else "addrejected")
        return res

    def _player_add_request_complete(self, ev_result=True, **kwargs):
        r = Rec.cur
        res = o_done(self, ev_result=ev_result, **kwargs)
        if r is not None and res:
            r.env("playeradded")
        return res
    G.request_player_add = request_player_add
    G._player_add_request_complete = _player_add_request_complete


class Real:
    def __init__(self, vm, case):
        self.vm, self.case = vm, case
        self.machine = vm.machine
        self.life = set(LIFE)
        self.L = []
        self.deadlines = set()
        self.runs = {}
        self.hooks_off = False
        self.in_handler = 0

    def snap(self):
        g = self.machine.game
        if not g:
            return None
        return (g.balls_in_play, g.num_players, 1 if g.ending else 0)

    def posted(self, event):
        g = self.machine.game
        if event == "game_will_start" and g:
            import asyncio
            rec = self

            class LoggedEvent(asyncio.Event):
                """_start_game touches this event (set or clear) right after its `if self.ending: return`"""
                seen = False

                def _log(self):
                    import sys as _sys
                    if not self.seen and _sys._getframe(2).f_code.co_name == "_start_game":
                        self.seen = True
                        rec.env("startcheck")

                def set(self):
                    self._log()
                    super().set()

                def clear(self):
                    self._log()
                    super().clear()
            g._at_least_one_player_event = LoggedEvent()
        p = g.player if g else None
        self.L.append(("ev", event, p.number if p else 0, p.ball if p else 0, self.snap()))

    def env(self, what):
        g = self.machine.game
        p = g.player if g else None
        self.L.append(("env", what, self.snap(), self.in_handler > 0, p.number if p else 0))

    def deadline(self, ticks):
        t = round(self.vm.now() / GRID) + max(1, ticks)
        while t in self.deadlines:
            t += 1
        self.deadlines.add(t)
        return t * GRID - self.vm.now()

    def act(self, a, queue=None):
        g = self.machine.game
        k = a[0]
        if k == "adv":
            self.vm.advance(GRID * a[1])
            return
        if k == "wait":
            if queue is not None:
                queue.wait()
                self.machine.delay.add(ms=self.deadline(a[1]) * 1000, callback=queue.clear)
            return
        if k == "drain":
            self.machine.events.post_relay("ball_drain", balls=a[1])    # logged when Game.ball_drained really runs
            return
        if not g:
            return
        if k == "endball":
            g.end_ball()
            self.env("endball")
        elif k == "endgame":
            g.end_game()
            self.env("endgame")
        elif k == "slam":
            g.slam_tilted = True
            g.end_ball()
            self.env("slam")
        elif k == "setbip":
            g.balls_in_play = a[1]
            self.env("setbip %d" % a[1])
        elif k == "extraball":
            if g.player:
                g.player.extra_balls += 1
                self.env("extraball")
        elif k == "addplayer":
            g.request_player_add()      # logged by the wrappers: accepted / rejected now, player added later
        else:
            raise InfraError("bad act %r" % (a,))

    def install_hooks(self):
        for i, h in enumerate(self.case["hooks"]):
            def handler(_h=h, _i=i, **kwargs):
                if self.hooks_off or self.runs.get(_i, 0) >= _h["max"]:
                    return
                self.runs[_i] = self.runs.get(_i, 0) + 1
                self.in_handler += 1
                try:
                    for a in _h["acts"]:
                        self.act(a, queue=kwargs.get("queue"))
                finally:
                    self.in_handler -= 1
            self.machine.events.add_handler(h["event"], handler, h["prio"])

    def start_game(self):
        self.vm.hit_switch("s_start", 1)
        self.vm.run()
        self.vm.hit_switch("s_start", 0)
        self.vm.advance(GRID * 8)

    def finish_game(self):
        """drain until the game is over (bounded)"""
        for _ in range(80):
            g = self.machine.game
            if not g:
                return True
            if g.balls_in_play > 0:
                self.act(["drain", g.balls_in_play])
            self.vm.advance(GRID * 12)
        return False

    def run(self):
        crash = None
        Rec.cur = self
        try:
            m = self.machine

            def _add_ball(**kwargs):      # no ball devices: the playfield stays empty, balls_in_play is the game's own count
                pass
            m.playfield.add_ball = _add_ball
            m.ball_controller.num_balls_known = self.case["known"]
            self.install_hooks()
            self.vm.align()
            self.start_game()
            for op in self.case["ops"]:
                self.act(op)
                self.vm.advance(GRID)
            self.over = self.finish_game()
            self.L.append(("q", self.snap()))
            self.hooks_off = True
            self.L.append(("second",))
            self.start_game()
            self.restarted = self.machine.game is not None
            self.L.append(("q", self.snap()))
        except InfraError:
            raise
        except Exception as e:
            crash = "%s: %s" % (type(e).__name__, str(e)[:300])
        finally:
            Rec.cur = None
        return crash


def run_real(case):
    from harness.common.vmachine import VMachine, BootError
    _install()
    try:
        vm = VMachine(CONFIG % (case["bpg"], case["maxp"]), game=True).start()
    except BootError as e:
        return None, "boot: " + str(e)[:300]
    try:
        real = Real(vm, case)
        crash = real.run()
        return real, crash
    finally:
        vm.stop()


# ---------------------------------------------------------------------------------------------------------------------
# oracle: recursive-descent recogniser + numeric clauses, on the real trace of the first game
# ---------------------------------------------------------------------------------------------------------------------
class Reject(Exception):
    def __init__(self, sig, detail):
        self.sig, self.detail = sig, detail


class Parser:
    def __init__(self, case, items):
        self.case = case
        self.items = items       # ("ev", name, player, ball, snap) | ("env", what, snap, in_handler)
        self.i = 0
        self.ball_of = {}
        self.extra = {}
        self.end_req = False     # end_game accepted
        self.slam = False
        self.trigger = False     # a reason for the current ball to end exists
        self.bip = 0
        self.in_ball_wait = False
        self.cur = 0
        self.players = 0
        self.start_checked = False
        self.end_req_at_check = False

    def envs(self):
        """consume requests between lifecycle events, tracking what they mean for the numeric clauses"""
        while self.i < len(self.items) and self.items[self.i][0] == "env":
            _, what, snap, _, curnum = self.items[self.i]
            w = what.split()
            if snap is not None:
                if not 0 <= snap[0] <= self.case["known"]:
                    raise Reject("bip-out-of-bounds", {"balls_in_play": snap[0], "after": what})
                if self.bip > 0 and snap[0] == 0:
                    self.trigger = True
                self.bip = snap[0]
                self.players = snap[1]
            if w[0] == "startcheck":
                self.start_checked = True
                if self.end_req:
                    raise Reject("game-started-after-end-request", {"at": "start check"})
            if w[0] == "endball":
                self.trigger = True
            elif w[0] == "endgame":
                self.trigger = True
                self.end_req = True
                if not self.start_checked:
                    self.end_req_at_check = True
            elif w[0] == "slam":
                self.trigger = True
                self.slam = True
            elif w[0] == "extraball" and curnum:
                self.extra[curnum] = self.extra.get(curnum, 0) + 1
            self.i += 1

    def expect(self, name, player=None, ball=None):
        self.envs()
        if self.i >= len(self.items):
            raise Reject("trace-incomplete", {"expected": name, "trace_tail": [x[1] for x in self.items[-6:]]})
        it = self.items[self.i]
        if it[1] != name:
            sig = "grammar"
            if it[1] == "ball_will_start" and self.end_req:
                sig = "ball-after-end-request:" + ("extra-ball" if name == "player_turn_will_end" and self.items[self.i - 1][1] == "ball_ended" else "turn-start")
            raise Reject(sig, {"expected": name, "got": it[1], "at": self.i, "before": [x[1] for x in self.items[max(0, self.i - 5):self.i]]})
        if player is not None and (it[2], it[3]) != (player, ball):
            raise Reject("numbers", {"event": name, "expected": [player, ball], "got": [it[2], it[3]]})
        if it[4] is not None and not 0 <= it[4][0] <= self.case["known"]:
            raise Reject("bip-out-of-bounds", {"balls_in_play": it[4][0], "at": name})
        if it[4] is not None:
            if self.bip > 0 and it[4][0] == 0:
                self.trigger = True
            self.bip = it[4][0]
            self.players = it[4][1]
        self.i += 1
        return it

    def peek(self):
        self.envs()
        return self.items[self.i][1] if self.i < len(self.items) else None

    def game(self):
        self.expect("game_will_start", 0, 0)
        self.expect("game_starting")
        nx = self.peek()
        if not self.start_checked:
            # end_game() before _start_game looked at `ending`: the game ends without having started (no player needed)
            if not self.end_req_at_check:
                raise Reject("game-start-abandoned-without-end-request", {"next": nx})
            if nx != "game_will_end":
                raise Reject("game-started-after-end-request", {"next": nx})
        else:
            self.expect("game_started", 1, 0)
            while self.peek() == "player_turn_will_start":
                self.turn()
        self.expect("game_will_end")
        self.expect("game_ending")
        self.expect("game_ended")
        self.envs()

    def turn(self):
        it = self.items[self.i]
        players = it[4][1]
        nxt = 1 if self.cur == 0 or self.cur >= players else self.cur + 1
        if self.end_req:
            raise Reject("turn-after-end-request", {"at": self.i})
        p, b0 = nxt, self.ball_of.get(nxt, 0)
        b = b0 + 1          # the ball number counts from the beginning of the turn
        if b > self.case["bpg"]:
            raise Reject("ball-number-exceeds-balls-per-game", {"player": p, "ball": b, "balls_per_game": self.case["bpg"]})
        self.ball_of[p] = b
        self.expect("player_turn_will_start", p, b)
        self.cur = p
        self.expect("player_turn_starting", p, b)
        self.expect("player_turn_started", p, b)
        first = True
        while True:
            nx = self.peek()
            want_ball = (first and not self.end_req) or \
                (not first and self.extra.get(p, 0) > 0 and not self.slam and not self.end_req)
            if nx == "ball_will_start":
                if self.end_req:
                    raise Reject("ball-after-end-request:" + ("turn-start" if first else "extra-ball"), {"player": p, "ball": b})
                if not want_ball:
                    raise Reject("unexpected-ball", {"player": p, "ball": b, "extra": self.extra.get(p, 0)})
                if not first:
                    self.extra[p] -= 1
                self.ball(p, b)
                first = False
            else:
                if want_ball:
                    raise Reject("ball-missing", {"player": p, "ball": b, "first": first, "extra": self.extra.get(p, 0), "next": nx})
                break
        self.expect("player_turn_will_end", p, b)
        self.expect("player_turn_ending", p, b)
        self.expect("player_turn_ended", p, b)
        nx = self.peek()     # consumes the requests made in player_turn_ended handlers (a player may have been added)
        last = self.slam or (b >= self.case["bpg"] and p == self.players)
        if (last or self.end_req) and nx == "player_turn_will_start":
            raise Reject("turn-after-last-ball", {"player": p, "ball": b})
        if not (last or self.end_req) and nx == "game_will_end":
            raise Reject("game-ended-early", {"player": p, "ball": b})

    def ball(self, p, b):
        self.envs()
        self.trigger = self.end_req     # _run_ball clears the end-of-ball event just before ball_will_start
        self.expect("ball_will_start", p, b)
        self.expect("ball_starting", p, b)
        it = self.expect("ball_started", p, b)
        if it[4][0] != min(1, self.case["known"]):
            raise Reject("bip-at-ball-start", {"balls_in_play": it[4][0]})
        self.envs()
        if self.peek() == "ball_will_end" and not self.trigger:
            raise Reject("ball-ended-without-reason", {"player": p, "ball": b})
        self.expect("ball_will_end", p, b)
        self.expect("ball_ending", p, b)
        self.expect("ball_ended", p, b)
        self.trigger = False


def oracle(case, real, crash):
    if real is None or crash is not None:
        return "crash", {"error": crash}
    L = real.L
    cut = L.index(("second",))
    first = [e for e in L[:cut] if e[0] in ("ev", "env")]
    try:
        if not real.over:
            raise Reject("game-not-ended", {"trace_tail": [x[1] for x in first][-8:]})
        ps = Parser(case, first)
        ps.game()
        if ps.i != len(first):
            raise Reject("grammar", {"trailing": [x[1] for x in first[ps.i:ps.i + 5]]})
        q = [e for e in L[:cut] if e[0] == "q"][-1]
        if q[1] is not None:
            raise Reject("game-slot-not-empty", {})
        second = [e for e in L[cut:] if e[0] == "ev"]
        if not real.restarted or not second or second[0][1] != "game_will_start":
            raise Reject("not-restartable", {"second": [x[1] for x in second[:4]]})
    except Reject as r:
        return r.sig, r.detail
    return None


def is_nontrivial(real):
    if real is None:
        return False
    return any(e[0] == "env" and (e[3] or e[1].split()[0] in ("endgame", "slam", "extraball", "playeradded")) for e in real.L)


# ---------------------------------------------------------------------------------------------------------------------
def gen_case(r):
    def act():
        x = r.random()
        if x < 0.16:
            return ["endball"]
        if x < 0.28:
            return ["endgame"]
        if x < 0.33:
            return ["slam"]
        if x < 0.5:
            return ["setbip", r.choice([-1, 0, 0, 1, 2, 3, 5])]
        if x < 0.66:
            return ["drain", r.choice([0, 1, 1, 2, 3])]
        if x < 0.82:
            return ["extraball"]
        return ["addplayer"]
    hooks = []
    for _ in range(r.choice([0, 1, 2, 2, 3, 4, 5])):
        ev = r.choice(LIFE[:-1])        # not game_ended: the coroutine is over, machine.game is about to be cleared
        acts = [act() for _ in range(r.choice([1, 1, 2]))]
        if ev in QUEUE_EVS and r.random() < 0.4:
            acts.insert(r.choice([0, len(acts)]), ["wait", r.choice([1, 2, 5, 9])])
        hooks.append({"event": ev, "prio": r.choice([1, 1, 100000]), "max": r.choice([1, 1, 2]), "acts": acts})
    ops = []
    for _ in range(r.randint(2, 10)):
        ops.append(act() if r.random() < 0.75 else ["adv", r.choice([1, 4, 12])])
    return {"kind": "game", "bpg": r.choice([1, 2, 3, 3, 4]), "maxp": r.choice([1, 2, 4]), "known": r.choice([1, 2, 3, 3]),
            "hooks": hooks, "ops": ops}


def schedule(case, real):
    ops, exp = ["reset %d %d %d" % (case["bpg"], case["maxp"], case["known"])], ["ok"]
    last_ev = None
    for e in real.L:
        if e[0] == "ev":
            last_ev = e[1]
            ops.append("start" if e[1] == "game_will_start" else "resume")
            s = e[4]
            exp.append("%s:%d:%d | bip=%d players=%d ending=%d" % (e[1], e[2], e[3], s[0], s[1], s[2]))
        elif e[0] == "env":
            ops.append(e[1])
            s = e[2]
            exp.append("| bip=%d players=%d ending=%d" % (s[0], s[1], s[2]) if s else "not-enabled")
        elif e[0] == "q":
            if last_ev == "game_ended" and e[1] is None:
                ops.append("finish")
                exp.append("ok")
                last_ev = None
            ops.append("state")
            exp.append("game=%d" % (1 if e[1] is not None else 0))
    return ops, exp


def run_model(model, ops):
    out = []
    for o in ops:
        a = model.ask(o)
        if a == "bad-op":
            raise InfraError("model rejected %r" % o)
        out.append(a)
    return out


def check_case(case):
    real, crash = run_real(case)
    return oracle(case, real, crash), real


def shrink(case, sig):
    units = [("h", i) for i in range(len(case["hooks"]))] + [("o", i) for i in range(len(case["ops"]))]

    def restrict(us):
        keep = set(us)
        return dict(case, hooks=[h for i, h in enumerate(case["hooks"]) if ("h", i) in keep],
                    ops=[o for i, o in enumerate(case["ops"]) if ("o", i) in keep])

    def fails(us):
        res, _ = check_case(restrict(us))
        return res is not None and res[0] == sig
    small = restrict(ddmin(units, fails, max_tests=60))
    res, _ = check_case(small)
    if res is None or res[0] != sig:
        return case, None
    return small, res


def one_case(ctx, model, case, sample=True):
    real, crash = run_real(case)
    ctx.evaluated(case, is_nontrivial(real), sample=sample)
    if real is not None:
        for e in real.L:
            if e[0] == "env":
                ctx.count("req_" + e[1].split()[0] + ("_in_handler" if e[3] else ""))
            elif e[0] == "ev":
                ctx.count("events")
    res = oracle(case, real, crash)
    if res is not None:
        if res[0] in KNOWN_SIGS and any(f["signature"] == res[0] for f in ctx.failures):
            ctx.count("known_" + res[0])        # recorded (and shrunk) once per run
            return
        small, r2 = shrink(case, res[0])
        ctx.fail(res[0], small, (r2 or res)[1])
        return
    if model is not None:
        ops, exp = schedule(case, real)
        got = run_model(model, ops)
        bad = [k for k in range(len(ops)) if exp[k] != got[k]]
        ctx.compare(dict(case, what="step replay", first_diff=([ops[bad[0]], bad[0]] if bad else None)), exp, got)


def corpus():
    c = []
    # D19: end_game() from a player_turn_starting handler
    c.append({"kind": "game", "bpg": 3, "maxp": 2, "known": 3, "ops": [["adv", 4]],
              "hooks": [{"event": "player_turn_starting", "prio": 1, "max": 1, "acts": [["endgame"]]}]})
    # D20: end_game() during a ball with an extra ball pending
    c.append({"kind": "game", "bpg": 3, "maxp": 2, "known": 3, "ops": [["extraball"], ["adv", 2], ["endgame"], ["adv", 8]], "hooks": []})
    # two players, an extra ball, delayed queue events, out-of-range balls_in_play
    c.append({"kind": "game", "bpg": 2, "maxp": 4, "known": 2,
              "ops": [["addplayer"], ["setbip", 5], ["extraball"], ["drain", 1], ["adv", 12], ["setbip", -1], ["adv", 12]],
              "hooks": [{"event": "ball_ending", "prio": 100000, "max": 2, "acts": [["wait", 5], ["addplayer"]]},
                        {"event": "ball_starting", "prio": 1, "max": 2, "acts": [["wait", 2], ["endball"]]}]})
    # (fixed) end_game() in a game_will_start handler: the game used to wait for its first player for ever
    c.append({"kind": "game", "bpg": 3, "maxp": 2, "known": 3, "ops": [["adv", 4], ["addplayer"]],
              "hooks": [{"event": "game_will_start", "prio": 1, "max": 1, "acts": [["endgame"]]}]})
    # (fixed) a player added inside player_turn_starting of player 1's second turn (guard sees ball 1)
    c.append({"kind": "game", "bpg": 3, "maxp": 4, "known": 2, "ops": [["drain", 1], ["addplayer"]],
              "hooks": [{"event": "player_turn_starting", "prio": 100000, "max": 2, "acts": [["setbip", 0], ["wait", 5]]}]})
    return c


def run(ctx):
    model = None if getattr(ctx, "model_unavailable", False) else leanproc.LeanProc(ID)
    try:
        for case in corpus():
            one_case(ctx, model, case)
        for i in range(ctx.n(1000, 12000)):
            one_case(ctx, model, gen_case(ctx.rng("case", i)))
            if len([f for f in ctx.failures if f["signature"] not in KNOWN_SIGS]) >= 3:
                break
    finally:
        if model is not None:
            model.close()


def replay(ctx, rep):
    case = rep["case"]
    res, _ = check_case(case)
    if res is not None:
        ctx.fail(res[0], case, res[1])
