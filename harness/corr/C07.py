"""C07 - Mode lifecycle is well-formed and leaves nothing behind.

Implementation side: generated sets of real modes (game and non-game, with/without use_wait_queue, plain or with mode
devices - counter, timer, shot - and config players - event_player, variable_player, light_player) on a real machine;
start/stop requests direct, by event, by queue event, from handlers of the modes' own lifecycle events (optionally holding
the starting/stopping queue event open for some ticks), by ball end (game modes); user code of the mode registering
handlers / switch handlers / delays on the mode at any moment of its life; mode devices with delayed control events (dict
form) whose events are posted shortly before the mode stops - every DelayManager of the machine is tracked, the pending
call is an owned delay of the mode in the model (adddl / firedl).  Config players (light / show / coil / event / variable
player) keyed on an event the harness posts as a QUEUE event while a far higher handler holds the queue open and the mode
stops: every call of ConfigPlayer.config_play_callback and whether it went on to play() is logged (model: cfgplay), and what
players record under a mode's context (light stacks, instances[context]) is a registry of its own (fx).  Conditional entries
("{condition}": template subscriptions, event{condition}, conditional start events) with the variables changing at any time
(model: cfgsub).  Delays and periodic tasks owned by mode devices are logged at DelayManager.add/remove/_process_delay_callback
and clock.schedule_interval/unschedule (model: addtm / remtm / firetm, registry tm).  Custom mode code
(harness/common/modecode_c07.py), persist_state devices, restart_on_next_ball, dict-form stop events.  Start requests that
carry a priority (Mode.start(mode_priority=N), the start event posted with a mode_priority kwarg) repeated while the mode is
active / starting / stopping with priorities around those of the other modes (a request that is turned down must change nothing;
active_modes is checked against mode.priority after every lifecycle call and every posted lifecycle event).  Delays of the mode
pending at the stop with the mode_<n>_stopping queue held open across their deadlines.  Device control events (direct and dict
form with a delay) and handlers of mode code (add_mode_event_handler) keyed on the held queue event qe_<n>: every call of
Mode._direct_control_event_handler / _control_event_handler and whether it acted is logged (model: ctlcall).
Every call of Mode.start/_started/_mode_started_callback/stop/_stopped/_mode_stopped_callback that actually happened is
logged (class-level wrappers installed from this process) and replayed as the schedule of the Lean model
(MpfVerif.Model.Mode), which answers not-enabled when that step could not happen then; posted lifecycle events, flags,
active_modes and the registries (canonical dump of events.registered_handlers, switch_controller.registered_switches,
every DelayManager.delays; mode footprints calibrated once per configuration) are compared at every quiescent point.
Oracle (model independent): the three clauses of the property on the real machine.
API requests with a callback (Mode.start(callback=cb) / Mode.stop(callback=cb), a fresh recording callback per request): the
callback of an accepted request is called exactly once, for the request it was given to, never again in a later cycle; that of
a request that was turned down never (callback_oracle; not part of the Lean model).
"""
import re

from harness.common import leanproc
from harness.common.shrink import ddmin
from harness.common.util import InfraError

ID = "C07"
LEAN_MODULES = ["MpfVerif.Props.C07"]
PROPS_FILE = "MpfVerif/Props/C07.lean"
GEN = []
MANIFEST = {
  "text": "Proof on a Lean model of Mode.start/_started/_mode_started_callback/stop/_stopped/_mode_stopped_callback, ModeController.set_mode_state and five registries (event handlers incl. the one-shot handler ModeController._player_turn_ended registers on mode_<n>_started for a game mode still starting at turn end; switch handlers; delays incl. pending delayed control-event calls of mode devices; what config players record under the mode's context - light stack entries, show instances, enabled coils; delays and periodic tasks owned by mode devices - timer ticks and pauses, logic-block timeouts, sequence-shot timeouts, shot delay switches, ball-save timers; every entry tagged with its owning mode and the mechanism that removes it) with every scheduler choice (which pending callback runs next, what user code registers when, when an entry of a config player is called - also from the snapshot of a queue event's handler list taken before the mode stopped -, when a conditional entry is re-evaluated, when a device schedules, cancels or fires a timer) an input: for ALL op sequences the lifecycle events posted for a mode form a prefix of (will_start starting started will_stop stopping stopped)*, active_modes is duplicate-free, contains exactly the modes whose active flag is set and is strictly sorted by (priority, name) descending, and whenever a mode's stop completes (its cleanup runs, in _mode_stopped_callback or at the beginning of a restart requested from a mode_<n>_stopped handler) no entry of the stopped run owned by it is left in any of the five registries (a restarted mode owns exactly its fresh footprint and the late callback of the previous stop touches nothing) while entries of other modes are untouched, hence any number of complete cycles restores the registries; a config-player entry called for a mode that is not active changes nothing and nothing is recorded under the context of a mode that is neither starting nor active (config_player_effects_die_with_mode); a device timer exists only while its mode's devices are loaded and none is left after the cleanup (device_timers_die_with_mode); accepted starts/stops become pending steps that are enabled; a start request that the guards turn down (outside a game, already active - incl. stopping -, already starting) changes nothing, whatever priority it carries, and a mode's priority changes only at an accepted start and at _stopped (refused_start_changes_nothing, refused_start_while_stopping, priority_changes_only_at_accepted_start_or_stopped), so active_modes - re-sorted only on active/inactive transitions - stays ordered; an accepted stop cancels the mode's delays and switch handlers at once, none of them can fire while the stopping queue is held (accepted_stop_cancels_delays); a device control event handler (direct or delayed form) called for a mode that is neither starting nor active - from a queue event's snapshot - does nothing (stale_control_event_has_no_effect). The model is tied to mpf/core/mode.py, mode_controller.py, config_player.py (config_play_callback, subscriptions, mode_stop/clear_context) and the device-owned DelayManagers on every check: generated mode sets run on a real machine, the observed call schedule is replayed on the Lean driver (not-enabled = disagreement; played/skipped of every config_play_callback compared), posted events, flags, active_modes and canonical dumps of all five registries are compared at every quiescent point; an independent oracle checks the three clauses of the property on the real machine incl. light stacks and every config player's instances[context]. Oracle only (the Lean model has no callbacks; the start / stop call itself goes through the model like any other): start and stop requests made through the API with a callback (Mode.start(callback=cb), Mode.stop(callback=cb), a fresh recording cb per request, mixed with event-driven and plain requests, from the top level and from lifecycle handlers, accepted and turned down) - the callback of an accepted request is called exactly once, for that request (start callback of the k-th accepted start: not before k mode_<n>_started events have been posted; stop callback: before the next start begins), never a second time on a later start or stop, and the callback of a request that was turned down is never called; after the case every mode that got a start with a callback is asked to start once more without one (a game mode follows only while the game is still running), so a callback still held by a stopped mode would be seen firing.",
  "note": "Trusted: Lean kernel + {propext, Classical.choice, Quot.sound}; the hand-written model Model/Mode.lean (validated only by the differential runs); the event bus (C01/C02) is not re-modelled: which callback runs when is an input. Mode footprints (which handlers a configuration registers in start / on started and which mechanism removes them) are calibrated on the real machine, not derived. Not claimed: a stop requested from a mode_<n>_started handler runs mode_stop before mode_start when mode_<n>_stopping has no handlers (custom mode code only). Decision on stale calls from a queue event's snapshot: the property speaks about the registries, so a handler of mode code (add_mode_event_handler) that is called after the mode removed it is counted (observation_stale_call_from_queue_snapshot), not failed on; what such a call LEAVES in a registry of a stopped mode (a delay, a device timer, an enabled device's handlers) or a crash is a failure - device control events registered by the mode did exactly that and were repaired (guard in Mode._direct_control_event_handler / _control_event_handler). NOT generated because still defective on the real code (reported): handlers a device registers by itself and that start timers - Timer control_events, SequenceShot event_sequence / delay_event_list - called from such a snapshot start a timer for a stopped mode. A delay or handler firing between the accepted stop and _stopped is outside the property's text ('once a mode has stopped'): counted (observation_fired_while_stopping) and, for delays that were pending at the stop, reported by the correspondence (the model cancels them in stop); values a player merely remembers per context (event_player keeps the last value of a conditional entry and never clears it) are counted, not failed on.",
  "technique": "Lean 4 theorems (invariants by induction over op sequences) on a hand model + schedule-replaying differential correspondence with real modes + independent oracle",
  "translated": False,
 }
RULE = ("cases: 1-3 modes drawn from a pool (priorities with ties, game / non-game, use_wait_queue, flavours plain / devices "
        "(counter, timer, event_player) / game devices (shot, variable_player, light_player, counter) / devices with DELAYED "
        "control events in dict form (counter, accrual, shot: enable/disable/reset/restart/advance_events: {ev: 125ms..1s}, "
        "posted at grid instants 0-3 ticks before a stop / stop event / ball end) / devices with their OWN delay manager or "
        "periodic task (timers incl. timed pauses and every control-event action, sequence-shot timeouts, shot delay "
        "switches, ball saves: bursts 'start the timer, pause/add/reset, stop the mode inside the pause'; oracle: no device "
        "event after the mode stopped, no periodic task left; every add/remove/fire on a device-owned DelayManager and "
        "schedule_interval/unschedule is an op of the model) / config players (light, show, coil, event, variable player) keyed "
        "on an event qe_<n> posted as a QUEUE event with a handler at priority 100000 holding the queue 0/3/6/10 ticks while the "
        "mode stops (direct, stop event, ball end) and possibly starts again before the release / conditional entries "
        "({condition} template subscriptions over one and two machine variables and a player variable, event{condition}, "
        "conditional start event; variables set before, during and after the mode's run, also from lifecycle hooks; at most "
        "one such mode per case) / persist_state counters, accruals, shots with restart_on_next_ball / custom mode code "
        "(mode_start and mode_stop registering a handler, a switch handler, a delay and posting events; stop events in dict "
        "form with a delay), game modes whose starting queue event is "
        "held open across one or two turn ends (ball end; also the game ending first), 0-4 hooks on "
        "lifecycle events (start/stop of any mode, delay / handler / switch handler registered on the mode, wait+clear "
        "later on queue events, priority above or below the mode's own handlers), 3-14 top-level ops (start, stop, start/"
        "stop event, start by queue event, user registrations, advance, ball end), 1-5 cycles. non-trivial = at least one "
        "mode completed a full start..stopped cycle and (a hook acted, or two modes overlapped, or a request was ignored, "
        "or a queue event was held open); game-mode cases where no mode became active are counted trivial. "
        "Also: device control events (counter count/enable/reset with a delay, accrual events, shot advance/enable with a delay, "
        "ball save enable) and 0-2 handlers of mode code keyed on the held queue event qe_<n>, the mode stopping completely during "
        "the hold; 0-2 priority bursts per case (start with mode_priority direct and through the start event with a mode_priority "
        "kwarg, priorities = those of the case's modes and 150/250 +-0/1/50, repeated 1-3 times while active, 1-2 times while "
        "starting (starting queue held) and while stopping (stopping queue held) or just stopped); in 30% of the cases 1-3 delays "
        "of a mode pending at its stop with the stopping queue held 4/8/12 ticks across their deadlines. "
        "API requests with a callback: about half of the direct start / stop requests of a case (top level and in hooks) carry a "
        "fresh recording callback (op forms [start, m, prio, cb] / [stop, m, cb]); in 60% of the cases a burst 'start with callback, "
        "stop (plain / with callback / stop event), start again without a callback (start event / direct / queue event) or with "
        "another one, stop with a callback once or twice'; after the settle phase one more start without a callback for every mode "
        "that got a start with one. "
        "distinct = canonical JSON of the case")
TRUSTED = [
    "modelled, not verified: the event bus and asyncio (the order in which posted events, queue-event tasks and callbacks "
    "run is logged from the implementation and given to the model as its schedule; the model decides enabledness only)",
    "mode footprints (handlers registered by devices / config players of a mode configuration) are calibrated on the "
    "real machine in one isolated cycle per mode and only their presence per removal mechanism is modelled",
    "Model/Mode.lean is hand-written; tied to mpf/core/mode.py, mode_controller.py, config_player.py by correspondence on every run",
    "observation points are made quiescent by running what is READY on the loop (call_soon callbacks) without letting time "
    "pass: a cancelled subscription's handlers go one loop iteration after _stopped",
    "a footprint entry of a mode started with an explicit priority is matched at the configured priority shifted by 0, 1x or 2x "
    "the difference (device-registered, add_mode_event_handler, ModeDevice.add_control_events_in_mode respectively)",
    "which config-player sections leave something under the context (light/show/coil) and which only act (event/variable "
    "player) is a table of the harness (SECTIONS); subscription handlers (EventManager._wait_handler) carry no owner, so "
    "at most one mode with conditional entries is generated per case",
]
ASSUMPTIONS = ["handlers, delays and switch handlers registered on behalf of a mode are registered between its start() and "
               "its _mode_stopped_callback (mode code does not register things on a mode that is not running)",
               "no exception escapes a handler; the machine is not shutting down",
               "a mode device schedules delays / periodic tasks only while it is loaded in its mode (addTm is not enabled otherwise: "
               "the correspondence reports a device that does); conditional entries are re-evaluated only between start() and "
               "_stopped (cfgSub likewise)"]

GRID = 0.125
TURN_END_CB = "ModeController._stop_mode_started_at_turn_end"
PHASES = ["will_start", "starting", "started", "will_stop", "stopping", "stopped"]
ABBR = {"will_start": "ws", "starting": "sg", "started": "sd", "will_stop": "wp", "stopping": "pg", "stopped": "pd"}
EV_RE = re.compile(r"^mode_(m\d)_(will_start|starting|started|will_stop|stopping|stopped)$")

BASE_CONFIG = """
switches:
  s_start:
    number: 1
    tags: start
  s_c07:
    number: 2
  s_shot:
    number: 3
lights:
  l_c07:
    number: 1
  l_c07b:
    number: 2
coils:
  k_c07:
    number: 1
    allow_enable: true
game:
  balls_per_game: 5
modes:
%s
"""

FLAVOURS = {
    "plain": "",
    "dev": """
event_player:
  mode_{n}_started: {n}_hello
  ping_{n}: pong_{n}
counters:
  c_{n}:
    count_events: cnt_{n}
    count_complete_value: 3
    events_when_complete: c_{n}_done
    reset_on_complete: true
timers:
  t_{n}:
    start_value: 0
    end_value: 50
    tick_interval: 1s
    start_running: true
""",
    "dev2": """
event_player:
  ping_{n}:
    - pong_{n}
    - pang_{n}
counters:
  c_{n}:
    count_events: cnt_{n}
    enable_events: en_{n}
    disable_events: dis_{n}
    count_complete_value: 2
    events_when_complete: c_{n}_done
accruals:
  a_{n}:
    events:
      - x_{n}
      - y_{n}
    events_when_complete: a_{n}_done
""",
    "timeout": """
counters:
  c_{n}:
    count_events: cnt_{n}
    count_complete_value: 3
    logic_block_timeout: 2s
""",
    "dly": """
counters:
  c_{n}:
    count_events: cnt_{n}
    count_complete_value: 3
    start_enabled: false
    enable_events:
      arm_{n}: 250ms
    disable_events:
      dis_{n}: 500ms
    reset_events:
      rst_{n}: 1s
    restart_events: rsn_{n}
accruals:
  a_{n}:
    events:
      - x_{n}
      - y_{n}
    reset_events:
      rst_{n}: 375ms
""",
    "gamedly": """
shots:
  sh_{n}:
    switch: s_shot
    advance_events:
      arm_{n}: 250ms
    reset_events:
      rst_{n}: 1s
    restart_events:
      dis_{n}: 500ms
counters:
  c_{n}:
    count_events: cnt_{n}
    count_complete_value: 2
    reset_events:
      rsn_{n}: 125ms
""",
    "timer": """
timers:
  t_{n}:
    start_value: 0
    end_value: 40
    tick_interval: 250ms
    start_running: false
    control_events:
      - event: tstart_{n}
        action: start
      - event: tstop_{n}
        action: stop
      - event: tpause_{n}
        action: pause
        value: 2
      - event: tpause0_{n}
        action: pause
        value: 0
      - event: treset_{n}
        action: reset
      - event: tadd_{n}
        action: add
        value: 3
""",
    "timerrun": """
timers:
  t_{n}:
    start_value: 0
    end_value: 40
    tick_interval: 250ms
    start_running: true
    control_events:
      - event: tstart_{n}
        action: start
      - event: tstop_{n}
        action: stop
      - event: tpause_{n}
        action: pause
        value: 2
      - event: tpause0_{n}
        action: pause
        value: 0
      - event: treset_{n}
        action: reset
      - event: tadd_{n}
        action: add
        value: 3
""",
    "gametimer": """
timers:
  t_{n}:
    start_value: 0
    end_value: 40
    tick_interval: 250ms
    start_running: false
    control_events:
      - event: tstart_{n}
        action: start
      - event: tstop_{n}
        action: stop
      - event: tpause_{n}
        action: pause
        value: 2
      - event: tpause0_{n}
        action: pause
        value: 0
      - event: treset_{n}
        action: reset
      - event: tadd_{n}
        action: add
        value: 3
sequence_shots:
  ss_{n}:
    event_sequence: e1_{n}, e2_{n}
    sequence_timeout: 1s
    delay_event_list:
      e1d_{n}: 1s
shots:
  sh_{n}:
    switch: s_shot
    delay_switch:
      s_c07: 1s
ball_saves:
  bs_{n}:
    active_time: 2s
    hurry_up_time: 500ms
    grace_period: 500ms
    enable_events: bsen_{n}
""",
    # config players keyed on an event qe_<n> that the harness posts as a QUEUE event while a higher-priority handler holds
    # the queue: the snapshot of the handler list still contains the entries when the mode stops during the hold
    "cfgq": """
light_player:
  qe_{n}:
    l_c07: red
show_player:
  qe_{n}: sh_c07
event_player:
  qe_{n}: qpong_{n}
coil_player:
  qe_{n}:
    k_c07: enable
""",
    "gamecfgq": """
light_player:
  qe_{n}:
    l_c07b: blue
  mode_{n}_started:
    l_c07: red
show_player:
  qe_{n}:
    sh_c07:
      loops: 1
variable_player:
  qe_{n}:
    score: 100
event_player:
  qe_{n}: qpong_{n}
""",
    # handlers of the mode OTHER than config-player entries keyed on the queue event qe_<n>: device control events (direct and
    # with a delay), a timer control event; user code adds handlers on qe_<n> as well (op addhq)
    "ctlq": """
counters:
  c_{n}:
    count_events: qe_{n}
    count_complete_value: 3
    events_when_complete: c_{n}_done
    start_enabled: false
    enable_events: qe_{n}, en_{n}
    disable_events: dis_{n}
    reset_events:
      qe_{n}: 250ms
accruals:
  a_{n}:
    events:
      - qe_{n}
      - y_{n}
    events_when_complete: a_{n}_done
""",
    "gamectlq": """
shots:
  sh_{n}:
    switch: s_shot
    advance_events: qe_{n}
    disable_events: dis_{n}
    enable_events:
      qe_{n}: 250ms
counters:
  c_{n}:
    count_events: qe_{n}
    count_complete_value: 2
ball_saves:
  bs_{n}:
    active_time: 2s
    enable_events: qe_{n}
""",
    # conditional entries: "{{condition}}" keys are template SUBSCRIPTIONS (EventManager.wait_for_event handlers on
    # machine_var_* / player_* events, re-made whenever a variable changes, cancelled by unload_player_events),
    # event{{condition}} keys are handler conditions; the mode's start_events carry a condition as well
    "cond": """
light_player:
  "{{machine.c07a==1 and machine.c07b==2}}":
    l_c07: red
event_player:
  "{{machine.c07a==1}}": cpong_{n}
  ping_{n}{{machine.c07b==2}}: pong_{n}
show_player:
  "{{machine.c07b==2}}": sh_c07
""",
    "gamecond": """
light_player:
  "{{current_player.c07p==1 and machine.c07a==1}}":
    l_c07b: blue
  ping_{n}{{current_player.c07p==1}}:
    l_c07: red
event_player:
  "{{current_player.c07p==1}}": cpong_{n}
counters:
  c_{n}:
    count_events: cnt_{n}{{machine.c07b==2}}
    count_complete_value: 3
""",
    # mode devices with persist_state (state kept in the player across the mode's runs), the mode restarts on the next ball;
    # explicit enable_events: a persisting block without them registers its auto-enable handler on mode_<n>_starting only in
    # the player's first run of the mode, so the mode's footprint would depend on the player's history
    "gamepersist": """
counters:
  c_{n}:
    count_events: cnt_{n}
    count_complete_value: 5
    persist_state: true
    enable_events: en_{n}
    disable_events: dis_{n}
accruals:
  a_{n}:
    events:
      - x_{n}
      - y_{n}
    persist_state: true
    enable_events: en_{n}
shots:
  sh_{n}:
    switch: s_shot
    persist_enable: true
""",
    # custom mode code (harness/common/modecode_c07.py): mode_start registers a handler, a switch handler and a delay on the mode, mode_stop
    # registers more and posts events; stop events in dict form with a delay
    "code": """
counters:
  c_{n}:
    count_events: cnt_{n}
    count_complete_value: 3
""",
    "gamecode": """
shots:
  sh_{n}:
    switch: s_shot
""",
    "gamey": """
shots:
  sh_{n}:
    switch: s_shot
variable_player:
  score_{n}:
    score: 100
light_player:
  mode_{n}_started:
    l_c07: red
counters:
  c_{n}:
    count_events: cnt_{n}
    count_complete_value: 3
""",
}

POOL = [
    # name, prio, game_mode, wait, flavour
    ("m1", 200, False, False, "plain"), ("m1", 200, False, True, "plain"), ("m1", 300, False, False, "dev"),
    ("m1", 200, True, False, "gamey"), ("m1", 100, False, True, "dev2"),
    ("m2", 200, False, False, "plain"), ("m2", 100, False, False, "dev"), ("m2", 200, False, True, "dev2"),
    ("m2", 300, True, False, "plain"), ("m2", 200, True, True, "gamey"),
    ("m3", 200, False, False, "dev2"), ("m3", 400, False, False, "plain"), ("m3", 100, True, False, "gamey"),
    # mode devices whose control events carry a delay (dict form): the pending call must die with the mode
    ("m1", 200, False, False, "dly"), ("m2", 300, False, True, "dly"), ("m3", 100, False, False, "dly"),
    ("m1", 250, True, False, "gamedly"), ("m2", 150, True, False, "gamedly"),
    # mode devices with their OWN delay manager / periodic task (timers incl. a timed pause, sequence shot timeout,
    # shot delay switch, ball save timers): everything they scheduled must die with the mode
    ("m1", 200, False, False, "timer"), ("m2", 300, False, False, "timerrun"), ("m3", 100, False, True, "timer"),
    ("m1", 150, True, False, "gametimer"), ("m2", 250, True, False, "gametimer"), ("m3", 200, True, False, "timerrun"),
    # config players keyed on an event posted as a queue event that is held open across the mode's stop
    ("m1", 200, False, False, "cfgq"), ("m2", 300, False, True, "cfgq"), ("m3", 100, False, False, "cfgq"),
    ("m1", 250, True, False, "gamecfgq"), ("m2", 150, True, False, "gamecfgq"),
    # device control events (direct and delayed) and handlers of mode code keyed on the held queue event
    ("m1", 200, False, False, "ctlq"), ("m2", 300, False, True, "ctlq"), ("m3", 100, False, False, "ctlq"),
    ("m1", 250, True, False, "gamectlq"), ("m2", 150, True, False, "gamectlq"),
    # persist_state devices + restart_on_next_ball; custom mode code; stop events in dict form with a delay
    ("m1", 200, True, False, "gamepersist"), ("m2", 300, True, False, "gamepersist"),
    ("m1", 200, False, False, "code"), ("m2", 300, False, True, "code"), ("m3", 150, True, False, "gamecode"),
    # conditional config-player entries (template subscriptions), conditional start event
    ("m1", 200, False, False, "cond"), ("m2", 300, False, True, "cond"), ("m3", 100, False, False, "cond"),
    ("m1", 250, True, False, "gamecond"), ("m3", 150, True, False, "gamecond"),
]
CFGQ = ("cfgq", "gamecfgq", "ctlq", "gamectlq")
COND = ("cond", "gamecond")
CODED = ("code", "gamecode")
SHOWS = {"sh_c07": "- duration: 1s\n  lights:\n    l_c07b: green\n- duration: 1s\n  lights:\n    l_c07b: black\n"}
# config-player sections: number in the model; below 100 = leaves something behind under the mode's context (light stack
# entry, show instance, enabled coil) until clear_context, 100 and above = acts and is done (posts an event, adds a score)
SECTIONS = {"light_player": 0, "show_player": 1, "coil_player": 2, "event_player": 100, "variable_player": 101,
            "queue_relay_player": 102, "queue_event_player": 103, "random_event_player": 104}
DELAYED_CTL = {"dly": ["arm_", "dis_", "rst_"], "gamedly": ["arm_", "rst_", "dis_", "rsn_"]}
CTLQ = ("ctlq", "gamectlq")
TIMER_EVS = ["tstart_", "tstop_", "tpause_", "tpause0_", "treset_", "tadd_"]
OWN_TIMERS = {"timer": TIMER_EVS, "timerrun": TIMER_EVS, "gametimer": TIMER_EVS + ["e1_", "e2_", "bsen_", "e1d_"]}
DEV_EVENT_PREFIXES = ("timer_", "logicblock_", "sequence_shot_", "ball_save_", "shot_", "sh_", "ss_", "c_", "a_")
DEV_EVENT_RE = re.compile(r"(?:^|_)(?:t|c|a|sh|ss|bs)_(m\d)(?:_|$)")


def mode_yaml(name, prio, game_mode, wait, flavour):
    starts = "start_%s" % name
    if flavour in COND:
        starts += ", cstart_%s{machine.c07a==1}" % name
    stops = " stop_%s" % name
    if flavour in CODED:
        stops = "\n    stop_%s: 250ms\n    stop2_%s: 0" % (name, name)      # dict form, with a delay
    head = ("mode:\n  start_events: %s\n  stop_events:%s\n  priority: %d\n  game_mode: %s\n"
            "  use_wait_queue: %s\n%s" % (starts, stops, prio, "true" if game_mode else "false", "true" if wait else "false",
                                          "" if game_mode else "  stop_on_ball_end: false\n"))
    if flavour == "gamepersist":
        head += "  restart_on_next_ball: true\n"
    if flavour in CODED:
        head += "  code: harness.common.modecode_c07.C07Mode\n"
    return head + FLAVOURS[flavour].format(n=name)


def build_vm(case):
    from harness.common.vmachine import VMachine
    names = sorted(case["modes"])
    cfg = BASE_CONFIG % "".join("  - %s\n" % n for n in names)
    modes = {n: mode_yaml(n, *case["modes"][n]) for n in names}
    return VMachine(cfg, modes=modes, shows=SHOWS, game=True)


# ---------------------------------------------------------------------------------------------------------------------
# instrumentation (class level, installed once per process, before any machine boots)
# ---------------------------------------------------------------------------------------------------------------------
class Rec:
    cur = None      # the active Real run


def _install():
    from mpf.core import mode as modemod, events as evmod, delays as dlmod
    M = modemod.Mode
    if getattr(M, "_c07_wrapped", False):
        return
    M._c07_wrapped = True

    def wrap(name):
        orig = getattr(M, name)

        def w(self, *a, **kwargs):
            kw = kwargs
            r = Rec.cur
            if r is None or self.name not in r.names:
                return orig(self, *a, **kw)
            r.enter(name, self, a, kw)
            try:
                res = orig(self, *a, **kw)
            finally:
                r.leave(name, self)
            return res
        w.__name__ = name
        setattr(M, name, w)
    for n in ("start", "_started", "_mode_started_callback", "stop", "_stopped", "_mode_stopped_callback"):
        wrap(n)

    def wrap_ctl(name, delayed):
        orig = getattr(M, name)

        def w(self, callback, *a, **kwargs):
            r = Rec.cur
            if r is None or self.name not in r.names:
                return orig(self, callback, *a, **kwargs)
            cell = {"uid": None, "called": False}
            r.ctl_calls.append(cell)

            def cb(*ca, **ckw):
                cell["called"] = True
                return callback(*ca, **ckw)
            cb.__qualname__ = cbname(callback)
            try:
                return orig(self, callback if delayed else cb, *a, **kwargs)
            finally:
                r.ctl_calls.pop()
                r.ctl_called(self.name, cell, delayed)
        w.__name__ = name
        setattr(M, name, w)
    wrap_ctl("_control_event_handler", True)
    if hasattr(M, "_direct_control_event_handler"):
        wrap_ctl("_direct_control_event_handler", False)
    EM = evmod.EventManager
    o_post = EM._post

    def post(self, event, ev_type, callback, **kwargs):
        r = Rec.cur
        if r is not None:
            m = EV_RE.match(event)
            if m and m.group(1) in r.names:
                r.posted(m.group(1), m.group(2))
            elif m is None:
                d = DEV_EVENT_RE.search(event)
                if d and d.group(1) in r.names and (event.startswith(DEV_EVENT_PREFIXES)):
                    r.device_event(d.group(1), event)
        return o_post(self, event, ev_type, callback, **kwargs)
    EM._post = post
    from mpf.core import clock as clkmod
    CB = clkmod.ClockBase
    o_si = CB.schedule_interval

    def schedule_interval(self, callback, timeout):
        t = o_si(self, callback, timeout)
        r = Rec.cur
        if r is not None:
            r.periodic.append((t, cbname(callback)))
            r.pt_added(t, callback)
        return t
    CB.schedule_interval = schedule_interval
    o_us = CB.unschedule      # a staticmethod

    def unschedule(event):
        r = Rec.cur
        if r is not None:
            r.pt_removed(event)
        return o_us(event)
    CB.unschedule = staticmethod(unschedule)
    from mpf.core import mode_controller as mcmod
    MC = mcmod.ModeController
    if hasattr(MC, "_stop_mode_started_at_turn_end"):
        o_pte = MC._player_turn_ended

        def _player_turn_ended(self, player, **kwargs):
            r = Rec.cur
            if r is None:
                return o_pte(self, player, **kwargs)
            before = r.turn_handlers()
            res = o_pte(self, player, **kwargs)
            after = r.turn_handlers()
            for m in sorted(r.names):      # a game mode still starting at turn end: one-shot handler on mode_<n>_started
                for _ in range(after.get(m, 0) - before.get(m, 0)):
                    r.L.append(("user", "turnend", m, 0))
            return res
        MC._player_turn_ended = _player_turn_ended
    DM = dlmod.DelayManager
    o_init = DM.__init__

    def init(self, machine):
        o_init(self, machine)
        lst = getattr(machine, "_c07_dms", None)
        if lst is None:
            lst = []
            try:
                machine._c07_dms = lst
            except AttributeError:
                return
        lst.append(self)
    DM.__init__ = init
    o_add, o_fire = DM.add, DM._process_delay_callback

    def add(self, ms, callback, name=None, **kwargs):
        name = o_add(self, ms, callback, name, **kwargs)
        r = Rec.cur
        if r is not None:
            r.tm_added(self, name)
        md = kwargs.get("mode")
        if r is not None and md is not None and getattr(md, "name", None) in r.names:
            # the delayed control-event path (Mode._control_event_handler), on whichever manager it was scheduled
            r.ctl_added(self, name, md.name, callback)
        return name

    def fire(self, name, callback, **kwargs):
        r = Rec.cur
        if r is not None:
            r.ctl_fired(self, name, callback)
            r.tm_gone(self, name, "firetm")
        return o_fire(self, name, callback, **kwargs)
    DM.add = add
    DM._process_delay_callback = fire
    o_remove = DM.remove

    def remove(self, name):
        r = Rec.cur
        if r is not None and name in self.delays:
            r.tm_gone(self, name, "remtm")
        return o_remove(self, name)
    DM.remove = remove
    _install_config_players()


def _install_config_players():
    """log every call of ConfigPlayer.config_play_callback made for one of the case's modes and whether it went on to play()"""
    import importlib
    import pkgutil
    import mpf.config_players as cps
    from mpf.core import config_player as cpmod
    for mi in pkgutil.iter_modules(cps.__path__):
        try:
            importlib.import_module("mpf.config_players." + mi.name)
        except Exception:       # noqa - a player that cannot be imported cannot be registered by the machine either
            pass
    CP = cpmod.ConfigPlayer
    o_cb = CP.config_play_callback

    def config_play_callback(self, settings, calling_context, priority=0, mode=None, **kwargs):
        r = Rec.cur
        if r is None or mode is None or getattr(mode, "name", None) not in r.names:
            return o_cb(self, settings, calling_context, priority, mode, **kwargs)
        r.cfg_stack.append(False)
        try:
            return o_cb(self, settings, calling_context, priority, mode, **kwargs)
        finally:
            r.cfg_played(self, mode, r.cfg_stack.pop())
    CP.config_play_callback = config_play_callback

    def subclasses(c):
        for x in c.__subclasses__():
            yield x
            yield from subclasses(x)

    def wrap_play(cls):
        orig = cls.__dict__["play"]

        def play(self, *a, **kwargs):
            r = Rec.cur
            if r is not None and r.cfg_stack:
                r.cfg_stack[-1] = True
            return orig(self, *a, **kwargs)
        play.__name__ = "play"
        play.__qualname__ = getattr(orig, "__qualname__", "play")
        cls.play = play
    def wrap_sub(cls):
        orig = cls.__dict__["handle_subscription_change"]

        def handle_subscription_change(self, value, settings, priority, context, key):
            r = Rec.cur
            if r is not None and context in r.names:
                r.L.append(("user", "cfgsub", context, SECTIONS.get(self.config_file_section, 199) + 10, bool(value)))
                if not r.alive(context) or r.mode_state(context) == "idle":
                    r.cfg_after_stop = r.cfg_after_stop or (context, self.config_file_section)
            return orig(self, value, settings, priority, context, key)
        cls.handle_subscription_change = handle_subscription_change
    for cls in set(subclasses(CP)):
        if "play" in cls.__dict__ and not getattr(cls.__dict__["play"], "__isabstractmethod__", False):
            wrap_play(cls)
        if "handle_subscription_change" in cls.__dict__:
            wrap_sub(cls)


def cbname(cb):
    f = getattr(cb, "func", None)
    if f is not None:    # functools.partial
        return "partial(" + cbname(f) + ")"
    owner = getattr(cb, "__self__", None)
    on = getattr(owner, "name", None)
    return "%s%s" % (getattr(cb, "__qualname__", type(cb).__name__), ("@" + str(on)) if isinstance(on, str) else "")


def dump_bus(machine):
    out = []
    for ev, hs in machine.events.registered_handlers.items():
        for h in hs:
            md = h.kwargs.get("mode") if isinstance(h.kwargs, dict) else None
            tag = h.kwargs.get("_c07") if isinstance(h.kwargs, dict) else None
            ent = (ev, h.priority, cbname(h.callback), getattr(md, "name", "") or "", tag or "")
            if ent[3] == "game" or ent[2].endswith("@game"):
                continue        # the game mode's own handlers come and go with the ball
            out.append(ent)
    return sorted(out)


def dump_sw(machine):
    out = []
    for sw, (l0, l1) in machine.switch_controller.registered_switches.items():
        for st, l in ((0, l0), (1, l1)):
            for e in l:
                out.append((sw.name, st, e.ms, cbname(e.callback)))
    return sorted(out)


def dump_dl(machine):
    out = []
    r = Rec.cur
    own = r.device_managers() if r is not None else {}
    for i, dm in enumerate(getattr(machine, "_c07_dms", [])):
        if id(dm) in own:
            continue            # the delay manager of a mode device of the case: registry "tm" (Real.live_device_timers)
        for name, ent in dm.delays.items():
            cb = ent[1]        # (handle, callback) or (handle, callback, kwargs)
            r = Rec.cur
            u = r.ctl.get((id(dm), name)) if r is not None else None
            if u is not None:
                out.append((i, "c07dl%d" % u))      # a delayed control-event call: an owned delay of its mode (model: adddl)
            elif cbname(cb) != "QueuedEvent.clear":       # the harness' own "clear later" timers
                out.append((i, cbname(cb)))
    return sorted(out)


REMEMBERED = set()


def config_players(machine):
    from mpf.core.config_player import ConfigPlayer
    out = []
    for a in sorted(vars(machine)):
        if a.endswith("_player") and isinstance(getattr(machine, a, None), ConfigPlayer):
            out.append(getattr(machine, a))
    return out


def dump_fx(machine):
    """what config players leave behind: every entry of every light's stack, every non-empty instances[context][section]"""
    out = []
    for n, l in machine.lights.items():
        for e in l.stack:
            out.append(("light", n, str(e.key), e.priority))
    for p in config_players(machine):
        for ctx, d in p.instances.items():
            for sec, dd in d.items():
                for k, v in dd.items():
                    if isinstance(v, (bool, int, float, str, type(None))):
                        # a remembered VALUE (event_player keeps the last value of a conditional entry per context and never
                        # clears it), not something that acts: not what the property speaks about - counted, see REMEMBERED
                        REMEMBERED.add((sec, ctx))
                        continue
                    out.append(("inst", sec, ctx, str(k[0] if isinstance(k, tuple) else k)))
    return sorted(out)


def of_mode(e, m):
    """is this footprint entry recorded under the context of mode m?  (light stack keys are context + key + ".light_player",
    where key is empty for an event-keyed entry and the condition's text for a conditional one)"""
    return (e[0] == "inst" and e[2] == m) or (e[0] == "light" and e[2].startswith(m) and e[2].endswith(".light_player"))


def fx_of_mode(fx, m):
    """model ids that have something recorded under the context of mode m: the section's number (SECTIONS) for an entry
    keyed by an event, + 10 for a conditional entry (a template subscription)"""
    ids = set()
    for e in fx:
        if e[0] == "inst" and e[2] == m:
            sec = SECTIONS.get(e[1], 199)
            plain = {"light_player": m + ".light_player", "show_player": "sh_c07"}.get(e[1])
            ids.add(sec if plain is None or e[3] == plain else sec + 10)
        elif e[0] == "light" and of_mode(e, m):
            ids.add(0 if e[2] == m + ".light_player" else 10)
    return sorted(ids)


def dump_timers(machine):
    out = []
    for h in getattr(machine.clock.loop, "_scheduled", []):
        if not h.cancelled():
            out.append(cbname(h._callback))
    return sorted(out)


def drain(vm):
    """run what is READY on the loop without letting time pass: vm.advance() returns as soon as its own sleep is over, so
    callbacks made ready at that very instant (call_soon: done-callbacks of cancelled futures, woken tasks) would otherwise
    still be pending at the observation point"""
    loop = vm.tc.loop
    for _ in range(500):
        if not loop._ready:
            return
        loop.run_once()
    raise InfraError("the loop does not become idle")


def msub(a, b):
    """multiset a - b, and what of b is missing in a"""
    a = list(a)
    missing = []
    for x in b:
        if x in a:
            a.remove(x)
        else:
            missing.append(x)
    return a, missing


# ---------------------------------------------------------------------------------------------------------------------
# the real run
# ---------------------------------------------------------------------------------------------------------------------
class Real:
    def __init__(self, vm, case, calib=False):
        self.vm, self.case, self.calib = vm, case, calib
        self.machine = vm.machine
        self.names = set(case["modes"])
        self.L = []
        self.depth = []
        self.deadlines = set()
        self.uid = 0
        self.violations = []
        self.snaps = {}
        self.user = {}        # uid -> (kind, mode)
        self.ctl = {}         # (id(delay manager), delay name) -> uid of a delayed control-event call
        self.dev_events = 0
        self.periodic = []    # (PeriodicTask, callback name) registered through clock.schedule_interval since the case began
        self.dev_event_after_stop = None
        self.fired = []
        self.hook_runs = {}
        self.restarted = None
        self.hooks_off = False
        self.stop_event_ignored = None
        self.pend_cb = {n: 0 for n in self.names}     # _stopped done, _mode_stopped_callback not yet
        self.tm = {}          # (id(device-owned delay manager), delay name) / ("pt", id(PeriodicTask)) -> uid
        self.tm_keep = []     # keeps the PeriodicTask objects alive (ids are keys)
        self.dev_dm = None    # id(delay manager of a mode device) -> mode name
        self.cfg_stack = []   # config_play_callback calls in progress: did this one reach play()?
        self.cfg_after_stop = None
        self.hold_next = 0    # the next queue event qe_<n> is held open for that many ticks by the harness' handler
        self.ctl_calls = []   # Mode._control_event_handler / _direct_control_event_handler calls in progress
        self.stale_calls = {}  # what was called from a queue event's snapshot after it had been removed: kind -> count
        self.hkeys = {}       # uid of a handler of mode code -> its EventHandlerKey
        self.n_ws = {n: 0 for n in self.names}        # mode_<n>_will_start posted so far = number of accepted starts (the cycle number)
        self.later_cycles = 0
        self.n_sd = {n: 0 for n in self.names}        # mode_<n>_started posted so far = number of starts that have become active
        self.cbs = []         # start / stop requests made with a fresh recording callback (oracle: called once, for that request)

    # -- wrappers' callbacks ---------------------------------------------------------------------------------------
    def enter(self, name, mode, a, kw):
        info = None
        if name == "start":
            mp = kw.get("mode_priority", a[0] if a else None)
            g = (not mode.config['mode']['game_mode']) or bool(self.machine.game and mode.player)
            info = (mp if isinstance(mp, int) else None, 1 if "queue" in kw else 0, 1 if g else 0)
            if self.pend_cb[mode.name] > 0 and g and not mode._active and not mode._starting:
                self.restarted = mode.name      # accepted between _stopped and _mode_stopped_callback (repaired: the start finishes the previous stop first)
        self.L.append(("call", name, mode.name, info, len(self.depth)))
        self.depth.append(name)

    def leave(self, name, mode):
        self.depth.pop()
        self.L.append(("ret", name, mode.name))
        if name == "_stopped":
            self.pend_cb[mode.name] += 1
        elif name == "_mode_stopped_callback":
            self.pend_cb[mode.name] -= 1
            if self.mode_state(mode.name) == "idle" and not self.violations:
                left = self.pending_ctl(mode.name)
                if left:
                    self.violations.append(("control-delay-pending-after-stopped", {"mode": mode.name, "pending": left[:4]}))
        self.check_active_list("after " + name)
        if self.calib:
            self.snaps.setdefault((mode.name, name), self.dumps())

    def posted(self, m, phase):
        self.L.append(("post", m, phase))
        if phase == "will_start":
            self.n_ws[m] += 1
        elif phase == "started":
            self.n_sd[m] += 1
        self.check_active_list("at " + phase)

    def check_active_list(self, where):
        mc = self.machine.mode_controller
        act = [m.name for m in mc.active_modes]
        exp = [m.name for m in sorted((m for m in self.machine.modes.values() if m.active),
                                      key=lambda x: (x.priority, x.name), reverse=True)]
        # inside the active setter (between the flag and the list update) nothing of ours runs, so this must hold
        if act != exp and not self.violations:
            self.violations.append(("active-list", {"where": where, "active_modes": act, "expected": exp}))

    def device_event(self, m, event):
        """an event posted by a device of mode m (timer_<name>_*, logicblock_<name>_*, <name>_hit ...)"""
        self.dev_events += 1
        if not self.alive(m) and self.dev_event_after_stop is None:
            self.dev_event_after_stop = (m, event)

    # -- delays and periodic tasks owned by mode devices -----------------------------------------------------------
    def device_managers(self):
        if self.dev_dm is None:
            from mpf.core.delays import DelayManager
            self.dev_dm = {}
            for coll in self.machine.device_manager.collections.values():
                for dev in coll.values():
                    m = re.search(r"_(m\d)$", getattr(dev, "name", "") or "")
                    dm = getattr(dev, "delay", None)
                    if m and m.group(1) in self.names and isinstance(dm, DelayManager):
                        self.dev_dm[id(dm)] = m.group(1)
        return self.dev_dm

    def tm_added(self, dm, name):
        m = self.device_managers().get(id(dm))
        if m is None or (id(dm), name) in self.tm:      # a delay added under an existing name replaces it
            return
        self.uid += 1
        self.tm[(id(dm), name)] = self.uid
        self.user[self.uid] = ("tm", m)
        self.L.append(("user", "addtm", m, self.uid))

    def tm_gone(self, dm, name, how):
        u = self.tm.pop((id(dm), name), None)
        if u is not None:
            self.L.append(("user", how, self.user[u][1], u))

    def pt_added(self, task, callback):
        m = re.search(r"_(m\d)$", getattr(getattr(callback, "__self__", None), "name", "") or "")
        if not m or m.group(1) not in self.names:
            return
        self.uid += 1
        self.tm[("pt", id(task))] = self.uid
        self.tm_keep.append(task)
        self.user[self.uid] = ("tm", m.group(1))
        self.L.append(("user", "addtm", m.group(1), self.uid))

    def pt_removed(self, task):
        u = self.tm.pop(("pt", id(task)), None)
        if u is not None:
            self.L.append(("user", "remtm", self.user[u][1], u))

    def live_device_timers(self):
        """from the machine, not from the log: pending delays on device-owned managers and live periodic tasks of devices"""
        out = []
        dms = {id(dm): dm for dm in getattr(self.machine, "_c07_dms", [])}
        for did, m in self.device_managers().items():
            for name in dms[did].delays:
                u = self.tm.get((did, name))
                out.append((u if u is not None else -1, m))
        seen = set()
        for t, n in self.periodic:
            mm = re.search(r"_(m\d)$", n)
            if not t._canceled and mm and mm.group(1) in self.names and id(t) not in seen:
                seen.add(id(t))
                u = self.tm.get(("pt", id(t)))
                out.append((u if u is not None else -1, mm.group(1)))
        return sorted(out)

    def cfg_played(self, player, mode, played):
        sec = SECTIONS.get(player.config_file_section, 199)
        self.L.append(("user", "cfgplay", mode.name, sec, bool(played)))
        if played and not mode.active and self.cfg_after_stop is None:
            self.cfg_after_stop = (mode.name, player.config_file_section)

    def turn_handlers(self):
        out = {}
        for n in self.names:
            for h in self.machine.events.registered_handlers.get("mode_%s_started" % n, []):
                if cbname(h.callback) == TURN_END_CB:
                    out[n] = out.get(n, 0) + 1
        return out

    def ctl_added(self, dm, name, m, callback):
        self.uid += 1
        u = self.uid
        self.user[u] = ("ctl", m)
        self.ctl[(id(dm), name)] = u
        if self.ctl_calls and self.ctl_calls[-1]["uid"] is None:
            self.ctl_calls[-1]["uid"] = u       # logged as one op of the model (ctlcall) when the handler returns
        else:
            self.L.append(("user", "adddl", m, u))
        self.L.append(("ctl", m, cbname(callback), "mode" if dm is self.machine.modes[m].delay else "other-manager"))

    def ctl_called(self, m, cell, delayed):
        """a control-event handler of mode m (registered by Mode._setup_device_control_events) has been called: did it act
        (call the device's control method / schedule the delayed call)?"""
        acted = cell["uid"] is not None if delayed else cell["called"]
        self.L.append(("user", "ctlcall", m, cell["uid"], acted))
        if not acted:
            self.stale_calls["control_event_ignored"] = self.stale_calls.get("control_event_ignored", 0) + 1

    def registered(self, key):
        return key is not None and any(h.key == key.key for h in self.machine.events.registered_handlers.get(key.event, []))

    def ctl_fired(self, dm, name, callback):
        u = self.ctl.pop((id(dm), name), None)
        if u is not None:
            m = self.user[u][1]
            self.L.append(("user", "firedl", m, u))
            self.fired.append(("ctl", m, cbname(callback), self.mode_state(m)))

    def pending_ctl(self, m):
        """delays scheduled through mode m's control-event path that are still pending, on ANY delay manager"""
        out = []
        for i, dm in enumerate(getattr(self.machine, "_c07_dms", [])):
            for name, ent in dm.delays.items():
                kw = ent[2] if len(ent) > 2 else {}
                if (id(dm), name) in self.ctl and self.user[self.ctl[(id(dm), name)]][1] == m or \
                        getattr(kw.get("mode"), "name", None) == m:
                    out.append((i, cbname(ent[1])))
        return out

    def live_periodic(self):
        return sorted(n for t, n in self.periodic if not t._canceled)

    def dumps(self):
        return {"bus": dump_bus(self.machine), "sw": dump_sw(self.machine), "dl": dump_dl(self.machine),
                "pt": self.live_periodic(), "fx": dump_fx(self.machine), "tm": self.live_device_timers()}

    # -- user code -------------------------------------------------------------------------------------------------
    def deadline(self, ticks):
        t = round(self.vm.now() / GRID) + max(1, ticks)
        while t in self.deadlines:
            t += 1
        self.deadlines.add(t)
        return t * GRID - self.vm.now()

    def alive(self, m):
        """between an accepted start() and the end of _mode_stopped_callback"""
        return self.mode_state(m) != "idle" or self.pend_cb[m] > 0

    def act(self, a, queue=None):
        k = a[0]
        modes = self.machine.modes
        if k in ("delay", "addh", "addhq", "addsw") and not self.alive(a[1]):
            return      # user code of a mode that is not running registers nothing (assumption)
        if k == "start":
            self.L.append(("act", "start", a[1]))
            kw = {}
            if len(a) > 2 and a[2] is not None:
                kw["mode_priority"] = a[2]
            if len(a) > 3 and a[3] == "cb":
                # Mode.start(callback=cb) with a fresh recording callback per request; accepted = it posted mode_<n>_will_start
                rec = self.new_cb("start", a[1])
                kw["callback"] = rec["fn"]
                modes[a[1]].start(**kw)
                rec["accepted"] = self.n_ws[a[1]] > rec["cycle_before"]
                rec["cycle"] = self.n_ws[a[1]] if rec["accepted"] else None
            else:
                modes[a[1]].start(**kw)
        elif k == "stop":
            self.L.append(("act", "stop", a[1]))
            if len(a) > 2 and a[2] == "cb":
                # Mode.stop(callback=cb): accepted = it returned True (the mode is running, possibly stopping already)
                rec = self.new_cb("stop", a[1])
                rec["accepted"] = bool(modes[a[1]].stop(callback=rec["fn"]))
                rec["cycle"] = rec["cycle_before"] if rec["accepted"] else None
            else:
                modes[a[1]].stop()
        elif k == "ev":
            if len(a) > 2 and isinstance(a[2], dict):      # e.g. the mode's start event with a mode_priority kwarg
                self.machine.events.post(a[1], **a[2])
            else:
                self.machine.events.post(a[1])
        elif k == "qev":
            sn = len(self.L)
            self.machine.events.post_queue(a[1], lambda **kwargs: self.L.append(("qcb", sn)))
        elif k == "setvar":
            self.machine.variables.set_machine_var(a[1], a[2])
        elif k == "setpvar":
            if self.machine.game and self.machine.game.player:
                self.machine.game.player[a[1]] = a[2]
        elif k == "qhold":
            sn = len(self.L)
            self.hold_next = a[2]
            self.machine.events.post_queue("qe_" + a[1], lambda **kwargs: self.L.append(("qcb", sn)))
        elif k == "delay":
            self.uid += 1
            u = self.uid
            self.user[u] = ("dl", a[1])
            self.L.append(("user", "adddl", a[1], u))

            def fire(_u=u, _m=a[1], **kwargs):      # noqa
                self.L.append(("user", "firedl", _m, _u))
                self.fired.append(("dl", _m, _u, self.mode_state(_m)))
            fire.__qualname__ = "c07dl%d" % u
            modes[a[1]].delay.add(ms=self.deadline(a[2]) * 1000, callback=fire)
        elif k in ("addh", "addhq"):
            self.uid += 1
            u = self.uid
            self.user[u] = ("h", a[1])
            self.L.append(("user", "addh", a[1], u))

            def hfire(_u=u, _m=a[1], **kwargs):
                if self.registered(self.hkeys.get(_u)):
                    self.fired.append(("h", _m, _u, self.mode_state(_m)))
                else:
                    # called from the snapshot of a queue event's handler list although it has been removed: the registries
                    # are what the property speaks about, and this handler is no longer in them - counted, not failed on
                    self.stale_calls["mode_code_handler"] = self.stale_calls.get("mode_code_handler", 0) + 1
            self.hkeys[u] = modes[a[1]].add_mode_event_handler(("qe_" if k == "addhq" else "u_") + a[1], hfire, 0, _c07="u%d" % u)
        elif k == "addsw":
            self.uid += 1
            u = self.uid
            self.user[u] = ("sw", a[1])
            self.L.append(("user", "addsw", a[1], u))

            def sfire(_u=u, _m=a[1]):
                self.fired.append(("sw", _m, _u, self.mode_state(_m)))
            sfire.__qualname__ = "c07sw%d" % u
            modes[a[1]].switch_handlers.append(self.machine.switch_controller.add_switch_handler("s_c07", sfire))
        elif k == "wait":
            if queue is not None:
                queue.wait()
                self.L.append(("hold",))
                self.machine.delay.add(ms=self.deadline(a[1]) * 1000, callback=queue.clear)
        elif k == "adv":
            self.vm.advance(GRID * a[1])
        elif k == "ballend":
            if self.machine.game and self.machine.game.balls_in_play:
                self.machine.game.end_ball()
        elif k == "hitsw":
            self.vm.hit_switch("s_c07", 1)
            self.vm.run()
            self.vm.hit_switch("s_c07", 0)
        elif k == "poke":
            for n in sorted(self.names):
                for e in ("u_", "ping_", "cnt_", "x_", "y_", "en_", "qe_"):
                    self.machine.events.post(e + n)
        else:
            raise InfraError("bad act %r" % (a,))

    def new_cb(self, kind, m):
        rec = {"id": len(self.cbs), "kind": kind, "mode": m, "cycle_before": self.n_ws[m], "state_at_request": self.mode_state(m),
               "accepted": None, "cycle": None, "calls": []}

        def fn(*args, **kwargs):
            # when was it called: in which cycle of the mode (number of accepted starts so far) and in which state
            rec["calls"].append([self.n_sd[m] if kind == "start" else self.n_ws[m], self.mode_state(m)])
            self.L.append(("cb", kind, m, rec["id"]))
        fn.__qualname__ = "c07cb%d" % rec["id"]
        rec["fn"] = fn
        self.cbs.append(rec)
        return rec

    def mode_state(self, m):
        md = self.machine.modes[m]
        return "active" if md.active and not md.stopping else ("stopping" if md.stopping else
                                                               ("starting" if md._starting else "idle"))

    def install_hooks(self):
        for i, h in enumerate(self.case["hooks"]):
            ev = "mode_%s_%s" % (h["mode"], h["phase"])

            def handler(_h=h, _i=i, **kwargs):
                if self.hooks_off or self.hook_runs.get(_i, 0) >= 2:      # every hook acts at most twice (no self-sustaining restart loops)
                    return
                self.hook_runs[_i] = self.hook_runs.get(_i, 0) + 1
                self.L.append(("hook", _i))
                for a in _h["acts"]:
                    self.act(a, queue=kwargs.get("queue"))
            self.machine.events.add_handler(ev, handler, h["prio"], _c07="hook%d" % i)

    def install_holders(self):
        """a handler far above every mode's config-player entries on qe_<n>: holds the queue event open when asked to"""
        for n in sorted(self.names):
            if self.case["modes"][n][3] not in CFGQ:
                continue

            def holder(**kwargs):
                k, self.hold_next = self.hold_next, 0
                q = kwargs.get("queue")
                if k and q is not None:
                    q.wait()
                    self.L.append(("hold",))
                    self.machine.delay.add(ms=self.deadline(k) * 1000, callback=q.clear)
            self.machine.events.add_handler("qe_" + n, holder, 100000, _c07="qh")

    def quiescent(self):
        drain(self.vm)
        snap = {n: (bool(m.active), bool(m._starting), bool(m.stopping), m.priority)
                for n, m in sorted(self.machine.modes.items()) if n in self.names}
        self.L.append(("q", snap, [m.name for m in self.machine.mode_controller.active_modes if m.name in self.names],
                       self.dumps(), dump_timers(self.machine), sorted(n for n in self.names if self.pend_cb[n] > 0)))

    def run(self):
        crash = None
        Rec.cur = self
        try:
            self.install_hooks()
            self.install_holders()
            self.vm.run()
            if self.case["game"]:
                self.vm.start_game()
                self.vm.advance(1)
            self.vm.align()
            self.base = self.dumps()
            self.base_timers = dump_timers(self.machine)
            self.quiescent()
            for op in self.case["ops"]:
                self.L.append(("top", op))
                self.act(op)
                self.vm.advance(GRID)
                self.quiescent()
            # release everything, then stop whatever is still up, then poke
            self.L.append(("top", ["settle"]))
            self.vm.advance(GRID * 40)
            self.hooks_off = True
            self.quiescent()
            for n in sorted(self.names):
                # "a stopped mode holds no start callback of an earlier request that would fire later", observably: one more
                # start without a callback (alternately by the start event and direct) after every request made with one
                if any(c["kind"] == "start" and c["mode"] == n for c in self.cbs) and self.mode_state(n) == "idle":
                    op = ["ev", "start_" + n] if len(self.cbs) % 2 else ["start", n]
                    self.L.append(("top", op + ["later-cycle"]))
                    self.later_cycles += 1
                    self.act(op)
                    self.vm.advance(GRID * 8)
                    self.quiescent()
            for n in sorted(self.names):
                md = self.machine.modes[n]
                was = md.active and not md.stopping
                self.L.append(("top", ["ev", "stop_" + n]))
                self.act(["ev", "stop_" + n])
                self.vm.advance(GRID * 24)
                self.quiescent()
                if was and md.active and self.stop_event_ignored is None:
                    self.stop_event_ignored = n
            for n in sorted(self.names):
                self.L.append(("top", ["stop", n]))
                self.act(["stop", n])
                self.vm.advance(GRID * 24)
                self.quiescent()
            self.L.append(("top", ["final"]))
            self.act(["hitsw"])
            self.act(["poke"])
            self.vm.advance(GRID * 60)
            self.quiescent()
        except InfraError:
            raise
        except Exception as e:
            crash = "%s: %s" % (type(e).__name__, str(e)[:300])
        finally:
            Rec.cur = None
        return crash


def run_real(case):
    from harness.common.vmachine import BootError
    _install()
    try:
        vm = build_vm(case).start()
    except BootError as e:
        return None, "boot: " + str(e)[:300]
    try:
        real = Real(vm, case)
        crash = real.run()
        return real, crash
    finally:
        vm.stop()


# ---------------------------------------------------------------------------------------------------------------------
# oracle: the three clauses of the property, on the implementation log only
# ---------------------------------------------------------------------------------------------------------------------
KNOWN_SIGS = ()
KNOWN_AFTER_RESTART = ("stop-event-ignored", "registry-leak", "fired-after-stop", "start-not-completed", "stop-not-completed")


def oracle(case, real, crash):
    res = oracle0(case, real, crash)
    if res is not None and real is not None and real.restarted:
        res = (res[0], dict(res[1], restarted_in_stopped_handler=real.restarted))
    return res


def oracle0(case, real, crash):
    if real is None:
        return "crash", {"error": crash}
    if crash is not None:
        return "crash", {"error": crash}
    L = real.L
    # clause 1: per mode (will_start starting started will_stop stopping stopped)*
    pos = {n: 0 for n in case["modes"]}
    seen = {n: [] for n in case["modes"]}
    for e in L:
        if e[0] == "post":
            seen[e[1]].append(ABBR[e[2]])
            if PHASES[pos[e[1]] % 6] != e[2]:
                return "lifecycle-order", {"mode": e[1], "events": seen[e[1]]}
            pos[e[1]] += 1
    last_q = [e for e in L if e[0] == "q"][-1]
    for n, (a, s, p, pr) in last_q[1].items():
        if a or s or p or pos[n] % 6 != 0:
            return ("start-not-completed" if s or pos[n] % 6 in (1, 2) else "stop-not-completed"), \
                {"mode": n, "active": a, "starting": s, "stopping": p, "events": seen[n]}
    if real.stop_event_ignored:
        return "stop-event-ignored", {"mode": real.stop_event_ignored, "events": seen[real.stop_event_ignored]}
    # clause 2: active list exact
    if real.violations:
        return real.violations[0]
    for e in L:
        if e[0] == "q":
            exp = [n for n, _ in sorted(((n, st) for n, st in e[1].items() if st[0]),
                                        key=lambda x: (x[1][3], x[0]), reverse=True)]
            if e[2] != exp:
                return "active-list", {"where": "quiescent", "active_modes": e[2], "expected": exp}
    # clause 3: nothing left behind
    if real.dev_event_after_stop:
        return "device-event-after-stop", {"mode": real.dev_event_after_stop[0], "event": real.dev_event_after_stop[1]}
    for kind, m, u, st in real.fired:
        if st == "idle":
            return "fired-after-stop:" + {"dl": "delay", "h": "handler", "sw": "switch-handler", "ctl": "control-event"}[kind], \
                {"mode": m, "what": kind, "id": u}
    for e in L:
        if e[0] == "q":
            # what config players recorded under the context of a mode that is stopped (light stack entries, show instances,
            # enabled coils): "the machine's registries are exactly what they were before it started"
            for n, st in sorted(e[1].items()):
                if not (st[0] or st[1] or st[2]) and n not in e[5]:
                    left = [x for x in e[3]["fx"] if x not in real.base["fx"] and of_mode(x, n)]
                    if left:
                        return "registry-leak:config-player-footprint", {"mode": n, "left_behind": left[:6]}
        if e[0] == "q" and not any(st[0] or st[1] or st[2] for st in e[1].values()):
            extra, missing = msub(e[3]["fx"], real.base["fx"])
            if extra or missing:
                return "registry-leak:config-player-footprint", {"left_behind": extra[:6], "missing": missing[:6]}
            for reg in ("bus", "sw", "dl", "tm", "pt"):
                extra, missing = msub(e[3][reg], real.base[reg])
                if reg == "bus" and any(x[2] == TURN_END_CB for x in extra):
                    return "turn-end-handler-left-behind", {"left_behind": [x for x in extra if x[2] == TURN_END_CB][:4]}
                if reg == "bus" and extra and not missing and all(x[2] == "partial(EventManager._wait_handler)" for x in extra):
                    # handlers of EventManager.wait_for_event futures: template subscriptions of conditional entries
                    return "registry-leak:template-subscription-handlers", {"left_behind": extra[:6], "events": sorted({x[0] for x in extra})}
                if extra or missing:
                    kinds = sorted({x[2].split(".")[0] if reg == "bus" else str(x[-1]).split(".")[0] for x in extra + missing})
                    return "registry-leak:" + {"bus": "event-handlers", "sw": "switch-handlers", "dl": "delays", "tm": "delays", "pt": "periodic-tasks"}[reg], \
                        {"left_behind": extra[:6], "missing": missing[:6], "kinds": kinds}
            if not case["game"] and e is last_q:      # a cancelled periodic task leaves the heap at its next wake-up
                extra, missing = msub(e[4], real.base_timers)
                extra = [x for x in extra if "c07" not in x.lower() and "queue" not in x.lower()]
                if extra:
                    return "registry-leak:timers", {"left_behind": extra[:6]}
    return callback_oracle(real)


def callback_oracle(real):
    """start / stop requests made through the API with a callback (every request got its own fresh recording callback; at the
    end of the case every mode is stopped and settled, and every mode that got such a start request has been asked to start once
    more without a callback - which a game mode does only while the game is still running).  The callback of an accepted request is called exactly once, for that request: with
    k = the number of the accepted start (count of mode_<n>_will_start posted), a start callback is called once at least k
    mode_<n>_started events have been posted (start k has become active; NOT 'before start k+1 is active': the callback of
    the started event runs after everything its handlers caused, so with a stop from a started handler and a restart from a
    stopped handler the callbacks of the nested starts run last-first, each once - found by the thorough tier, the stricter
    clock demanded more than 'once, for its request'), a stop callback while exactly k will_start events have been posted
    (before the next start begins); never a second time on a later start or stop.  The callback
    of a request that was turned down (start: no will_start posted; stop: returned False) belongs to no transition and is
    never called."""
    def detail(c):
        return {"mode": c["mode"], "request": c["id"], "kind": c["kind"], "mode_state_at_request": c["state_at_request"],
                "accepted": c["accepted"], "cycle_of_request": c["cycle"], "calls_as_[cycle,state]": c["calls"][:6],
                "times_called": len(c["calls"]), "cycles_of_the_mode": real.n_ws[c["mode"]]}
    for c in real.cbs:
        if c["kind"] == "start" and c["accepted"] and any(x[0] < c["cycle"] for x in c["calls"]):
            return "start-callback-called-before-its-start-became-active", detail(c)
    for c in real.cbs:
        k = c["kind"]
        if not c["accepted"]:
            if c["calls"]:
                return k + "-callback-of-refused-request-called", detail(c)
            continue
        if not c["calls"]:
            return k + "-callback-not-called", detail(c)
        if len(c["calls"]) != 1:
            return k + "-callback-called-more-than-once", detail(c)
        if k == "stop" and c["calls"][0][0] != c["cycle"]:
            return k + "-callback-called-in-later-cycle", detail(c)
    return None


def cycles_done(real):
    return sum(1 for e in real.L if e[0] == "post" and e[2] == "stopped")


def is_nontrivial(case, real):
    if real is None or cycles_done(real) == 0:
        return False
    L = real.L
    hook = any(e[0] == "hook" for e in L)
    hold = any(e[0] == "hold" for e in L)
    overlap = any(e[0] == "q" and sum(1 for st in e[1].values() if st[0]) > 1 for e in L)
    ignored = False
    for i, e in enumerate(L):
        if e[0] == "call" and e[1] in ("start", "stop") and (i + 1 >= len(L) or L[i + 1][0] == "ret"):
            ignored = True
    return hook or hold or overlap or ignored


# ---------------------------------------------------------------------------------------------------------------------
# generator
# ---------------------------------------------------------------------------------------------------------------------
def gen_case(r):
    k = r.choice([1, 2, 2, 3])
    chosen = {}
    pool = POOL[:]
    r.shuffle(pool)
    for p in pool:
        if p[0] not in chosen and len(chosen) < k:
            if p[4] in COND and any(v[3] in COND for v in chosen.values()):
                continue    # subscription handlers (EventManager._wait_handler) carry no owner: two such modes look alike
            chosen[p[0]] = list(p[1:])
    names = sorted(chosen)
    game = any(v[1] for v in chosen.values()) or r.random() < 0.15
    hooks = []
    for _ in range(r.choice([0, 1, 1, 2, 3, 4])):
        m = r.choice(names)
        ph = r.choice(PHASES)
        acts = []
        for _ in range(r.choice([1, 1, 2])):
            x = r.random()
            t = r.choice(names)
            if x < 0.22:
                acts.append(["start", t])
            elif x < 0.44:
                acts.append(["stop", t])
            elif x < 0.6:
                acts.append(["delay", m, r.choice([1, 2, 3, 8])])
            elif x < 0.7:
                acts.append(["addh", m])
            elif x < 0.78:
                acts.append(["addsw", m])
            elif ph in ("starting", "stopping") and not any(a[0] == "wait" for a in acts):
                acts.append(["wait", r.choice([1, 2, 5, 9])])
            else:
                acts.append(["ev", r.choice(["start_", "stop_"]) + t])
        hooks.append({"mode": m, "phase": ph, "prio": r.choice([1, 1, 5000]), "acts": acts})
    ops = []
    for _ in range(r.randint(3, 14)):
        x = r.random()
        m = r.choice(names)
        if x < 0.2:
            ops.append(["start", m, r.choice([None, None, None, 150, 250]) if chosen[m][3] == "plain" else None])
        elif x < 0.36:
            ops.append(["stop", m])
        elif x < 0.52:
            ops.append(["ev", "start_" + m])
        elif x < 0.64:
            ops.append(["ev", "stop_" + m])
        elif x < 0.72:
            ops.append(["qev", "start_" + m])
        elif x < 0.80:
            ops.append([r.choice(["delay", "addh", "addsw"]), m] + ([r.choice([1, 3, 6])] if True else []))
        elif x < 0.92:
            ops.append(["adv", r.choice([1, 2, 8, 16])])
        elif game:
            ops.append(["ballend"])
        else:
            ops.append(["hitsw"])
    gms = [m for m in names if chosen[m][1]]
    if gms and r.random() < 0.35:
        # the player's turn ends while a game mode is still starting (its starting queue event is held open):
        # ModeController registers a one-shot handler on mode_<n>_started that stops it as soon as it has started
        gm = r.choice(gms)
        hooks.append({"mode": gm, "phase": "starting", "prio": r.choice([1, 5000]), "acts": [["wait", r.choice([5, 9])]]})
        at = r.randint(0, len(ops))
        ops[at:at] = [["ev", "start_" + gm], ["ballend"]] + ([["ballend"]] if r.random() < 0.3 else []) + [["adv", r.choice([1, 4, 16])]]
    ctl = [(m, pre) for m in names for pre in DELAYED_CTL.get(chosen[m][3], [])]
    if ctl:
        # post delayed control events while the mode is up, at grid instants shortly before a stop (and some at random)
        for _ in range(r.choice([1, 2, 3])):
            m, pre = r.choice(ctl)
            burst = [["ev", "start_" + m], ["adv", r.choice([1, 2])], ["ev", pre + m]]
            if r.random() < 0.5:
                burst.append(["ev", r.choice(ctl)[1] + m])
            gap = r.choice([0, 0, 1, 2, 3])
            if gap:
                burst.append(["adv", gap])
            burst.append(r.choice([["stop", m], ["ev", "stop_" + m]] + ([["ballend"]] if chosen[m][1] else [])))
            burst.append(["adv", r.choice([1, 4, 12])])
            at = r.randint(0, len(ops))
            ops[at:at] = burst
        for _ in range(r.choice([0, 1, 2])):
            m, pre = r.choice(ctl)
            ops.insert(r.randint(0, len(ops)), ["ev", pre + m])
    tms = [m for m in names if chosen[m][3] in OWN_TIMERS]
    for _ in range(r.choice([1, 2, 3]) if tms else 0):
        # start, (timed) pause / other control events, stop the mode shortly afterwards - e.g. inside the 2 s pause
        m = r.choice(tms)
        evs = OWN_TIMERS[chosen[m][3]]
        burst = [["ev", "start_" + m], ["adv", r.choice([1, 2])], ["ev", "tstart_" + m], ["adv", r.choice([1, 3, 6])]]
        x = r.random()
        if x < 0.5:
            burst.append(["ev", "tpause_" + m])
        elif x < 0.8:
            burst += [["ev", r.choice(evs) + m] for _ in range(r.choice([1, 2]))]
        if chosen[m][3] == "gametimer" and r.random() < 0.5:
            burst += [["ev", r.choice(["e1_", "bsen_", "e1d_"]) + m]] + ([["hitsw"]] if r.random() < 0.5 else [])
        gap = r.choice([0, 1, 2, 4])
        if gap:
            burst.append(["adv", gap])
        burst.append(r.choice([["stop", m], ["ev", "stop_" + m]] + ([["ballend"]] if chosen[m][1] else [])))
        burst.append(["adv", r.choice([1, 4, 24])])
        at = r.randint(0, len(ops))
        ops[at:at] = burst
    cq = [m for m in names if chosen[m][3] in CFGQ]
    for _ in range(r.choice([1, 2, 3]) if cq else 0):
        # qe_<m> posted as a queue event, held open by a handler far above the mode's config-player entries; the mode stops
        # (completely) during the hold, then the queue is released: the entries are still in the dispatcher's snapshot
        m = r.choice(cq)
        burst = [["ev", "start_" + m] if not chosen[m][2] or r.random() < 0.5 else ["qev", "start_" + m], ["adv", r.choice([1, 2])]]
        if r.random() < 0.3:
            burst.append(["ev", "qe_" + m])      # an ordinary play while the mode is up
        if chosen[m][3] in CTLQ or r.random() < 0.3:
            for _ in range(r.choice([0, 1, 2])):
                burst.append(["addhq", m])                 # mode code: add_mode_event_handler on the queue event
        if chosen[m][3] in CTLQ and r.random() < 0.4:
            burst.append(["ev", r.choice(["dis_", "en_", "y_"]) + m])
        burst.append(["qhold", m, r.choice([0, 3, 6, 10])])
        if r.random() < 0.8:
            if r.random() < 0.3:
                burst.append(["adv", 1])
            burst.append(r.choice([["stop", m], ["ev", "stop_" + m]] + ([["ballend"]] if chosen[m][1] else [])))
            if r.random() < 0.25:
                burst += [["adv", r.choice([1, 2])], ["ev", "start_" + m]]     # up again (a new run) when the queue is released
        burst.append(["adv", r.choice([1, 4, 12])])
        at = r.randint(0, len(ops))
        ops[at:at] = burst
    for _ in range(r.choice([0, 1, 1, 2])):
        prio_burst(r, names, chosen, hooks, ops)
    if r.random() < 0.3:
        # delays of the mode pending when the stop is accepted, the mode_<n>_stopping queue event held open across their
        # deadlines (Mode.stop cancels them at once, not only when the queue is released)
        m = r.choice(names)
        k = r.choice([4, 8, 12])
        hooks.append({"mode": m, "phase": "stopping", "prio": r.choice([1, 5000]), "acts": [["wait", k]]})
        burst = [["ev", "start_" + m], ["adv", r.choice([1, 2])]]
        burst += [["delay", m, r.choice([1, 2, 3, 5, k - 1, k, k + 1])] for _ in range(r.choice([1, 2, 3]))]
        if r.random() < 0.4:
            burst.append(["adv", 1])
        burst += [r.choice([["stop", m], ["ev", "stop_" + m]]), ["adv", k + 3]]
        at = r.randint(0, len(ops))
        ops[at:at] = burst
    cd = [m for m in names if chosen[m][3] in COND]
    if cd:
        def setv():
            if game and r.random() < 0.4:
                return ["setpvar", "c07p", r.choice([0, 1, 1, 2])]
            return ["setvar", r.choice(["c07a", "c07b"]), r.choice([0, 1, 2])]
        for _ in range(r.choice([1, 2, 3])):
            # the variables of the conditions change while the mode is up (every change re-makes the subscription), before
            # it starts and after it stopped; the conditional start event is posted with the condition true and false
            m = r.choice(cd)
            burst = [setv() for _ in range(r.choice([0, 1]))]
            burst.append(r.choice([["ev", "start_" + m], ["ev", "cstart_" + m], ["ev", "cstart_" + m]]))
            burst.append(["adv", r.choice([1, 2])])
            for _ in range(r.choice([1, 2, 4])):
                burst.append(setv())
                if r.random() < 0.5:
                    burst.append(["ev", r.choice(["ping_", "cnt_"]) + m])
            burst.append(r.choice([["stop", m], ["ev", "stop_" + m]] + ([["ballend"]] if chosen[m][1] else [])))
            if r.random() < 0.5:
                burst.append(setv())
            burst.append(["adv", r.choice([1, 4])])
            at = r.randint(0, len(ops))
            ops[at:at] = burst
        for h in hooks:
            if r.random() < 0.3:
                h["acts"].insert(r.randint(0, len(h["acts"])), setv())
    for o in ops:
        if o[0] in ("addh", "addhq", "addsw"):
            del o[2:]
    callback_requests(r, names, chosen, hooks, ops)
    return {"kind": "modes", "game": game, "modes": chosen, "hooks": hooks, "ops": ops}


def callback_requests(r, names, chosen, hooks, ops):
    """API requests that carry a callback (Mode.start(callback=cb), Mode.stop(callback=cb), a fresh recording cb per request):
    about half of the direct start / stop requests generated so far (top level and in hooks, so also while the mode is active,
    starting, stopping - turned down - and from lifecycle handlers), and in 60% of the cases one burst 'start with a callback,
    stop, start again WITHOUT one (start event / direct / queue event), stop with a callback (twice: the second while stopping
    or stopped already)' mixed into the ops.  Drawn last: the rest of the case is what it was without them."""
    for o in ops + [a for h in hooks for a in h["acts"]]:
        if o[0] == "start" and r.random() < 0.5:
            o[2:] = [o[2] if len(o) > 2 else None, "cb"]
        elif o[0] == "stop" and r.random() < 0.5:
            o[2:] = ["cb"]
    if r.random() < 0.6:
        m = r.choice(names)
        burst = [["start", m, None, "cb"], ["adv", r.choice([1, 2, 4])]]
        burst.append(r.choice([["stop", m], ["stop", m, "cb"], ["ev", "stop_" + m]]))
        if r.random() < 0.7:
            burst.append(["adv", r.choice([1, 2, 4])])
        burst.append(r.choice([["ev", "start_" + m], ["start", m, None], ["qev", "start_" + m], ["start", m, None, "cb"]]))
        burst.append(["adv", r.choice([1, 2, 4])])
        burst.append(["stop", m, "cb"])
        if r.random() < 0.5:
            burst.append(["stop", m, "cb"])
        burst.append(["adv", r.choice([1, 4])])
        if r.random() < 0.5:
            burst += [r.choice([["ev", "start_" + m], ["start", m, None]]), ["adv", r.choice([1, 2])]]
        at = r.randint(0, len(ops))
        ops[at:at] = burst


def prio_burst(r, names, chosen, hooks, ops):
    """start requests that carry a priority (direct call with mode_priority, the start event posted with a mode_priority
    kwarg) and repeated start requests while the mode is active / still starting / stopping (its queue event held open), with
    priorities chosen around those of the other modes: a request that is turned down must not touch the running mode, and
    active_modes (sorted only when a mode becomes active / inactive) must stay ordered by priority"""
    a = r.choice(names)
    others = [m for m in names if m != a]
    marks = sorted({chosen[m][0] for m in names} | {150, 250})

    def near():
        return r.choice(marks) + r.choice([-50, -1, 0, 1, 50])

    def request(m, explicit=True):
        x = r.random()
        if x < 0.4:
            return ["start", m, near() if explicit else None]
        if x < 0.8 and explicit:
            return ["ev", "start_" + m, {"mode_priority": near()}]
        return ["ev", "start_" + m]
    first_explicit = True
    burst = []
    hold = r.random()
    if hold < 0.2:
        hooks.append({"mode": a, "phase": "starting", "prio": r.choice([1, 5000]), "acts": [["wait", r.choice([2, 5])]]})
    elif hold < 0.5:
        hooks.append({"mode": a, "phase": "stopping", "prio": r.choice([1, 5000]), "acts": [["wait", r.choice([3, 6])]]})
    for m in others:
        if r.random() < 0.8:
            burst.append(request(m, r.random() < 0.5))
    burst.insert(r.randint(0, len(burst)), request(a, first_explicit and r.random() < 0.6))
    if hold < 0.2:
        burst += [request(a) for _ in range(r.choice([1, 2]))]       # while still starting
    burst.append(["adv", r.choice([1, 2, 6])])
    burst += [request(a) for _ in range(r.choice([1, 2, 3]))]         # while active
    if r.random() < 0.3:
        burst.append(["adv", 1])
    if r.random() < 0.7:
        burst.append(r.choice([["stop", a], ["ev", "stop_" + a]]))
        burst += [request(a) for _ in range(r.choice([1, 2]))]        # while stopping (held) or stopped already (accepted)
        if r.random() < 0.5:
            burst += [["adv", r.choice([1, 4])], request(a, first_explicit)]
    burst.append(["adv", r.choice([1, 4, 8])])
    at = r.randint(0, len(ops))
    ops[at:at] = burst


# ---------------------------------------------------------------------------------------------------------------------
# calibration: which handlers a mode configuration registers in start() / on started, and what removes them
# ---------------------------------------------------------------------------------------------------------------------
_CAL = {}


def calibrate(name, spec):
    key = (name, tuple(spec))
    if key in _CAL:
        return _CAL[key]
    from harness.common.vmachine import BootError
    _install()
    case = {"kind": "modes", "game": bool(spec[1]), "modes": {name: list(spec)}, "hooks": [], "ops": []}
    try:
        vm = build_vm(case).start()
    except BootError as e:
        raise InfraError("calibration boot failed: %s" % e)
    try:
        real = Real(vm, case, calib=True)
        Rec.cur = real
        try:
            vm.run()
            if case["game"]:
                vm.start_game()
                vm.advance(1)
            vm.align()
            s0 = real.dumps()
            real.act(["start", name])
            vm.advance(1)
            if not vm.machine.modes[name].active:
                raise InfraError("calibration: mode %s did not start" % name)
            drain(vm)
            s2 = real.dumps()
            real.act(["stop", name])
            vm.advance(1)
            drain(vm)
            s5 = real.dumps()
        finally:
            Rec.cur = None
        s1 = real.snaps[(name, "start")]
        s3 = real.snaps[(name, "_stopped")]
        s4 = real.snaps[(name, "_mode_stopped_callback")]      # noqa: F841 (kept for debugging)
        prio = spec[0]

        def rel(ents):
            return sorted((e[0], e[1] - prio, e[2], e[3], e[4]) for e in ents)
        dev, _ = msub(s2["bus"], s1["bus"])
        cfg, _ = msub(s2["bus"], s3["bus"])
        st, _ = msub(s1["bus"], s0["bus"])
        own, _ = msub(st, cfg)
        # at the quiescent point after the stop (a cancelled subscription's handlers go in the next iteration of the loop)
        leak = [msub(s5[k], s0[k]) for k in ("bus", "sw", "dl", "tm", "fx")]
        res = {"own": rel(own), "cfg": rel(cfg), "dev": rel(dev), "leak": leak if any(a or b for a, b in leak) else None}
        _CAL[key] = res
        return res
    finally:
        vm.stop()


def mid(name):
    return int(name[1:])


def real_state_line(case, real, q, cal):
    snap, act, dumps = q[1], q[2], q[3]
    bus, missing = msub(dumps["bus"], real.base["bus"])
    parts = []
    for n in sorted(case["modes"]):
        a, s_, p, pr = snap[n]
        shift = (pr - case["modes"][n][0]) if (a or s_) else None
        counts = []
        for cls in ("own", "cfg", "dev"):
            k = 0
            for e in cal[n][cls]:
                # a mode started with an explicit mode_priority: handlers registered through add_mode_event_handler move with
                # mode.priority, those a device registers at a priority of its own configuration do not, and
                # ModeDevice.add_control_events_in_mode passes mode.priority + 21 to add_mode_event_handler, which adds it again
                for sh in ([shift, 0, 2 * shift] if shift else [0]):
                    x = (e[0], e[1] + case["modes"][n][0] + sh, e[2], e[3], e[4])
                    if x in bus:
                        bus.remove(x)
                        k += 1
                        break
            counts.append(k)
        turn = [e for e in bus if e[3] == n and e[2] == TURN_END_CB and e[0] == "mode_%s_started" % n]
        for e in turn:
            bus.remove(e)
        counts.append(len(turn))
        users = sorted(int(e[4][1:]) for e in bus if e[3] == n and e[4].startswith("u"))
        bus = [e for e in bus if not (e[3] == n and e[4].startswith("u"))]
        parts.append("%d:%d%d%d,%d,%d,%d,%d,%d,%s" % (mid(n), a, s_, p, pr, counts[0], counts[1], counts[2], counts[3],
                                                   ",".join("%d.%d" % (mid(n), u) for u in users)))
    line = " ".join(parts) + " | act=" + ",".join(str(mid(n)) for n in act)
    sw, msw = msub(dumps["sw"], real.base["sw"])
    dl, mdl = msub(dumps["dl"], real.base["dl"])

    def users_of(ents, pref):
        ids, rest = [], []
        for e in ents:
            m = re.match(pref + r"(\d+)$", str(e[-1]))
            if m:
                ids.append(int(m.group(1)))
            else:
                rest.append(e)
        return ",".join("%d.%d" % (mid(real.user[u][1]), u) for u in sorted(ids)), rest
    sws, rsw = users_of(sw, "c07sw")
    dls, rdl = users_of(dl, "c07dl")

    def device_timer_of_running_mode(e):
        """a mode device's own delay (e.g. a counter's logic_block_timeout) while its mode is up: device-internal, not
        modelled; once the mode is idle it counts as left behind"""
        m = re.search(r"@\w+_(m\d)$", str(e[-1]))
        return bool(m) and m.group(1) in snap and any(snap[m.group(1)][:3])
    rdl = [e for e in rdl if not device_timer_of_running_mode(e)]

    def device_handler_of_running_mode(e):
        """an event handler a mode device registers for itself while it works (e.g. an enabled ball save's ball_drain
        handler): device-internal, not modelled, while its mode is up; once the mode is idle it counts as left behind"""
        m = re.search(r"@\w+_(m\d)$", str(e[2]))
        return bool(m) and m.group(1) in snap and any(snap[m.group(1)][:3])
    bus = [e for e in bus if not device_handler_of_running_mode(e)]
    line += " | sw=" + sws + " | dl=" + dls
    fx, mfx = msub(dumps["fx"], real.base["fx"])
    fxs = []
    for n in sorted(case["modes"]):
        ids = fx_of_mode(fx, n)
        fxs += ["%d.%d" % (mid(n), i) for i in ids]
        fx = [e for e in fx if not of_mode(e, n)]
    # light stack entries written by a running show belong to the show instance (already counted under its context)
    fx = [e for e in fx if not ((e[0] == "light" and e[2].startswith("show_")) or (e[0] == "inst" and e[2].startswith("show_")))]
    line += " | fx=" + ",".join(fxs)
    line += " | tm=" + ",".join("%d.%d" % (mid(m), u) for u, m in dumps["tm"])
    extra = bus + missing + rsw + msw + rdl + mdl + fx + mfx
    if extra:
        line += " | unexplained=" + repr(extra[:5])
    return line


INNER_OPS = ("cfgplay", "cfgsub", "addtm", "remtm", "firetm", "ctlcall")


def user_op(e, window, ops, exp):
    """e = ("user", kind, mode, ...) logged outside a lifecycle call (window None) or inside the call `window`"""
    if e[1] == "cfgplay":
        ops.append("cfgplay %d %d" % (mid(e[2]), e[3]))
        exp.append("played" if e[4] else "skipped")
    elif e[1] in ("addh", "addsw", "adddl"):
        ops.append("%s %d %d" % (e[1], mid(e[2]), e[3]))
        exp.append("ok")
    elif e[1] == "ctlcall":
        ops.append("ctlcall %d %s" % (mid(e[2]), "-" if e[3] is None else e[3]))
        exp.append("acted" if e[4] else "ignored")
    elif e[1] == "cfgsub":
        ops.append("cfgsub %d %d %d" % (mid(e[2]), e[3], 1 if e[4] else 0))
        exp.append("ok")
    elif e[1] in ("addtm", "firetm"):
        ops.append("%s %d %d" % (e[1], mid(e[2]), e[3]))
        exp.append("ok")
    elif e[1] == "remtm":
        # a removal made by the cleanup of a stop (device_removed_from_mode in _finish_stop: from _mode_stopped_callback or
        # at the beginning of a restart) is what the model's cleanup has to do by itself
        if window not in ("_mode_stopped_callback", "start"):
            ops.append("remtm %d %d" % (mid(e[2]), e[3]))
            exp.append("ok")


def schedule(case, real, cal):
    """observed log -> ([model op line], [expected answer]); None when lifecycle calls were nested"""
    ops, exp = ["reset"], ["ok"]
    for n in sorted(case["modes"]):
        spec = case["modes"][n]
        ops.append("mode %d %d %d %d %d %d" % (mid(n), spec[0], 1 if spec[2] else 0, len(cal[n]["own"]),
                                               len(cal[n]["cfg"]), len(cal[n]["dev"])))
        exp.append("ok")
    L = real.L
    i = 0
    names = {"_started": "started", "_mode_started_callback": "startedcb", "_stopped": "stopped",
             "_mode_stopped_callback": "stoppedcb"}
    while i < len(L):
        e = L[i]
        if e[0] == "call":
            if e[4] != 0:
                return None
            posts = []
            inner = []
            j = i + 1
            while L[j][0] != "ret":
                if L[j][0] == "post":
                    posts.append(ABBR[L[j][2]] + str(mid(L[j][1])))
                elif L[j][0] == "call":
                    return None
                elif L[j][0] == "user" and L[j][1] in INNER_OPS:
                    inner.append(L[j])
                elif L[j][0] == "user" and L[j][1] in ("addh", "addsw", "adddl"):
                    # custom mode code: mode_stop() runs inside _finish_stop before the cleanup, mode_start() in the callback
                    if e[1] in ("_mode_stopped_callback", "start"):
                        ops.append("%s %d %d" % (L[j][1], mid(L[j][2]), L[j][3]))
                        exp.append("ok")
                    else:
                        inner.append(L[j])
                j += 1
            m = mid(e[2])
            if e[1] == "start":
                ops.append("start %d %s %d %d" % (m, "-" if e[3][0] is None else e[3][0], e[3][1], e[3][2]))
                exp.append(" ".join(posts) or "ignored")
            elif e[1] == "stop":
                ops.append("stop %d" % m)
                exp.append(" ".join(posts) or "ignored")
            else:
                ops.append("%s %d" % (names[e[1]], m))
                exp.append(" ".join(posts) or "ok")
            for u in inner:
                user_op(u, e[1], ops, exp)
            i = j
        elif e[0] == "user" and e[1] == "turnend":
            ops.append("turnend %d" % mid(e[2]))
            exp.append("ok")
        elif e[0] == "user" and e[1] in INNER_OPS:
            user_op(e, None, ops, exp)
        elif e[0] == "user":
            ops.append("%s %d %d" % (e[1], mid(e[2]), e[3]))
            exp.append("ok")
        elif e[0] == "q":
            ops.append("state")
            exp.append(real_state_line(case, real, e, cal))
        i += 1
    return ops, exp


def run_model(model, ops):
    out = []
    for o in ops:
        a = model.ask(o)
        if a == "bad-op":
            raise InfraError("model rejected %r" % o)
        out.append(a)
    return out


# ---------------------------------------------------------------------------------------------------------------------
def check_case(case):
    real, crash = run_real(case)
    return oracle(case, real, crash), real


def units_of(case):
    return [("h", i) for i in range(len(case["hooks"]))] + [("o", i) for i in range(len(case["ops"]))]


def restrict(case, units):
    keep = set(units)
    return dict(case, hooks=[h for i, h in enumerate(case["hooks"]) if ("h", i) in keep],
                ops=[o for i, o in enumerate(case["ops"]) if ("o", i) in keep])


def shrink(case, sig):
    def fails(units):
        res, _ = check_case(restrict(case, units))
        return res is not None and res[0] == sig
    small = restrict(case, ddmin(units_of(case), fails, max_tests=80))
    res, _ = check_case(small)
    if res is None or res[0] != sig:
        return case, None
    return small, res


def one_case(ctx, model, case, sample=True):
    real, crash = run_real(case)
    ctx.evaluated(case, is_nontrivial(case, real), sample=sample)
    if real is not None:
        for e in real.L:
            if e[0] == "call":
                ctx.count("call_" + e[1])
            elif e[0] == "ctl":
                ctx.count("delayed_control_call_scheduled")
            elif e[0] in ("hook", "hold", "user"):
                ctx.count(e[0] if e[0] != "user" else "user_" + e[1])
            elif e[0] == "post" and e[2] == "stopped":
                ctx.count("cycles")
        ctx.count("delayed_control_call_fired", sum(1 for f in real.fired if f[0] == "ctl"))
        ctx.count("delayed_control_call_died_with_mode", sum(1 for e in real.L if e[0] == "ctl") - sum(1 for f in real.fired if f[0] == "ctl"))
        for c in real.cbs:
            ctx.count("%s_with_callback_%s" % (c["kind"], "accepted" if c["accepted"] else "refused"))
            if c["kind"] == "start" and c["accepted"] and real.n_ws[c["mode"]] > c["cycle"]:
                ctx.count("start_with_callback_followed_by_later_start")
        ctx.count("later_cycle_added_after_callback_start", real.later_cycles)
        if case["game"] and cycles_done(real) == 0:
            ctx.count("vacuous_no_cycle")
        if real.cfg_after_stop:
            ctx.count("observation_config_player_played_for_inactive_mode")
        for kind, k in sorted(real.stale_calls.items()):
            # called from a queue event's snapshot after the mode had removed it: the registries are unchanged (checked), so the
            # property's text is not violated by the call itself
            ctx.count("observation_stale_call_from_queue_snapshot:" + kind, k)
        for f in real.fired:
            if f[3] == "stopping":
                # between the accepted stop and _stopped: 'once a mode has stopped' does not cover it (C13 does); the model does
                # (accepted_stop_cancels_delays), so for a delay that was pending at the stop the correspondence reports it
                ctx.count("observation_fired_while_stopping:" + {"dl": "delay", "h": "handler", "sw": "switch-handler", "ctl": "control-event"}[f[0]])
        for e in real.L:
            if e[0] == "q" and not any(st[0] or st[1] or st[2] for st in e[1].values()) and REMEMBERED:
                ctx.count("observation_remembered_subscription_value_survives_stop")
                break
    REMEMBERED.clear()
    res = oracle(case, real, crash)
    if res is not None:
        if res[0] in KNOWN_SIGS and any(f["signature"] == res[0] for f in ctx.failures):
            ctx.count("known_" + res[0])        # recorded once per run, shrunk once
            return
        small, r2 = shrink(case, res[0])
        ctx.fail(res[0], small, (r2 or res)[1])
        return
    if model is not None:
        cal = {}
        for n in case["modes"]:
            cal[n] = calibrate(n, case["modes"][n])
            if cal[n]["leak"]:
                lk = cal[n]["leak"]
                only_wait = all(x[2] == "partial(EventManager._wait_handler)" for x in lk[0][0]) and lk[0][0] and \
                    not lk[0][1] and not any(a or b for a, b in lk[1:])
                ctx.fail("registry-leak:template-subscription-handlers" if only_wait else "registry-leak:calibration-cycle", {"kind": "modes", "game": bool(case["modes"][n][1]),
                                                             "modes": {n: case["modes"][n]}, "hooks": [],
                                                             "ops": [["start", n, None], ["adv", 8], ["stop", n]]},
                         {"leak": cal[n]["leak"]})
                return
        sch = schedule(case, real, cal)
        if sch is None:
            ctx.count("nested_lifecycle_calls_skipped")
            return
        ops, exp = sch
        got = run_model(model, ops)
        bad = [k for k in range(len(ops)) if exp[k] != got[k]]
        ctx.compare(dict(case, what="schedule replay", first_diff=(ops[bad[0]] if bad else None)), exp, got)


def corpus():
    c = []
    # D12: a delay added on the mode's delay manager inside mode_<n>_stopping
    c.append({"kind": "modes", "game": False, "modes": {"m1": [200, False, False, "plain"]},
              "hooks": [{"mode": "m1", "phase": "stopping", "prio": 1, "acts": [["delay", "m1", 2]]}],
              "ops": [["start", "m1", None], ["adv", 2], ["stop", "m1"], ["adv", 8]]})
    # the same with a switch handler, registered from the will_stop handler (stop() has removed them already)
    c.append({"kind": "modes", "game": False, "modes": {"m1": [200, False, False, "plain"]},
              "hooks": [{"mode": "m1", "phase": "will_stop", "prio": 1, "acts": [["addsw", "m1"]]}],
              "ops": [["start", "m1", None], ["adv", 2], ["stop", "m1"], ["adv", 8], ["hitsw"]]})
    # (fixed) restart from a handler of mode_<n>_stopped: the restarted mode used to lose its handlers to the pending callback
    c.append({"kind": "modes", "game": False, "modes": {"m1": [200, False, False, "plain"]},
              "hooks": [{"mode": "m1", "phase": "stopped", "prio": 1, "acts": [["start", "m1"]]}],
              "ops": [["start", "m1", None], ["adv", 2], ["stop", "m1"], ["adv", 8]]})
    # five cycles of a mode with devices and players, by event, with user registrations in every cycle
    for spec, game in (([300, False, False, "dev"], False), ([100, False, True, "dev2"], False), ([200, True, False, "gamey"], True)):
        ops = []
        for k in range(5):
            ops += [["ev", "start_m1"], ["addh", "m1"], ["addsw", "m1"], ["delay", "m1", 30], ["adv", 3], ["ev", "stop_m1"], ["adv", 2]]
        c.append({"kind": "modes", "game": game, "modes": {"m1": spec}, "hooks": [], "ops": ops})
    # D13 (fixed on main): a counter with logic_block_timeout in a non-game mode; the mode stops while the timeout delay
    # is pending - the delay must die with the mode (it used to fire on the removed block: AttributeError)
    c.append({"kind": "modes", "game": False, "modes": {"m1": [200, False, False, "timeout"]}, "hooks": [],
              "ops": [["start", "m1", None], ["adv", 2], ["ev", "cnt_m1"], ["adv", 2], ["stop", "m1"], ["adv", 30],
                      ["start", "m1", None], ["ev", "cnt_m1"], ["adv", 30], ["ev", "cnt_m1"], ["stop", "m1"], ["adv", 30]]})
    # a delayed control event (dict form) posted shortly before the stop: the pending call must die with the mode, on
    # whichever delay manager it was scheduled; a second cycle lets one elapse while the mode is still up
    c.append({"kind": "modes", "game": False, "modes": {"m1": [200, False, False, "dly"]}, "hooks": [],
              "ops": [["start", "m1", None], ["adv", 2], ["ev", "arm_m1"], ["ev", "rst_m1"], ["adv", 1], ["stop", "m1"], ["adv", 12],
                      ["ev", "start_m1"], ["ev", "arm_m1"], ["adv", 4], ["ev", "dis_m1"], ["ev", "stop_m1"], ["adv", 12]]})
    c.append({"kind": "modes", "game": True, "modes": {"m1": [250, True, False, "gamedly"]}, "hooks": [],
              "ops": [["ev", "start_m1"], ["adv", 2], ["ev", "arm_m1"], ["ev", "rst_m1"], ["adv", 1], ["ballend"], ["adv", 12]]})
    # the turn ends while a game mode is still starting (ec3e75c): one-shot ModeController handler on mode_<n>_started,
    # gone once it fired; also with two turn ends before the mode has started, and with the game ending first
    c.append({"kind": "modes", "game": True, "modes": {"m1": [300, False, False, "dev"], "m2": [200, True, True, "gamey"]},
              "hooks": [{"mode": "m2", "phase": "starting", "prio": 5000, "acts": [["wait", 9], ["ev", "stop_m1"]]}],
              "ops": [["qev", "start_m2"], ["stop", "m1"], ["start", "m1", None], ["ballend"], ["ev", "start_m2"], ["adv", 16]]})
    c.append({"kind": "modes", "game": True, "modes": {"m2": [200, True, False, "gamey"]},
              "hooks": [{"mode": "m2", "phase": "starting", "prio": 1, "acts": [["wait", 9]]}],
              "ops": [["ev", "start_m2"], ["ballend"], ["ballend"], ["adv", 16], ["ev", "start_m2"], ["adv", 16]]})
    c.append({"kind": "modes", "game": True, "modes": {"m2": [200, True, False, "plain"]},
              "hooks": [{"mode": "m2", "phase": "starting", "prio": 1, "acts": [["wait", 9]]}],
              "ops": [["ev", "start_m2"], ["ballend"], ["ballend"], ["ballend"], ["ballend"], ["ballend"], ["adv", 16]]})
    # config players keyed on an event posted as a QUEUE event which a higher handler holds open while the mode stops
    # completely: the entries are still in the dispatcher's snapshot when the queue is released (config_play_callback's guard);
    # second cycle: the mode is up again (a new run) when the queue is released
    c.append({"kind": "modes", "game": False, "modes": {"m1": [200, False, False, "cfgq"]}, "hooks": [],
              "ops": [["ev", "start_m1"], ["adv", 2], ["ev", "qe_m1"], ["qhold", "m1", 6], ["stop", "m1"], ["adv", 12],
                      ["ev", "start_m1"], ["adv", 1], ["qhold", "m1", 6], ["ev", "stop_m1"], ["adv", 1], ["ev", "start_m1"], ["adv", 12]]})
    c.append({"kind": "modes", "game": True, "modes": {"m1": [250, True, False, "gamecfgq"]}, "hooks": [],
              "ops": [["ev", "start_m1"], ["adv", 2], ["qhold", "m1", 10], ["ballend"], ["adv", 16]]})
    # conditional entries (template subscriptions): variables change while the mode is up (one and two variables per
    # condition), the mode stops; stop and restart inside one run of the event queue (a subscription cancelled before its
    # task ran for the first time); custom mode code; persist_state devices with restart_on_next_ball
    c.append({"kind": "modes", "game": False, "modes": {"m1": [200, False, False, "cond"]}, "hooks": [],
              "ops": [["ev", "start_m1"], ["adv", 2], ["setvar", "c07a", 1], ["setvar", "c07a", 2], ["setvar", "c07a", 1],
                      ["setvar", "c07b", 2], ["ev", "ping_m1"], ["stop", "m1"], ["adv", 4], ["setvar", "c07a", 1],
                      ["ev", "cstart_m1"], ["adv", 2], ["setvar", "c07b", 1], ["ev", "stop_m1"], ["adv", 4]]})
    c.append({"kind": "modes", "game": False, "modes": {"m2": [300, False, True, "cond"]},
              "hooks": [{"mode": "m2", "phase": "started", "prio": 5000, "acts": [["stop", "m2"]]},
                        {"mode": "m2", "phase": "stopped", "prio": 1, "acts": [["start", "m2"]]}],
              "ops": [["start", "m2", None], ["adv", 4]]})
    # a player variable of a condition changes (the subscription fires) and the mode stops in the same run of the event queue:
    # the subscription must not be made again after unload_player_events (found by the thorough stream, fixed)
    c.append({"kind": "modes", "game": True,
              "modes": {"m1": [200, False, False, "dly"], "m2": [250, True, False, "gametimer"], "m3": [150, True, False, "gamecond"]},
              "hooks": [{"mode": "m2", "phase": "stopping", "prio": 1, "acts": [["stop", "m3"]]},
                        {"mode": "m2", "phase": "will_stop", "prio": 1, "acts": [["setpvar", "c07p", 1], ["ev", "start_m3"], ["stop", "m2"]]}],
              "ops": [["qev", "start_m3"], ["ev", "start_m2"], ["ev", "stop_m2"]]})
    c.append({"kind": "modes", "game": True, "modes": {"m1": [250, True, False, "gamecond"]}, "hooks": [],
              "ops": [["start", "m1", None], ["adv", 2], ["setpvar", "c07p", 1], ["setvar", "c07a", 1], ["ev", "ping_m1"],
                      ["ballend"], ["adv", 8]]})
    c.append({"kind": "modes", "game": True, "modes": {"m1": [200, False, False, "code"], "m3": [150, True, False, "gamecode"]},
              "hooks": [], "ops": [["ev", "start_m1"], ["ev", "start_m3"], ["adv", 2], ["hitsw"], ["ev", "stop_m1"], ["adv", 4],
                                   ["ev", "stop2_m3"], ["adv", 4], ["ev", "start_m3"], ["adv", 1], ["ballend"], ["adv", 8]]})
    c.append({"kind": "modes", "game": True, "modes": {"m1": [200, True, False, "gamepersist"]}, "hooks": [],
              "ops": [["ev", "start_m1"], ["adv", 2], ["ev", "en_m1"], ["ev", "cnt_m1"], ["ballend"], ["adv", 8], ["ev", "cnt_m1"],
                      ["ev", "stop_m1"], ["adv", 2], ["ev", "start_m1"], ["adv", 2], ["ballend"], ["adv", 8]]})
    # start requests that are turned down carry a priority (direct and through the start event), while the mode is active and
    # while it is stopping (queue held): priority and order of active_modes stay (seeded: priority assigned before the guards)
    c.append({"kind": "modes", "game": False, "modes": {"m1": [200, False, False, "plain"], "m3": [400, False, False, "plain"]},
              "hooks": [{"mode": "m1", "phase": "stopping", "prio": 1, "acts": [["wait", 6]]}],
              "ops": [["start", "m1", 150], ["ev", "start_m3"], ["adv", 2], ["ev", "start_m1"], ["start", "m1", 401],
                      ["ev", "start_m1", {"mode_priority": 500}], ["adv", 1], ["stop", "m1"], ["start", "m1", 450],
                      ["ev", "start_m1", {"mode_priority": 399}], ["adv", 8], ["ev", "start_m1", {"mode_priority": 401}], ["adv", 2]]})
    # delays of the mode pending at the stop, the stopping queue held open across their deadlines
    c.append({"kind": "modes", "game": False, "modes": {"m1": [200, False, False, "dev"]},
              "hooks": [{"mode": "m1", "phase": "stopping", "prio": 1, "acts": [["wait", 8]]}],
              "ops": [["start", "m1", None], ["adv", 2], ["delay", "m1", 3], ["delay", "m1", 8], ["stop", "m1"], ["adv", 12]]})
    # device control events (direct, delayed) and handlers of mode code in the snapshot of a held queue event; the mode stops
    # completely during the hold (fixed: the control methods ran on removed devices / scheduled delays on the stopped mode)
    c.append({"kind": "modes", "game": False, "modes": {"m1": [200, False, False, "ctlq"]}, "hooks": [],
              "ops": [["ev", "start_m1"], ["adv", 2], ["ev", "qe_m1"], ["adv", 1], ["addhq", "m1"], ["qhold", "m1", 6], ["stop", "m1"],
                      ["adv", 12], ["ev", "start_m1"], ["adv", 1], ["ev", "dis_m1"], ["addhq", "m1"], ["qhold", "m1", 3],
                      ["ev", "stop_m1"], ["adv", 1], ["ev", "start_m1"], ["adv", 12]]})
    c.append({"kind": "modes", "game": True, "modes": {"m1": [250, True, False, "gamectlq"]}, "hooks": [],
              "ops": [["ev", "start_m1"], ["adv", 2], ["ev", "dis_m1"], ["addhq", "m1"], ["qhold", "m1", 10], ["ballend"], ["adv", 16]]})
    # use_wait_queue mode started by a queue event, stopping held open, a second mode overlapping at the same priority
    c.append({"kind": "modes", "game": False, "modes": {"m1": [200, False, True, "plain"], "m2": [200, False, False, "plain"]},
              "hooks": [{"mode": "m1", "phase": "stopping", "prio": 1, "acts": [["wait", 5]]},
                        {"mode": "m1", "phase": "started", "prio": 5000, "acts": [["start", "m2"], ["stop", "m1"]]}],
              "ops": [["qev", "start_m1"], ["adv", 2], ["start", "m1", None], ["adv", 8], ["stop", "m2"]]})
    # API requests with a callback: start with a callback, stop, started again by the start event and directly without one
    # (seeded: the callback of the first request was kept and called again on every later start); a start with a callback that
    # is turned down (already active); stop with a callback while active, again while stopping (held), and when stopped
    c.append({"kind": "modes", "game": False, "modes": {"m1": [200, False, False, "plain"]}, "hooks": [],
              "ops": [["start", "m1", None, "cb"], ["adv", 2], ["start", "m1", None, "cb"], ["stop", "m1"], ["adv", 2],
                      ["ev", "start_m1"], ["adv", 2], ["ev", "stop_m1"], ["adv", 2], ["start", "m1", None], ["adv", 2],
                      ["stop", "m1", "cb"], ["adv", 2]]})
    c.append({"kind": "modes", "game": True, "modes": {"m1": [300, False, True, "dev"], "m2": [200, True, False, "gamey"]},
              "hooks": [{"mode": "m1", "phase": "stopping", "prio": 1, "acts": [["wait", 5]]},
                        {"mode": "m2", "phase": "started", "prio": 1, "acts": [["stop", "m2", "cb"]]}],
              "ops": [["start", "m1", None, "cb"], ["start", "m2", None, "cb"], ["adv", 2], ["stop", "m1", "cb"], ["adv", 1],
                      ["stop", "m1", "cb"], ["start", "m1", None, "cb"], ["adv", 8], ["stop", "m1", "cb"], ["qev", "start_m1"],
                      ["adv", 2], ["ev", "start_m2"], ["adv", 2], ["ballend"], ["adv", 8]]})
    # (found by this oracle, fixed on verif-C07-s3: the start callback is handed over in _started) the turn ends while a game
    # mode is still starting, so the mode controller stops it from a mode_<n>_started handler; a mode_<n>_stopped handler starts
    # it again with a callback - all of that runs before the callback of the first mode_<n>_started event, which then called the
    # callback of the SECOND start (twice in the end, the first time while the mode was only starting)
    c.append({"kind": "modes", "game": True, "modes": {"m2": [150, True, False, "gamecfgq"]},
              "hooks": [{"mode": "m2", "phase": "stopped", "prio": 5000, "acts": [["start", "m2", None, "cb"], ["addh", "m2"]]},
                        {"mode": "m2", "phase": "starting", "prio": 5000, "acts": [["wait", 9]]}],
              "ops": [["ev", "start_m2"], ["ballend"]]})
    c.append({"kind": "modes", "game": True, "modes": {"m2": [200, True, False, "plain"]},
              "hooks": [{"mode": "m2", "phase": "stopped", "prio": 1, "acts": [["start", "m2", None, "cb"]]},
                        {"mode": "m2", "phase": "starting", "prio": 1, "acts": [["wait", 9]]}],
              "ops": [["start", "m2", None, "cb"], ["ballend"], ["adv", 16]]})
    # the same without a game: stop from a started handler, restart with a callback from a stopped handler, twice nested; the
    # callbacks of the nested starts run last-first, each exactly once (unfixed: the last one three times, the first never)
    c.append({"kind": "modes", "game": False, "modes": {"m1": [200, False, True, "plain"]},
              "hooks": [{"mode": "m1", "phase": "stopped", "prio": 1, "acts": [["start", "m1", None, "cb"]]},
                        {"mode": "m1", "phase": "started", "prio": 1, "acts": [["stop", "m1"]]}],
              "ops": [["ev", "start_m1"]]})
    return c


def run(ctx):
    model = None if getattr(ctx, "model_unavailable", False) else leanproc.LeanProc(ID)
    try:
        for case in corpus():
            one_case(ctx, model, case)
        for i in range(ctx.n(600, 8000)):
            one_case(ctx, model, gen_case(ctx.rng("case", i)))
            if len([f for f in ctx.failures if f["signature"] not in KNOWN_SIGS]) >= 3:
                break
        ctx.notes["calibrated_mode_configurations"] = len(_CAL)
    finally:
        if model is not None:
            model.close()


def replay(ctx, rep):
    case = rep["case"]
    res, _ = check_case(case)
    if res is not None:
        ctx.fail(res[0], case, res[1])
