"""C03 - Switch state mirrors the hardware; handlers fire once per real change.

Implementation side: a real machine (VMachine, virtual time on the 1/8 s grid) with NO and NC switches; reports through
SwitchController.process_switch (raw and logical), handlers through add_switch_handler_obj / remove_switch_handler_obj,
queries through is_active/is_inactive(ms).  Every run of SwitchController._process_active_timed_switches (the single
wake-up per switch) is logged by a wrapper installed from the harness process and fed to the model as `wake`.
Model side: MpfVerif.Model.Switch via drv_c03 (one model instance per switch).
Oracle (model independent): computed from the timeline alone - state = last reported logical state and hw_state its raw
value; every change into a state calls each untimed registration for it once, in registration order, duplicates call
nothing; a registration with a hold time is called exactly at change+ms iff it was registered before that instant
(strictly), not removed before it and the switch did not change before it; nothing else is ever called.
A second stream (oracle only) checks the Switch device's events: <name>_active/_inactive, tag events,
events_when_activated with |ms and the ignore window.
"""
import json

from harness.common import leanproc, mpfleak
from harness.common.shrink import ddmin
from harness.common.util import InfraError
from harness.common.vmachine import VMachine, BootError

ID = "C03"
LEAN_MODULES = ["MpfVerif.Props.C03"]
PROPS_FILE = "MpfVerif/Props/C03.lean"
GEN = []
MANIFEST = {
  "text": "Proof on a Lean model of the switch controller's per-switch state (logical/raw state, last change, registered handlers per state, the insertion-ordered dict of pending hold-time deadlines and the single scheduled wake-up): for every sequence of raw/logical reports, handler registrations and removals, time steps and wake-ups, the logical state is the last reported one (NC inverted for raw reports) and the raw state its inverse image, a duplicate report changes nothing and calls nothing, a change calls exactly the untimed handlers registered for the new state once each in order, the wake-up is always scheduled at the minimum pending deadline and never overdue (so a timed handler is called exactly at change+ms, only while the switch has stayed in that state), and a removed handler is neither registered nor pending and is never called until it is added again. A second model covers the Switch device's own events: without an ignore window the configured events (<name>_active/_inactive, tag events, events_when_(de)activated) are posted exactly once per real change in order and never otherwise (events_once; |ms events are timed handlers of the controller model); with ignore_window_ms a change outside a window posts and opens a window ending exactly w later, changes inside it post nothing, the window end is never slept through and posts the current state iff the switch then differs from the state that opened it, so there is one post per window plus the catch-up, and whenever no window is open the last post equals the current state (recycle_window). Both models are tied to switch_controller.py and devices/switch.py by correspondence runs on real machines (NO and NC switches, tags, timed events, ignore window) on every check.",
  "note": "Trusted: Lean kernel + {propext, Quot.sound, Classical.choice}; hand-written Model/Switch.lean validated by differential runs; asyncio timer heap / TimeTravelLoop (time cannot pass a scheduled wake-up: built into the model's `to` step); 1/8 s time grid (floats exact). Handlers that register/remove handlers from inside a switch callback, muted switches, monitors and wait_for_switch futures are not modelled.",
  "technique": "Lean 4 invariants over all op sequences (induction over the op list) on two hand models (controller per switch, Switch device events) + differential correspondence with the real SwitchController/Switch + timeline oracles",
  "translated": False,
}
RULE = ("cases: 8-45 ops on 1-3 switches (NO/NC, some initially active): raw/logical reports incl. duplicates, add/remove of "
        "handlers (4 callback ids, state 0/1, hold times from {0,1,2,3,8} ticks, duplicates likely), is_active/is_inactive(ms) "
        "queries and advances from {0,1,1,2,3,4,9} ticks so that gaps straddle the hold times and handlers are added before, "
        "inside, exactly at and after a pending deadline; second stream: switches with tags, events_when_(de)activated incl. "
        "|ms and ignore_window_ms under report/advance sequences. non-trivial = at least one timed handler pending across an "
        "op and at least one callback; distinct = canonical JSON")
TRUSTED = [
    "modelled, not verified: asyncio timer heap / TimeTravelLoop (the scheduled wake-up runs before time passes it; order of "
    "same-instant wake-ups of different switches taken from the implementation), dict insertion order, functools.partial",
    "Model/Switch.lean is hand-written; tied to mpf/core/switch_controller.py by correspondence on every run",
    "the Dev model in Model/Switch.lean is hand-written; tied to mpf/devices/switch.py (_post_events, _post_events_with_recycle, "
    "_recycle_passed) by correspondence on every run, plus an independent timeline oracle for the posted events",
]
ASSUMPTIONS = ["hold times and report instants are multiples of 125 ms", "switch callbacks do not register/remove switch handlers",
               "switches are not muted; every configured switch event has a listener (events without one are not posted by design)",
               "outside C03 (the statement is about the logical state, which is right from start-up): Switch.hw_state is not "
               "initialised from the hardware - update_switches_from_hw sets only `state`, so an NC switch shows hw_state 0 until "
               "its first real change (a duplicate first raw report leaves it stale); hw_state is therefore compared only after the "
               "first change and the model is started from the implementation's initial hw_state"]

TICK = 0.125


def sw_config(sws):
    out = ["switches:"]
    for i, s in enumerate(sws):
        out.append("  s%d:\n    number: %d" % (i, i))
        if s["nc"]:
            out.append("    type: NC")
    return "\n".join(out) + "\n"


def first_of(ctx, sig):
    """shrink only the first failure of a signature (ddmin re-runs the real code up to 150 times)"""
    seen = ctx.notes.setdefault("shrunk_signatures", [])
    if sig in seen:
        return False
    seen.append(sig)
    return True


# ---------------------------------------------------------------------------------------------------- generator

def gen_case(r):
    nsw = r.choice([1, 1, 2, 2, 3])
    sws = [{"nc": r.random() < 0.4} for _ in range(nsw)]
    ops = []
    for _ in range(r.randint(8, 45)):
        k = r.random()
        i = r.randrange(nsw)
        st = r.choice([1, 1, 1, 0])
        ms = r.choice([0, 1, 2, 2, 3, 3, 8])
        cb = r.choice([0, 0, 1, 1, 2, 3])
        if k < 0.30:
            ops.append(["adv", r.choice([0, 1, 1, 1, 2, 2, 3, 4, 9])])
        elif k < 0.55:
            ops.append(["report", i, r.choice(["l", "r"]), r.choice([0, 1])])
        elif k < 0.78:
            ops.append(["add", i, st, ms, cb])
            if r.random() < 0.2:
                ops.append(["add", i, st, ms, cb])
        elif k < 0.92:
            ops.append(["rm", i, st, ms, cb])
        else:
            ops.append(["q", i, st, r.choice([0, 1, 2, 3])])
    ops.append(["adv", r.choice([3, 9])])
    return {"kind": "ctl", "sws": sws, "ops": ops}


# ---------------------------------------------------------------------------------------------------- real code

_wrapped = {}


def install_wake_logger():
    """Wrap SwitchController._process_active_timed_switches once per process; the active run (if any) gets the calls."""
    from mpf.core.switch_controller import SwitchController
    if _wrapped.get("cls") is SwitchController:
        return
    orig = SwitchController._process_active_timed_switches

    def logged(self, switch):
        run = _wrapped.get("run")
        if run is not None and run.vm is not None and run.vm.machine is not None and \
                self is run.vm.machine.switch_controller:
            if run.finished:
                return None       # teardown (or a runaway that was cut): drop the wake-up instead of re-arming it
            run.on_wake(switch)
        return orig(self, switch)
    SwitchController._process_active_timed_switches = logged
    _wrapped["cls"] = SwitchController


class CtlRun:
    def __init__(self, case, shared=None):
        """shared = (booted VMachine with switches s0..sN, index of the switch this one-switch case uses)"""
        self.case = case
        self.groups = []
        self.log = []
        self.funcs = {}
        self.vm = None
        self.finished = False
        self.crash = None
        self.wakes = 0
        self.shared = shared
        self.base = shared[1] if shared else 0

    def tick(self):
        x = (self.vm.now() - self.t0) / TICK
        return int(x) if x == int(x) else round(x, 6)

    def group(self, head):
        self.cur = {"head": head, "t": self.tick(), "obs": []}
        self.groups.append(self.cur)

    def func(self, i, cb, st, ms):
        """one plain function per (switch, cb id, state, ms): registering it twice is a duplicate registration"""
        key = (i, cb, st, ms)
        if key not in self.funcs:
            def f():
                if self.finished:
                    return
                t = self.tick()
                self.log.append(("call", i, cb, st, ms, t))
                self.cur["obs"].append("c %d %d %d %s" % (cb, st, ms, t))
            f.__name__ = "h_%d_%d_%d_%d" % key
            self.funcs[key] = f
        return self.funcs[key]

    def on_wake(self, switch):
        self.wakes += 1
        if self.wakes > 3000:     # a wake-up that re-arms itself at the same instant would spin for ever
            self.finished = True
            raise RuntimeError("runaway: more than 3000 wake-ups in one case")
        i = int(switch.name[1:]) - self.base
        if not 0 <= i < len(self.case["sws"]):
            return                # a switch of an earlier sequence on a shared machine
        self.group(["wake", i])
        self.log.append(("wake", i, self.tick()))

    def run(self):
        install_wake_logger()
        if self.shared is not None:
            self.vm = self.shared[0]
        else:
            self.vm = VMachine(sw_config(self.case["sws"]))
            try:
                self.vm.start()
            except BootError as e:
                raise InfraError("C03 machine does not boot: %s" % e)
        _wrapped["run"] = self
        try:
            vm = self.vm
            m = vm.machine
            sc = m.switch_controller
            self.switches = [m.switches["s%d" % (self.base + i)] for i in range(len(self.case["sws"]))]
            vm.align()
            self.t0 = vm.now()
            self.initial = [(1 if s.invert else 0, s.state, s.hw_state) for s in self.switches]
            for op in self.case["ops"]:
                if self.crash:
                    break
                try:
                    t = self.tick()
                    if op[0] == "adv":
                        self.log.append(("adv", t, t + op[1]))
                        vm.advance(op[1] * TICK)
                        self.group(["none"])
                        continue
                    sw = self.switches[op[1]]
                    self.group(op)
                    if op[0] == "report":
                        self.log.append(("report", op[1], op[2], op[3], t))
                        sc.process_switch(sw.name, op[3], logical=(op[2] == "l"))
                        self.log.append(("state", op[1], sw.state, sw.hw_state, t))
                    elif op[0] == "add":
                        self.log.append(("add", op[1], op[2], op[3], op[4], t))
                        sc.add_switch_handler_obj(sw, self.func(op[1], op[4], op[2], op[3]), op[2], op[3] * 125)
                    elif op[0] == "rm":
                        self.log.append(("rm", op[1], op[2], op[3], op[4], t))
                        sc.remove_switch_handler_obj(sw, self.func(op[1], op[4], op[2], op[3]), op[2], op[3] * 125)
                    elif op[0] == "q":
                        res = (sc.is_active if op[2] else sc.is_inactive)(sw, op[3] * 125)
                        self.log.append(("q", op[1], op[2], op[3], bool(res), t))
                        self.cur["obs"].append("a %d" % (1 if res else 0))
                    else:
                        raise InfraError("unknown op %r" % (op,))
                except InfraError:
                    raise
                except Exception as e:
                    self.crash = "%s: %s" % (type(e).__name__, e)
                    self.group(["crash"])
                    self.cur["obs"].append("crash " + type(e).__name__)
            self.end = self.tick()
            self.pending = [self.pending_line(i) for i in range(len(self.switches))]
        finally:
            self.finished = True
            try:
                if self.shared is None:
                    self.vm.stop()    # wake-ups during teardown are dropped by the logger (see install_wake_logger)
            finally:
                _wrapped["run"] = None
        return self

    def pending_line(self, i):
        sc = self.vm.machine.switch_controller
        sw = self.switches[i]
        name = {f: k for k, f in self.funcs.items()}
        parts = []
        for k, es in sc._active_timed_switches.get(sw, {}).items():
            kt = (k - self.t0) / TICK
            parts.append("%s:%s" % (int(kt) if kt == int(kt) else kt,
                                    ",".join("%d/%d/%d" % (name[e.callback][1], e.state, e.ms // 125) for e in es)))
        d = sc._timed_switch_handler_delay.get(sw)
        w = "-"
        if d is not None:
            wt = (d[1] - self.t0) / TICK
            w = "%s" % (int(wt) if wt == int(wt) else wt)
        return "T " + " ".join(parts) + " W " + w + " S %d%d" % (sw.state, sw.hw_state)


def model_lines(run):
    out = [("new", "ok")]
    for inv, st, hw in run.initial:
        out.append(("sw %d %d %d" % (inv, st, hw), "ok"))
    now = 0
    for g in run.groups:
        h = g["head"]
        if g["t"] != now:
            out.append(("to %s" % g["t"], "ok"))
            now = g["t"]
        exp = " ".join(g["obs"]) or "ok"
        if h[0] == "report":
            out.append(("%d report %s %d" % (h[1], h[2], h[3]), exp))
        elif h[0] == "add":
            out.append(("%d add %d %d %d" % (h[1], h[2], h[3], h[4]), exp))
        elif h[0] == "rm":
            out.append(("%d rm %d %d %d" % (h[1], h[2], h[3], h[4]), exp))
        elif h[0] == "q":
            out.append(("%d q %d %d" % (h[1], h[2], h[3]), exp))
        elif h[0] == "wake":
            out.append(("%d wake" % h[1], exp))
        elif h[0] == "crash":
            out.append(("crash", exp))
    for i, p in enumerate(run.pending):
        out.append(("%d pending" % i, p))
    return out


# ---------------------------------------------------------------------------------------------------- oracle

def oracle(run):
    """C03 from the timeline (no state machine of the controller): returns None or (signature, detail)."""
    if run.crash:
        return "crash", {"error": run.crash}
    n = len(run.switches)
    for i in range(n):
        inv, st0, hw0 = run.initial[i]
        state = st0
        changes = []         # (t, new_state, log index)
        regs = []            # registrations: dict(st, ms, cb, t_add, idx_add, t_rm, idx_rm)
        expected = []        # (cb, st, ms, t, kind)
        for idx, ev in enumerate(run.log):
            if ev[0] == "report" and ev[1] == i:
                _, _, kind, v, t = ev
                logical = v if kind == "l" else v ^ inv
                if logical != state:
                    state = logical
                    changes.append((t, logical, idx))
                    # untimed handlers registered now, in registration order, once each
                    for r in regs:
                        if r["st"] == logical and r["ms"] == 0 and r["idx_rm"] is None:
                            expected.append((r["cb"], logical, 0, t, idx))
            elif ev[0] == "state" and ev[1] == i:
                _, _, s_impl, hw_impl, t = ev
                if s_impl != state:
                    return "state-not-last-report", {"switch": i, "state": s_impl, "last_reported": state, "t": t}
                # hw_state is only checked once the switch has changed: Switch.hw_state is not initialised from the
                # hardware at start (stays 0 for an NC switch), see the report
                if changes and hw_impl != state ^ inv:
                    return "hw-state-wrong", {"switch": i, "hw_state": hw_impl, "state": state, "invert": inv, "t": t}
            elif ev[0] == "add" and ev[1] == i:
                regs.append({"st": ev[2], "ms": ev[3], "cb": ev[4], "t_add": ev[5], "idx_add": idx, "t_rm": None, "idx_rm": None})
            elif ev[0] == "rm" and ev[1] == i:
                for r in regs:
                    if (r["st"], r["ms"], r["cb"]) == (ev[2], ev[3], ev[4]) and r["idx_rm"] is None:
                        r["t_rm"], r["idx_rm"] = ev[5], idx
            elif ev[0] == "q" and ev[1] == i:
                _, _, st, ms, res, t = ev
                since = t - changes[-1][0] if changes else 10 ** 9
                want = (state == st) and (ms == 0 or since >= ms)
                if res != want:
                    return "query-wrong", {"switch": i, "state_asked": st, "ms": ms, "answer": res, "expected": want, "t": t}
        # timed registrations: one call at change+ms for every change into st such that the registration exists strictly
        # before the deadline, is not removed before it, and no other change happens before it
        timed_expected = []
        for r in regs:
            if r["ms"] == 0:
                continue
            for ci, (tc, st, idxc) in enumerate(changes):
                if st != r["st"]:
                    continue
                dl = tc + r["ms"]
                if dl > run.end:
                    continue
                nxt = changes[ci + 1] if ci + 1 < len(changes) else None
                # the deadline's wake-up runs when the clock reaches dl, i.e. before any op issued at instant dl
                if nxt is not None and nxt[0] < dl:
                    continue
                if r["idx_add"] > idxc and not (r["t_add"] < dl):
                    continue            # added at or after the deadline: not at all
                if nxt is not None and r["idx_add"] > nxt[2]:
                    continue
                if r["idx_rm"] is not None and r["t_rm"] < dl and r["idx_rm"] > idxc:
                    continue            # removed while pending
                if r["idx_rm"] is not None and r["idx_rm"] < idxc:
                    continue            # removed before this change
                if dl == run.end and not any(e[0] == "wake" and e[1] == i and e[2] == dl for e in run.log):
                    # the last advance ends exactly on the deadline: it must have run (advance is inclusive)
                    pass
                timed_expected.append((r["cb"], r["st"], r["ms"], dl))
        got_untimed = [(e[2], e[3], e[4], e[5]) for e in run.log if e[0] == "call" and e[1] == i and e[4] == 0]
        got_timed = sorted((e[2], e[3], e[4], e[5]) for e in run.log if e[0] == "call" and e[1] == i and e[4] != 0)
        exp_untimed = [(c, s, m, t) for c, s, m, t, _ in expected]
        if got_untimed != exp_untimed:
            k = 0
            while k < len(got_untimed) and k < len(exp_untimed) and got_untimed[k] == exp_untimed[k]:
                k += 1
            g = got_untimed[k] if k < len(got_untimed) else None
            e = exp_untimed[k] if k < len(exp_untimed) else None
            sig = "untimed-extra-call" if (e is None or (g is not None and g[3] < e[3])) else "untimed-missing-call"
            if g is not None and e is not None and g[3] == e[3]:
                sig = "untimed-wrong-order-or-handler"
            return sig, {"switch": i, "index": k, "got": g, "expected": e}
        timed_expected.sort()
        if got_timed != timed_expected:
            extra = list(got_timed)
            missing = []
            for x in timed_expected:
                if x in extra:
                    extra.remove(x)
                else:
                    missing.append(x)
            if extra:
                x = extra[0]
                # classify: was it removed / added late / wrong time?
                sig = "timed-extra-call"
                for r in regs:
                    if (r["cb"], r["st"], r["ms"]) == x[:3]:
                        if r["idx_rm"] is not None and r["t_rm"] <= x[3]:
                            sig = "timed-removed-handler-fires"
                lastc = [c for c in changes if c[0] <= x[3] and c[1] == x[1]]
                if sig == "timed-extra-call" and lastc and lastc[-1][0] + x[2] != x[3]:
                    sig = "timed-fires-at-wrong-time"
                return sig, {"switch": i, "call": x, "missing": missing[:2]}
            return "timed-missing-call", {"switch": i, "missing": missing[0]}
    return None


def nontrivial(run):
    timed = any(e[0] == "wake" for e in run.log)
    calls = any(e[0] == "call" for e in run.log)
    return timed and calls


def check_case(ctx, case, model, shrink=True, shared=None, sample=True):
    run = CtlRun(case, shared).run()
    ctx.evaluated(case, nontrivial(run), sample=sample)
    for e in run.log:
        if e[0] in ("report", "add", "rm", "q", "wake"):
            ctx.count("op_" + e[0])
        elif e[0] == "call":
            ctx.count("call_timed" if e[4] else "call_untimed")
    bad = oracle(run)
    if bad:
        sig, detail = bad
        small = case
        if shrink and first_of(ctx, sig):
            def fails(ops):
                b = oracle(CtlRun(dict(case, ops=ops)).run())
                return b is not None and b[0] == sig
            small = dict(case, ops=ddmin(case["ops"], fails, max_tests=150))
            b2 = oracle(CtlRun(small).run())
            if b2 is not None and b2[0] == sig:
                detail = b2[1]
            else:
                small = case
        ctx.fail(sig, small, detail)
    if model is not None:
        lines = model_lines(run)
        got = [model.ask(l) for l, _ in lines]
        ctx.compare(dict(case, what="switch controller trace", sent=[l for l, _ in lines]), [e for _, e in lines], got)
    return bad


# ---------------------------------------------------------------------------------------------------- device events

EV_CONFIG = """switches:
  s0:
    number: 0
    tags: left, both
    events_when_activated: a_now, a_hold2|250ms
    events_when_deactivated: d_now, d_hold3|375ms
  s1:
    number: 1
    type: NC
    tags: both
    ignore_window_ms: %d
"""


def gen_event_case(r):
    ops = []
    for _ in range(r.randint(5, 30)):
        if r.random() < 0.45:
            ops.append(["adv", r.choice([0, 1, 1, 2, 3, 4])])
        else:
            ops.append(["report", r.randrange(2), r.choice(["l", "r"]), r.choice([0, 1])])
    ops.append(["adv", 9])
    return {"kind": "events", "window": r.choice([2, 3, 4]), "ops": ops}


EVENTS = ["s0_active", "s0_inactive", "s1_active", "s1_inactive", "sw_left", "sw_left_active", "sw_left_inactive",
          "sw_both", "sw_both_active", "sw_both_inactive", "a_now", "a_hold2", "d_now", "d_hold3"]


CONF = {0: {1: ["s0_active", "sw_left", "sw_left_active", "sw_both", "sw_both_active", "a_now"],
            0: ["s0_inactive", "sw_left_inactive", "sw_both_inactive", "d_now"]},
        1: {1: ["s1_active", "sw_both", "sw_both_active"], 0: ["s1_inactive", "sw_both_inactive"]}}
HOLD = {"a_hold2": "c 901 1 2 %s", "d_hold3": "c 902 0 3 %s"}
_dw = {}


def install_device_logger():
    """Wrap the Switch device's handler entry points once per process (outermost call only): tells the active run when
    the controller called the device's handler and when `_recycle_passed` ran."""
    from mpf.devices.switch import Switch
    if _dw.get("cls") is Switch:
        return
    o_post, o_rec, o_pass = Switch._post_events, Switch._post_events_with_recycle, Switch._recycle_passed

    def wrap(orig, what):
        def f(self, state):
            run = _wrapped.get("run")
            mine = isinstance(run, EventRun) and not run.finished and run.vm is not None and \
                run.vm.machine is not None and self.machine is run.vm.machine
            if mine and run.depth == 0:
                run.on_device(what, self, state)
            if mine:
                run.depth += 1
            try:
                return orig(self, state)
            finally:
                if mine:
                    run.depth -= 1
        return f
    Switch._post_events = wrap(o_post, "handler")
    Switch._post_events_with_recycle = wrap(o_rec, "handler")
    Switch._recycle_passed = wrap(o_pass, "pass")
    _dw["cls"] = Switch


class EventRun:
    def __init__(self, case):
        self.case = case
        self.log = []
        self.finished = False
        self.crash = None
        self.wakes = 0
        self.vm = None
        self.depth = 0
        self.groups = []

    def tick(self):
        x = (self.vm.now() - self.t0) / TICK
        return int(x) if x == int(x) else round(x, 6)

    def group(self, head):
        self.cur = {"head": head, "t": self.tick(), "devcall": None, "events": [], "holds": []}
        self.groups.append(self.cur)

    def on_wake(self, switch):
        self.wakes += 1
        if self.wakes > 3000:
            self.finished = True
            raise RuntimeError("runaway: more than 3000 wake-ups in one case")
        self.group(["wake", int(switch.name[1:])])

    def on_device(self, what, switch, state):
        i = int(switch.name[1:])
        if what == "pass":
            self.group(["pass", i])
        else:
            self.cur["devcall"] = (i, 1 if state else 0)

    def handler(self, name):
        def h(**kwargs):
            if not self.finished:
                t = self.tick()
                self.log.append(("event", name, t))
                if name in HOLD:
                    g = [x for x in self.groups if x["head"][0] == "wake"]
                    (g[-1] if g else self.cur)["holds"].append(HOLD[name] % t)
                else:
                    g = [x for x in self.groups if x["head"][0] in ("report", "pass")]
                    (g[-1] if g else self.cur)["events"].append(name)
                if len(self.log) > 5000:
                    self.finished = True
                    raise RuntimeError("runaway: more than 5000 events in one case")
        return h

    def run(self):
        install_wake_logger()
        install_device_logger()
        self.vm = VMachine(EV_CONFIG % (self.case["window"] * 125))
        try:
            self.vm.start()
        except BootError as e:
            raise InfraError("C03 event machine does not boot: %s" % e)
        _wrapped["run"] = self
        try:
            vm = self.vm
            m = vm.machine
            for e in EVENTS:
                m.events.add_handler(e, self.handler(e))
            vm.align()
            self.t0 = vm.now()
            self.group(["none"])
            sws = [m.switches["s0"], m.switches["s1"]]
            self.initial = [sws[0].state, sws[1].state]
            self.initial_sw = [(1 if x.invert else 0, x.state, x.hw_state) for x in sws]
            for op in self.case["ops"]:
                try:
                    t = self.tick()
                    if op[0] == "adv":
                        self.log.append(("adv", t, t + op[1]))
                        vm.advance(op[1] * TICK)
                        self.group(["none"])
                    else:
                        self.log.append(("report", op[1], op[2], op[3], t))
                        self.group(["report", op[1], op[2], op[3]])
                        m.switch_controller.process_switch("s%d" % op[1], op[3], logical=(op[2] == "l"))
                        vm.run()
                except Exception as e:
                    self.crash = "%s: %s" % (type(e).__name__, e)
                    break
            self.end = self.tick()
        finally:
            self.finished = True
            try:
                self.vm.stop()        # wake-ups during teardown are dropped by the logger (see install_wake_logger)
            finally:
                _wrapped["run"] = None
        return self


def classify_post(names, i):
    names = sorted(names)
    if not names:
        return "ok"
    for st in (0, 1):
        if names == sorted(CONF[i][st]):
            return "post %d" % st
    return "post? " + ",".join(names)


def event_model_lines(run):
    """Lines for the controller model (device handlers are callbacks 900, the |ms events 901/902) and the device model."""
    w = run.case["window"]
    out = [("new", "ok")]
    for inv, st, hw in run.initial_sw:
        out.append(("sw %d %d %d" % (inv, st, hw), "ok"))
    for l in ("0 add 1 0 900", "0 add 0 0 900", "0 add 1 2 901", "0 add 0 3 902", "1 add 1 0 900", "1 add 0 0 900",
              "dev 0 %d" % run.initial[0], "dev %d %d" % (w, run.initial[1])):
        out.append((l, "ok"))
    now = 0
    for g in run.groups:
        h = g["head"]
        if g["t"] != now:
            out.append(("to %s" % g["t"], "ok"))
            now = g["t"]
        if h[0] == "report":
            dc = g["devcall"]
            out.append(("%d report %s %d" % (h[1], h[2], h[3]), ("c 900 %d 0 %s" % (dc[1], g["t"])) if dc else "ok"))
            if dc:
                out.append(("d %d change %d" % dc, classify_post(g["events"], dc[0])))
            elif g["events"]:
                out.append(("d %d nothing-expected" % h[1], classify_post(g["events"], h[1])))
        elif h[0] == "wake":
            out.append(("%d wake" % h[1], " ".join(g["holds"]) or "ok"))
        elif h[0] == "pass":
            out.append(("d %d pass" % h[1], classify_post(g["events"], h[1])))
    return out


def event_oracle(run):
    """Expected events from the timeline: s0 (no window) posts its activation/tag events once per change and the |ms
    events at change+ms iff held; s1 (NC, ignore window w) posts once per window, with a catch-up post when the window
    closes in the other state."""
    if run.crash:
        return "crash", {"error": run.crash}
    w = run.case["window"]
    exp = []
    st = list(run.initial)
    last = [None, None]
    clear = None           # s1: end of the running ignore window and the state that opened it
    pend = []              # pending (t, kind, payload)
    reports = [e for e in run.log if e[0] in ("report", "adv")]

    def s1_events(state, t):
        exp.append((t, "s1_active" if state else "s1_inactive"))
        exp.append((t, "sw_both" if state else None))
        exp.append((t, "sw_both_active" if state else "sw_both_inactive"))

    def flush(upto, inclusive):
        nonlocal clear
        while True:
            due = [p for p in pend if p[0] < upto or (inclusive and p[0] == upto)]
            if not due:
                return
            p = min(due, key=lambda x: x[0])
            pend.remove(p)
            t, kind, a = p
            if kind == "hold":
                exp.append((t, a))
            elif kind == "window":
                clear = None
                if st[1] != a:
                    s1_events(st[1], t)

    for e in reports:
        if e[0] == "adv":
            flush(e[2], True)
            continue
        _, i, kind, v, t = e
        inv = 1 if i == 1 else 0
        logical = v if kind == "l" else v ^ inv
        if logical == st[i]:
            continue
        st[i] = logical
        last[i] = t
        if i == 0:
            # pending hold events of the other state die
            pend[:] = [p for p in pend if p[1] != "hold"]
            if logical:
                exp += [(t, "s0_active"), (t, "sw_left"), (t, "sw_left_active"), (t, "sw_both"), (t, "sw_both_active"), (t, "a_now")]
                pend.append((t + 2, "hold", "a_hold2"))
            else:
                exp += [(t, "s0_inactive"), (t, "sw_left_inactive"), (t, "sw_both_inactive"), (t, "d_now")]
                pend.append((t + 3, "hold", "d_hold3"))
        else:
            if clear is None:
                clear = t + w
                pend.append((t + w, "window", logical))
                s1_events(logical, t)
    exp = sorted((t, n) for t, n in exp if n is not None)
    got = sorted((e[2], e[1]) for e in run.log if e[0] == "event")
    if exp != got:
        extra = [x for x in got if x not in exp] or [x for x in got if got.count(x) > exp.count(x)]
        missing = [x for x in exp if x not in got] or [x for x in exp if exp.count(x) > got.count(x)]
        x = (extra or missing)[0]
        kind = "hold-event" if "hold" in x[1] else ("window-event" if x[1].startswith("s1") or (x in extra and False) else "switch-event")
        return ("%s-%s" % (kind, "extra" if extra else "missing")), {"extra": extra[:2], "missing": missing[:2]}
    return None


def check_event_case(ctx, case, shrink=True, model=None):
    run = EventRun(case).run()
    n_ev = sum(1 for e in run.log if e[0] == "event")
    ctx.evaluated(case, n_ev > 2)
    ctx.count("event_cases")
    ctx.count("events_seen", n_ev)
    bad = event_oracle(run)
    if bad:
        sig, detail = bad
        small = case
        if shrink and first_of(ctx, sig):
            def fails(ops):
                b = event_oracle(EventRun(dict(case, ops=ops)).run())
                return b is not None and b[0] == sig
            small = dict(case, ops=ddmin(case["ops"], fails, max_tests=100))
            b2 = event_oracle(EventRun(small).run())
            if b2 is not None and b2[0] == sig:
                detail = b2[1]
            else:
                small = case
        ctx.fail(sig, small, detail)
    if model is not None and not run.crash:
        lines = event_model_lines(run)
        got = [model.ask(l) for l, _ in lines]
        ctx.compare(dict(case, what="switch device events trace", sent=[l for l, _ in lines]), [e for _, e in lines], got)
    return bad


# ---------------------------------------------------------------------------------------------------- corpus

CORPUS = [
    # D1: timed handler (1 tick) added long after the activation must not fire
    {"kind": "ctl", "sws": [{"nc": False}], "ops": [["report", 0, "l", 1], ["adv", 9], ["add", 0, 1, 1, 0], ["adv", 3]]},
    # D2: same timed handler twice, removed once while pending: neither copy fires
    {"kind": "ctl", "sws": [{"nc": False}],
     "ops": [["add", 0, 1, 2, 0], ["add", 0, 1, 2, 0], ["report", 0, "l", 1], ["adv", 1], ["rm", 0, 1, 2, 0], ["adv", 3]]},
    # catch-up inside the interval, exactly at the deadline (not at all), NC raw reports, duplicates
    {"kind": "ctl", "sws": [{"nc": True}, {"nc": False}],
     "ops": [["add", 0, 1, 3, 1], ["report", 0, "r", 0], ["adv", 1], ["add", 0, 1, 3, 2], ["add", 0, 1, 2, 3], ["adv", 1],
             ["add", 0, 1, 2, 0], ["report", 0, "l", 1], ["q", 0, 1, 2], ["adv", 1], ["q", 0, 1, 3], ["report", 0, "r", 1],
             ["adv", 4], ["report", 1, "r", 1], ["report", 1, "l", 1], ["adv", 1]]},
]


EXH_NO = [["report", 0, "l", 1], ["report", 0, "l", 0], ["add", 0, 1, 1, 0], ["add", 0, 1, 2, 1], ["rm", 0, 1, 1, 0],
          ["rm", 0, 1, 2, 1], ["adv", 1], ["adv", 2]]
EXH_NC = [["report", 0, "r", 1], ["report", 0, "r", 0], ["add", 0, 0, 2, 1], ["add", 0, 1, 1, 0], ["rm", 0, 0, 2, 1],
          ["adv", 1], ["adv", 2]]
EXH_NO6 = [["report", 0, "l", 1], ["report", 0, "l", 0], ["add", 0, 1, 2, 1], ["rm", 0, 1, 2, 1], ["adv", 1], ["adv", 2]]
EXH_SPACES = [(EXH_NO, 5, False), (EXH_NC, 5, True), (EXH_NO6, 6, False)]
EXH_SWITCHES = 400


def exhaustive(ctx, model, spaces=None):
    """every op sequence of length <= L over an alphabet on ONE switch (hold times of 1 and 2 ticks, advances of 1 and 2
    ticks), each followed by a 3-tick flush, through oracle and correspondence.  A machine with EXH_SWITCHES switches
    (even: NO, odd: NC) is shared; every sequence gets a switch nobody has touched."""
    import itertools
    vm = None
    used = {False: 0, True: 0}
    desc = []
    cfg = sw_config([{"nc": i % 2 == 1} for i in range(EXH_SWITCHES)])
    try:
        for alphabet, maxlen, nc in (spaces or EXH_SPACES):
            n = 0
            for L in range(0, maxlen + 1):
                for seq in itertools.product(alphabet, repeat=L):
                    if vm is None or used[nc] >= EXH_SWITCHES // 2:
                        if vm is not None:
                            vm.stop()
                            mpfleak.release()
                        vm = VMachine(cfg)
                        try:
                            vm.start()
                        except BootError as e:
                            raise InfraError("C03 machine does not boot: %s" % e)
                        used = {False: 0, True: 0}
                    idx = 2 * used[nc] + (1 if nc else 0)
                    used[nc] += 1
                    case = {"kind": "ctl", "sws": [{"nc": nc}], "ops": [list(o) for o in seq] + [["adv", 3]]}
                    check_case(ctx, case, model, shared=(vm, idx), sample=False)
                    n += 1
            desc.append("all %d op sequences of length <= %d over the %d-op alphabet %s on one %s switch"
                        % (n, maxlen, len(alphabet), json.dumps(alphabet), "NC" if nc else "NO"))
    finally:
        if vm is not None:
            vm.stop()
    ctx.exhaustive = True
    ctx.notes["exhaustive_subspace"] = "; ".join(desc) + " (each sequence followed by a 3-tick advance; a fresh switch per " \
                                       "sequence on a shared %d-switch machine)" % EXH_SWITCHES


def run(ctx):
    model = None if getattr(ctx, "model_unavailable", False) else leanproc.LeanProc(ID)
    try:
        for case in CORPUS:
            check_case(ctx, case, model)
        for i in range(ctx.n(900, 15000)):
            check_case(ctx, gen_case(ctx.rng("ctl", i)), model)
            if i % 200 == 199:
                mpfleak.release()
        for i in range(ctx.n(300, 5000)):
            check_event_case(ctx, gen_event_case(ctx.rng("ev", i)), model=model)
            if i % 200 == 199:
                mpfleak.release()
        if ctx.tier == "thorough" and not ctx.search and not ctx.failures and not ctx.disagreements:
            exhaustive(ctx, model)
    finally:
        if model is not None:
            model.close()


def replay(ctx, rep):
    case = rep["case"]
    if case.get("kind") == "events":
        check_event_case(ctx, {k: case[k] for k in ("kind", "window", "ops")}, shrink=False)
    elif case.get("kind") == "ctl":
        check_case(ctx, {k: case[k] for k in ("kind", "sws", "ops")}, None, shrink=False)
