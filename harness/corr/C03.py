"""C03 - Switch state mirrors the hardware; handlers fire once per real change.

Implementation side: a real machine (VMachine, virtual time on the 1/8 s grid) with NO and NC switches; reports through
SwitchController.process_switch (raw and logical), FAST's resync (update_switches_from_hw_data) and verify_switches polls,
handlers through add_switch_handler_obj / remove_switch_handler_obj - from the harness AND from inside the callbacks: every
callback id has a program (a list of add/remove actions on its own switch) that it performs when the controller calls it,
during the untimed walk of a change or while an expired deadline bucket is being processed -, mute/unmute, monitors,
wait_for_switch / wait_for_any_switch futures (their handlers are ordinary handlers with ids 500+), queries through
is_active/is_inactive(ms).  Every run of SwitchController._process_active_timed_switches (the single wake-up per switch) is
logged by a wrapper installed from the harness process and fed to the model as `wake`.
Model side: MpfVerif.Model.Switch via drv_c03 (one model instance per switch, the callback programs as `prog` lines).
Oracle (model independent): walks the log in the order things happened - state = last reported logical state and hw_state its
raw value (after a resync: the hardware); every call must be of a handler that is registered at that very moment (a removed
handler never fires, also when an earlier callback of the same walk / bucket removed it), for the state the switch is in, at
change+ms, at most once per registration and change; every change into a state calls each untimed registration that existed
when it happened once unless a callback of that walk removed it first, duplicates call nothing; a registration with a hold
time is called exactly at change+ms iff it was registered before that instant (strictly), not removed before it and the
switch did not change before it; monitors hear of every real change once; a wait future resolves at the first call of its
handler, never without a change, and leaves no handler behind once it is done or cancelled.
A third kind of case ("net", section "re-entrant dispatch") drives 2-3 switches with handlers and monitors that re-enter the
controller: they report changes (of their own switch or another one; from an untimed walk, from inside a deadline bucket, from
a monitor), and register / remove handlers on any switch; model: MpfVerif.Model.SwitchNet (lines starting with `n`), oracle:
net_oracle.
A second stream (oracle + model) checks the Switch device's events: <name>_active/_inactive, tag events,
events_when_activated with |ms and the ignore window (on an NC switch).
"""
import json

from harness.common import leanproc, mpfleak
from harness.common.shrink import ddmin
from harness.common.util import InfraError
from harness.common.vmachine import VMachine, BootError

ID = "C03"
LEAN_MODULES = ["MpfVerif.Props.C03"]
PROPS_FILE = "MpfVerif/Props/C03.lean"
GEN = []
MANIFEST = {
  "text": "Proof on a Lean model of the switch controller's per-switch state (logical/raw state, last change, registered handlers per state, the insertion-ordered dict of pending hold-time deadlines, the single scheduled wake-up, the mute set, the monitor flag), for every assignment of behaviours to callbacks - a callback may register and remove handlers of its own switch (itself, a peer, one later in the same walk or deadline bucket, either state, timed or untimed) while a change or an expired bucket is being dispatched, modelled as the code does it: the walk over a copy with the cancelled flag, the re-check against the live bucket, the bucket deleted after its callbacks, one wake-up re-armed at the end - and for every sequence of raw/logical reports, resyncs, registrations and removals, mutes, time steps and wake-ups: the logical state is the last reported one (NC inverted for raw values) and the raw state its inverse image (after a resync: the hardware); a duplicate changes nothing and calls nothing; a change of an unmuted switch calls a sub-sequence of the untimed handlers registered for the new state when it happened, each at most once, in order - exactly all of them unless a callback of the walk removes one - and nothing that a callback registers during the walk; a muted change calls nothing; a monitor hears of every real change exactly once; the wake-up is always scheduled at the minimum pending deadline and never overdue, so every call made by a wake-up (also of handlers that callbacks of that wake-up left or put in place) is for the current state at exactly change+ms; a removed handler is neither registered nor pending and is never called until somebody registers it again - also when the removal happens inside a callback: not later in the same walk, not later in the same bucket, not in a later bucket. A poll that agrees with the hardware is a no-op; a poll that disagrees overwrites the state silently (witness theorem: a stale hold-time handler then still fires) and is excluded from the timing theorems. A second model covers the Switch device's own events (events_once without an ignore window, recycle_window with one). A third model (Model/SwitchNet.lean) is the whole family of switches with re-entrant dispatch: handlers and monitors that call process_switch themselves (same switch or another one, from an untimed walk, from inside a deadline bucket, from a monitor, nested) and register/remove handlers on any switch; proved for every amount of recursion fuel and all behaviours: every switch's state is the last process_switch call for it in the trace, nested ones included (reentrant_state_is_last_report); a duplicate, nested or not, changes and invokes nothing; once a callback of a wake-up has changed the switch itself the wake-up calls nothing more (changed_switch_abandons_its_wakeup, the repaired KeyError); a walk whose change is no longer the switch's latest arms no hold time (stale_walk_arms_nothing, the repaired double arming); a wait_for_switch future is resolved exactly once, by the first call of one of its handlers (wait_future_resolves_once_at_first_matching_change). All models are tied to switch_controller.py and devices/switch.py by correspondence runs on real machines (NO and NC switches, callbacks that mutate, re-entrant reports, handlers and monitors acting on other switches, mutes, resync/poll, wait futures, tags, timed events, ignore window) on every check.",
  "note": "Trusted: Lean kernel + {propext, Quot.sound, Classical.choice}; hand-written Model/Switch.lean validated by differential runs; asyncio timer heap / TimeTravelLoop (time cannot pass a scheduled wake-up: built into the model's `to` step); 1/8 s time grid (floats exact). Not modelled: monitors that add/remove monitors, process_switch_by_num for unknown numbers, mutes in the device-event stream and in the re-entrant model; in the re-entrant model only state-is-last-report, duplicates, the two abandon rules and the future are theorems - its hold-time timing (fires at change+ms iff held) is covered by oracle and correspondence only; no translator tie (the models are hand-written, pinned to the source by harness/pins/C03.json).",
  "technique": "Lean 4 invariants and loop invariants over all op sequences and all callback behaviours (induction over the op list, over the walked copy and over the deadline keys) on two hand models (controller per switch, Switch device events) + differential correspondence with the real SwitchController/Switch + timeline oracles",
  "translated": False,
}
RULE = ("cases: 8-45 ops on 1-3 switches (NO/NC): raw/logical reports incl. duplicates, add/remove of handlers (4 callback ids, "
        "state 0/1, hold times from {0,1,2,3,8} ticks, mostly from a pool of 3-6 specs per case so that duplicates, shared deadline "
        "buckets and hits are likely), in 60% of the cases 1-3 callback ids carry a program of 1-3 add/remove actions drawn from the "
        "same pool (incl. their own handler) which they perform when called, is_active/is_inactive(ms) queries and advances from "
        "{0,1,1,2,3,4,9} ticks so that gaps straddle the hold times and handlers are added before, inside, exactly at and after a "
        "pending deadline; in half of the cases monitors on/off, FAST resyncs with random raw snapshots, wait_for_any_switch futures "
        "(1-3 switches, state 0/1/2, only_on_change, hold 0-2 ticks) and cancellations; in a quarter mute/unmute and verify_switches "
        "polls (in sync or with a missed change); second stream: switches with tags, events_when_(de)activated incl. |ms and "
        "ignore_window_ms under report/advance sequences; third stream (net): 8-30 ops on 2-3 switches where 1-3 of 4 callback ids and "
        "0-2 monitors carry programs of 1-3 actions on ANY switch: report l|r 0|1 (re-entrant process_switch, nesting cut at depth 2; "
        "15% leave-and-come-back pairs on the own switch), add/remove from a pool with shared deadline buckets; non-trivial there = a "
        "nested report and a handler call. non-trivial = at least one timed handler pending across an op and at "
        "least one callback; distinct = canonical JSON")
TRUSTED = [
    "modelled, not verified: asyncio timer heap / TimeTravelLoop (the scheduled wake-up runs before time passes it; order of "
    "same-instant wake-ups of different switches taken from the implementation), dict insertion order, functools.partial, "
    "asyncio.Future (done callbacks run at the next loop iteration)",
    "Model/Switch.lean is hand-written; tied to mpf/core/switch_controller.py by correspondence on every run (callback programs, "
    "mute, monitor, resync = FastNetNeuronCommunicator.update_switches_from_hw_data run against the virtual machine with a stub "
    "communicator, poll = verify_switches with the platform's get_hw_switch_states replaced)",
    "Model/SwitchNet.lean is hand-written; tied to the same file by correspondence on the net cases (trace of calls, monitor calls "
    "and nested reports per operation, pending deadlines / wake-up / registrations at the end)",
    "the Dev model in Model/Switch.lean is hand-written; tied to mpf/devices/switch.py (_post_events, _post_events_with_recycle, "
    "_recycle_passed) by correspondence on every run, plus an independent timeline oracle for the posted events",
]
ASSUMPTIONS = ["hold times and report instants are multiples of 125 ms",
               "re-entrant cases: a handler/monitor body stops reporting beyond nesting depth 2 (real runs stay finite; the model has the "
               "same rule, the theorems hold for every depth and fuel); cases whose programs multiply beyond 1500 handler calls are "
               "counted and dropped; monitors do not add or remove monitors",
               "not judged by the oracle because the statement does not say (compared with the model only, counted in the "
               "evidence): what a muted switch calls, whether a handler added during a walk is called in that walk, the order of "
               "calls, everything between a silent overwrite of the state by a poll and the next real change",
               "every configured switch event has a listener (events without one are not posted by design)",
               "outside C03 (the statement is about the logical state, which is right from start-up): Switch.hw_state is not "
               "initialised from the hardware - update_switches_from_hw sets only `state`, so an NC switch shows hw_state 0 until "
               "its first real change or resync (a duplicate first raw report leaves it stale); hw_state is therefore compared only "
               "after the first change/resync and the model is started from the implementation's initial hw_state"]

TICK = 0.125


def sw_config(sws):
    out = ["switches:"]
    for i, s in enumerate(sws):
        out.append("  s%d:\n    number: %d" % (i, i))
        if s["nc"]:
            out.append("    type: NC")
    return "\n".join(out) + "\n"


def first_of(ctx, sig):
    """shrink only the first failure of a signature (ddmin re-runs the real code up to 150 times)"""
    seen = ctx.notes.setdefault("shrunk_signatures", [])
    if sig in seen:
        return False
    seen.append(sig)
    return True


# ---------------------------------------------------------------------------------------------------- generator

def gen_case(r):
    """A timeline on 1-3 switches.  Most handler specs (state, hold, callback id) come from a small pool per case so that
    registrations, removals and the actions of the callback programs hit each other: same deadline bucket, duplicates,
    removal of a peer that is later in the same walk, re-adding inside the walk."""
    nsw = r.choice([1, 1, 2, 2, 3])
    sws = [{"nc": r.random() < 0.4} for _ in range(nsw)]
    pool = []
    for _ in range(r.randint(3, 5)):
        pool.append((r.choice([1, 1, 1, 0]), r.choice([0, 0, 1, 2, 2, 3, 3, 8]), r.choice([0, 0, 1, 1, 2, 3])))
    if r.random() < 0.5:      # make two specs share state and hold time (same bucket) with different callbacks
        st, ms, cb = pool[0]
        pool.append((st, ms, (cb + 1) % 4))

    def spec():
        if r.random() < 0.8:
            return r.choice(pool)
        return (r.choice([1, 1, 1, 0]), r.choice([0, 1, 2, 2, 3, 3, 8]), r.choice([0, 0, 1, 1, 2, 3]))

    progs = []
    if r.random() < 0.6:
        for cb in r.sample([0, 1, 2, 3], r.choice([1, 1, 2, 3])):
            acts = []
            for _ in range(r.choice([1, 1, 2, 3])):
                st, ms, c2 = spec()
                if r.random() < 0.25:
                    c2 = cb                                     # its own handler
                acts.append([r.choice(["a", "r", "r"]), st, ms, c2])
            progs.append([cb, acts])
    extras = r.random() < 0.5          # monitors, resync, wait futures
    silent = r.random() < 0.25         # mute and polls (parts of such timelines are outside the statement)
    ops = []
    nwait = 0
    for _ in range(r.randint(8, 45)):
        k = r.random()
        i = r.randrange(nsw)
        st, ms, cb = spec()
        if extras and k < 0.12:
            x = r.random()
            if x < 0.25:
                ops.append(["mon", r.choice([1, 1, 0])])
            elif x < 0.5:
                ops.append(["resync", [r.choice([0, 1]) for _ in range(nsw)]])
            elif x < 0.85:
                ops.append(["wait", sorted(r.sample(range(nsw), r.randint(1, nsw))), r.choice([0, 1, 1, 2]),
                            r.choice([1, 1, 0]), r.choice([0, 0, 1, 2])])
                nwait += 1
            elif nwait:
                ops.append(["cancel", r.randrange(nwait)])
        elif silent and k < 0.22:
            x = r.random()
            if x < 0.4:
                ops.append(["mute", i, r.choice([0, 1])])
            elif x < 0.75:
                ops.append(["unmute", i, r.choice([0, 1])])
            else:
                ops.append(["poll", [r.choice(["=", "=", "=", "x"]) for _ in range(nsw)]])
        elif k < 0.32:
            ops.append(["adv", r.choice([0, 1, 1, 1, 2, 2, 3, 4, 9])])
        elif k < 0.56:
            ops.append(["report", i, r.choice(["l", "r"]), r.choice([0, 1])])
        elif k < 0.80:
            ops.append(["add", i, st, ms, cb])
            if r.random() < 0.2:
                ops.append(["add", i, st, ms, cb])
        elif k < 0.92:
            ops.append(["rm", i, st, ms, cb])
        else:
            ops.append(["q", i, st, r.choice([0, 1, 2, 3])])
    ops.append(["adv", r.choice([3, 9])])
    return {"kind": "ctl", "sws": sws, "progs": progs, "ops": ops}


# ---------------------------------------------------------------------------------------------------- real code

_wrapped = {}
WAIT_CB = 500        # callback ids of wait_for_switch futures: WAIT_CB + index of the future


def _active_run(sc, kind=None):
    run = _wrapped.get("run")
    if run is None or run.vm is None or run.vm.machine is None or sc is not run.vm.machine.switch_controller:
        return None
    if kind is not None and not isinstance(run, kind):
        return None
    return run


def install_wake_logger():
    """Wrap SwitchController._process_active_timed_switches (and, for the futures of wait_for_switch, the registration
    and removal of their handlers and `_wait_handler`) once per process; the active run (if any) gets the calls."""
    from mpf.core.switch_controller import SwitchController
    if _wrapped.get("cls") is SwitchController:
        return
    orig = SwitchController._process_active_timed_switches
    o_add, o_rm = SwitchController.add_switch_handler_obj, SwitchController.remove_switch_handler_obj
    o_wait = SwitchController._wait_handler
    o_proc = SwitchController.process_switch_obj

    def logged(self, switch):
        run = _active_run(self)
        if run is not None:
            if run.finished:
                return None       # teardown (or a runaway that was cut): drop the wake-up instead of re-arming it
            run.on_wake(switch)
        return orig(self, switch)

    def is_wait(callback):
        return getattr(callback, "func", None) is waiter and "_future" in getattr(callback, "keywords", {})

    def add(self, switch, callback, state=1, ms=0, return_info=False, callback_kwargs=None):
        run = _active_run(self, CtlRun)
        if run is not None and not run.finished and is_wait(callback):
            run.on_wait_add(switch, callback, state, ms)
        return o_add(self, switch, callback, state, ms, return_info, callback_kwargs)

    def rm(self, switch, callback, state=1, ms=0):
        run = _active_run(self, CtlRun)
        if run is not None and not run.finished and is_wait(callback):
            run.on_wait_rm(switch, callback, state, ms)
        return o_rm(self, switch, callback, state, ms)

    def waiter(_future, **kwargs):
        run = _wrapped.get("run")
        if isinstance(run, CtlRun) and not run.finished and _future in run.fut_index:
            run.on_wait_call(_future, kwargs)
        return o_wait(_future, **kwargs)

    def proc(self, obj, state, logical, timestamp=None):
        run = _active_run(self, CtlRun)
        if run is not None and not run.finished and run.in_resync is not None:
            return run.on_resync_change(obj, lambda: o_proc(self, obj, state, logical, timestamp))
        return o_proc(self, obj, state, logical, timestamp)

    SwitchController._process_active_timed_switches = logged
    SwitchController.add_switch_handler_obj = add
    SwitchController.remove_switch_handler_obj = rm
    SwitchController._wait_handler = staticmethod(waiter)
    SwitchController.process_switch_obj = proc
    _wrapped["cls"] = SwitchController


class CtlRun:
    def __init__(self, case, shared=None):
        """shared = (booted VMachine with switches s0..sN, index of the switch this one-switch case uses)"""
        self.case = case
        self.progs = {cb: acts for cb, acts in case.get("progs", [])}
        self.groups = []
        self.log = []
        self.funcs = {}
        self.vm = None
        self.finished = False
        self.crash = None
        self.wakes = 0
        self.calls = 0
        self.shared = shared
        self.base = shared[1] if shared else 0
        self.futures = []          # dict(fut, idx, t, switches, state, ooc, ms, immediate, regs, first_call, cancelled)
        self.fut_index = {}
        self.in_resync = None
        self.depth = 0             # > 0 while a handler of the run is executing (its actions are nested operations)
        self.monitor_on = False

    def tick(self):
        x = (self.vm.now() - self.t0) / TICK
        return int(x) if x == int(x) else round(x, 6)

    def group(self, head):
        self.cur = {"head": head, "t": self.tick(), "obs": []}
        self.groups.append(self.cur)

    def sw_index(self, switch):
        try:
            i = int(switch.name[1:]) - self.base
        except ValueError:
            return None
        return i if 0 <= i < len(self.case["sws"]) else None

    def func(self, i, cb, st, ms):
        """one plain function per (switch, cb id, state, ms): registering it twice is a duplicate registration.  When
        called it logs the call and then performs the actions of callback `cb` on its own switch, in order."""
        key = (i, cb, st, ms)
        if key not in self.funcs:
            def f():
                if self.finished:
                    return
                t = self.tick()
                self.calls += 1
                if self.calls > 4000:     # e.g. a walk over a list that its own callbacks keep extending
                    self.finished = True
                    raise RuntimeError("runaway: more than 4000 handler calls in one case")
                self.log.append(("call", i, cb, st, ms, t))
                self.cur["obs"].append("c %d %d %d %s" % (cb, st, ms, t))
                sc = self.vm.machine.switch_controller
                sw = self.switches[i]
                self.depth += 1
                try:
                    for kind, st2, ms2, cb2 in self.progs.get(cb, ()):
                        self.log.append(("add" if kind == "a" else "rm", i, st2, ms2, cb2, t, "nested"))
                        if kind == "a":
                            sc.add_switch_handler_obj(sw, self.func(i, cb2, st2, ms2), st2, ms2 * 125)
                        else:
                            sc.remove_switch_handler_obj(sw, self.func(i, cb2, st2, ms2), st2, ms2 * 125)
                finally:
                    self.depth -= 1
            f.__name__ = "h_%d_%d_%d_%d" % key
            self.funcs[key] = f
        return self.funcs[key]

    def on_wake(self, switch):
        self.wakes += 1
        if self.wakes > 3000:     # a wake-up that re-arms itself at the same instant would spin for ever
            self.finished = True
            raise RuntimeError("runaway: more than 3000 wake-ups in one case")
        i = self.sw_index(switch)
        if i is None:
            return                # a switch of an earlier sequence on a shared machine
        self.group(["wake", i])
        self.log.append(("wake", i, self.tick()))

    # -- wait_for_switch futures: their handlers are ordinary handlers with callback id WAIT_CB + index of the future
    def on_wait_add(self, switch, callback, state, ms):
        i = self.sw_index(switch)
        f = self.fut_index.get(callback.keywords["_future"])
        if i is None or f is None:
            return
        rec = self.futures[f]
        rec["regs"].append((i, state, ms // 125, callback))
        self.group(["add", i, state, ms // 125, WAIT_CB + f])
        self.log.append(("add", i, state, ms // 125, WAIT_CB + f, self.tick(), "wait"))

    def on_wait_rm(self, switch, callback, state, ms):
        i = self.sw_index(switch)
        f = self.fut_index.get(callback.keywords["_future"])
        if i is None or f is None:
            return
        self.group(["rm", i, state, ms // 125, WAIT_CB + f])
        self.log.append(("rm", i, state, ms // 125, WAIT_CB + f, self.tick(), "wait"))

    def on_wait_call(self, fut, kwargs):
        f = self.fut_index[fut]
        rec = self.futures[f]
        i = int(kwargs["switch_name"][1:]) - self.base
        st = [x[1] for x in rec["regs"] if x[0] == i][0]
        ms = kwargs["ms"] // 125
        t = self.tick()
        self.log.append(("call", i, WAIT_CB + f, st, ms, t))
        self.cur["obs"].append("c %d %d %d %s" % (WAIT_CB + f, st, ms, t))
        if rec["first_call"] is None:
            rec["first_call"] = (i, t, fut.done())      # done() here = it was done before its first handler call

    def on_resync_change(self, obj, call):
        i = self.sw_index(obj)
        if i is None:
            return call()
        hw = self.in_resync["hw"][i]
        self.in_resync["done"].add(i)
        t = self.tick()
        self.group(["resync", i, hw])
        self.log.append(("report", i, "r", hw, t))
        try:
            return call()
        finally:
            self.log.append(("state", i, obj.state, obj.hw_state, t, "hw"))

    def monitor(self, change):
        if self.finished:
            return
        try:
            i = int(change.name[1:]) - self.base
        except ValueError:
            return
        if not 0 <= i < len(self.case["sws"]):
            return
        self.log.append(("mon", i, change.state, self.tick()))
        self.cur["obs"].append("m %d" % change.state)

    def do_wait(self, op):
        sc = self.vm.machine.switch_controller
        _, idxs, state, ooc, ms = op
        t = self.tick()
        f = len(self.futures)
        sws = [self.switches[i] for i in idxs if i < len(self.switches)]
        rec = {"idx": f, "t": t, "log": len(self.log), "switches": [i for i in idxs if i < len(self.switches)], "state": state,
               "ooc": bool(ooc), "ms": ms, "regs": [], "first_call": None, "cancelled": None, "fut": None,
               "states_at_creation": [s.state for s in sws],
               "held_at_creation": [bool(sc.is_state(s, state, ms * 125)) if state != 2 else None for s in sws]}
        self.futures.append(rec)
        # the future object is created inside wait_for_any_switch: register it the moment its first handler is added
        import asyncio
        orig_future = asyncio.Future

        def make(*a, **k):
            fut = orig_future(*a, **k)
            if rec["fut"] is None:
                rec["fut"] = fut
                self.fut_index[fut] = f
            return fut
        asyncio.Future = make
        try:
            fut = sc.wait_for_any_switch(sws, state, bool(ooc), ms * 125)
        finally:
            asyncio.Future = orig_future
        if rec["fut"] is None:
            rec["fut"] = fut
            self.fut_index[fut] = f
        rec["immediate"] = fut.done()
        self.log.append(("wait", f, t))

    def do_resync(self, op):
        """FAST's resync (`FastNetNeuronCommunicator.update_switches_from_hw_data`) run against this machine: a snapshot of
        all raw states; hw_state is synchronised, every switch whose logical state differs is processed as a change."""
        from types import SimpleNamespace
        from mpf.platforms.fast.communicators.net_neuron import FastNetNeuronCommunicator
        m = self.vm.machine
        hw = {}
        mine = {}
        for name, sw in m.switches.items():
            i = self.sw_index(sw)
            if i is not None and i < len(op[1]):
                hw[sw.hw_switch.number] = op[1][i]
                mine[i] = op[1][i]
            else:
                hw[sw.hw_switch.number] = sw.hw_state          # foreign switches of a shared machine: unchanged
        platform = self.switches[0].platform
        platform.hw_switch_data = hw
        platform.new_switch_data = SimpleNamespace(set=lambda: None)
        stub = SimpleNamespace(machine=m, platform=platform)
        self.in_resync = {"hw": mine, "done": set()}
        try:
            FastNetNeuronCommunicator.update_switches_from_hw_data(stub)
        finally:
            done = self.in_resync["done"]
            self.in_resync = None
        t = self.tick()
        for i, v in mine.items():
            if i not in done:
                self.group(["resync", i, v])
                self.log.append(("report", i, "r", v, t))
                self.log.append(("state", i, self.switches[i].state, self.switches[i].hw_state, t, "hw"))
        self.group(["none"])

    def do_poll(self, op):
        """verify_switches(): reads the hardware; `=` the hardware agrees with MPF, `x` it differs (a missed report)"""
        m = self.vm.machine
        sc = m.switch_controller
        hw = {}
        mine = {}
        for name, sw in m.switches.items():
            i = self.sw_index(sw)
            v = sw.state ^ sw.invert
            if i is not None and i < len(op[1]) and op[1][i] == "x":
                v ^= 1
            if i is not None:
                mine[i] = v
            hw[sw.hw_switch.number] = v
        platform = self.switches[0].platform

        async def states():
            return dict(hw)
        old = platform.get_hw_switch_states
        platform.get_hw_switch_states = states
        t = self.tick()
        try:
            ok = self.vm.tc.loop.run_until_complete(sc.verify_switches())
        finally:
            platform.get_hw_switch_states = old
        for i, v in mine.items():
            self.group(["poll", i, v])
            self.log.append(("poll", i, v, self.switches[i].state, t))
        self.log.append(("verify", bool(ok), t))
        self.group(["none"])

    def run(self):
        install_wake_logger()
        if self.shared is not None:
            self.vm = self.shared[0]
        else:
            self.vm = VMachine(sw_config(self.case["sws"]))
            try:
                self.vm.start()
            except BootError as e:
                raise InfraError("C03 machine does not boot: %s" % e)
        _wrapped["run"] = self
        try:
            vm = self.vm
            m = vm.machine
            sc = m.switch_controller
            self.switches = [m.switches["s%d" % (self.base + i)] for i in range(len(self.case["sws"]))]
            vm.align()
            self.t0 = vm.now()
            self.initial = [(1 if s.invert else 0, s.state, s.hw_state) for s in self.switches]
            self.group(["none"])
            for op in self.case["ops"]:
                if self.crash:
                    break
                try:
                    t = self.tick()
                    if op[0] == "adv":
                        self.log.append(("adv", t, t + op[1]))
                        self.group(["none"])
                        vm.advance(op[1] * TICK)
                        self.group(["none"])
                        continue
                    if op[0] == "mon":
                        self.log.append(("monitor", op[1], t))
                        self.group(op)
                        (sc.add_monitor if op[1] else sc.remove_monitor)(self.monitor)
                        self.monitor_on = bool(op[1])
                        continue
                    if op[0] == "resync":
                        self.do_resync(op)
                        continue
                    if op[0] == "poll":
                        self.do_poll(op)
                        continue
                    if op[0] == "wait":
                        self.group(["none"])
                        self.do_wait(op)
                        self.group(["none"])
                        continue
                    if op[0] == "cancel":
                        if op[1] < len(self.futures):
                            rec = self.futures[op[1]]
                            if not rec["fut"].done():
                                rec["cancelled"] = (t, len(self.log))
                                self.log.append(("cancel", op[1], t))
                                rec["fut"].cancel()
                        continue
                    if op[1] >= len(self.switches):
                        continue          # (shrunk cases keep their ops; an op on a switch that is not there is skipped)
                    sw = self.switches[op[1]]
                    self.group(op)
                    if op[0] == "report":
                        self.log.append(("report", op[1], op[2], op[3], t))
                        sc.process_switch(sw.name, op[3], logical=(op[2] == "l"))
                        self.log.append(("state", op[1], sw.state, sw.hw_state, t))
                    elif op[0] == "add":
                        self.log.append(("add", op[1], op[2], op[3], op[4], t))
                        sc.add_switch_handler_obj(sw, self.func(op[1], op[4], op[2], op[3]), op[2], op[3] * 125)
                    elif op[0] == "rm":
                        self.log.append(("rm", op[1], op[2], op[3], op[4], t))
                        sc.remove_switch_handler_obj(sw, self.func(op[1], op[4], op[2], op[3]), op[2], op[3] * 125)
                    elif op[0] == "q":
                        res = (sc.is_active if op[2] else sc.is_inactive)(sw, op[3] * 125)
                        self.log.append(("q", op[1], op[2], op[3], bool(res), t))
                        self.cur["obs"].append("a %d" % (1 if res else 0))
                    elif op[0] == "mute":
                        self.log.append(("mute", op[1], op[2], t))
                        sw.mute(op[2])
                    elif op[0] == "unmute":
                        self.log.append(("unmute", op[1], op[2], t))
                        sw.unmute(op[2])
                    else:
                        raise InfraError("unknown op %r" % (op,))
                except InfraError:
                    raise
                except Exception as e:
                    self.crash = "%s: %s" % (type(e).__name__, e)
                    self.crash_type = type(e).__name__
                    self.group(["crash"])
                    self.cur["obs"].append("crash " + type(e).__name__)
            self.end = self.tick()
            self.pending = [self.pending_line(i) for i in range(len(self.switches))]
            self.leftovers = self.wait_leftovers()
        finally:
            self.finished = True
            try:
                if self.monitor_on and self.vm.machine is not None:
                    self.vm.machine.switch_controller.remove_monitor(self.monitor)
                for s in getattr(self, "switches", []):
                    s._mutes.clear()
                if self.shared is None:
                    self.vm.stop()    # wake-ups during teardown are dropped by the logger (see install_wake_logger)
            finally:
                _wrapped["run"] = None
        return self

    def wait_leftovers(self):
        """handlers of finished (resolved and delivered, or cancelled) futures that are still registered or pending"""
        sc = self.vm.machine.switch_controller
        out = []
        for rec in self.futures:
            fut = rec["fut"]
            if fut is None or not fut.done():
                continue
            for i, st, ms, callback in rec["regs"]:
                sw = self.switches[i]
                if any(e.callback is callback for e in sc.registered_switches[sw][st]):
                    out.append((rec["idx"], i, "registered"))
                for k, es in sc._active_timed_switches.get(sw, {}).items():
                    if any(e.callback is callback for e in es):
                        out.append((rec["idx"], i, "pending"))
        return out

    def cb_name(self, callback):
        for k, f in self.funcs.items():
            if f is callback:
                return k[1]
        fut = getattr(callback, "keywords", {}).get("_future")
        if fut in self.fut_index:
            return WAIT_CB + self.fut_index[fut]
        return 999

    def pending_line(self, i):
        sc = self.vm.machine.switch_controller
        sw = self.switches[i]
        parts = []
        for k, es in sc._active_timed_switches.get(sw, {}).items():
            kt = (k - self.t0) / TICK
            parts.append("%s:%s" % (int(kt) if kt == int(kt) else kt,
                                    ",".join("%d/%d/%d" % (self.cb_name(e.callback), e.state, e.ms // 125) for e in es)))
        d = sc._timed_switch_handler_delay.get(sw)
        w = "-"
        if d is not None:
            wt = (d[1] - self.t0) / TICK
            w = "%s" % (int(wt) if wt == int(wt) else wt)
        return "T " + " ".join(parts) + " W " + w + " S %d%d" % (sw.state, sw.hw_state)


def prog_line(cb, acts):
    return "prog %d" % cb + "".join(" %s %d %d %d" % (k, st, ms, c2) for k, st, ms, c2 in acts)


def model_lines(run):
    out = [("new", "ok")]
    for inv, st, hw in run.initial:
        out.append(("sw %d %d %d" % (inv, st, hw), "ok"))
    for cb, acts in run.case.get("progs", []):
        out.append((prog_line(cb, acts), "ok"))
    now = 0
    for g in run.groups:
        h = g["head"]
        if h[0] == "none" and not g["obs"]:
            continue
        if g["t"] != now:
            out.append(("to %s" % g["t"], "ok"))
            now = g["t"]
        exp = " ".join(g["obs"]) or "ok"
        if h[0] == "report":
            out.append(("%d report %s %d" % (h[1], h[2], h[3]), exp))
        elif h[0] == "add":
            out.append(("%d add %d %d %d" % (h[1], h[2], h[3], h[4]), exp))
        elif h[0] == "rm":
            out.append(("%d rm %d %d %d" % (h[1], h[2], h[3], h[4]), exp))
        elif h[0] == "q":
            out.append(("%d q %d %d" % (h[1], h[2], h[3]), exp))
        elif h[0] == "wake":
            out.append(("%d wake" % h[1], exp))
        elif h[0] in ("mute", "unmute"):
            out.append(("%d %s %d" % (h[1], h[0], h[2]), exp))
        elif h[0] == "mon":
            out.append(("mon %d" % h[1], exp))
        elif h[0] in ("resync", "poll"):
            out.append(("%d %s %d" % (h[1], h[0], h[2]), exp))
        elif h[0] == "crash":
            out.append(("crash", exp))
        elif h[0] == "none":
            out.append(("stray", exp))       # a callback ran outside every operation of the model: never expected
    for i, p in enumerate(run.pending):
        out.append(("%d pending" % i, p))
    return out


# ---------------------------------------------------------------------------------------------------- oracle

def oracle(run, counts=None):
    """C03 from the timeline (no state machine of the controller): returns None or (signature, detail).

    Walks the log in the order things happened.  Judged: the logical state after every report / resync / poll; every call of
    a handler (it must be registered at that very moment - a removed handler never fires, also when the removal happened in
    an earlier callback of the same walk -, for the state the switch is in, at change + hold time, at most once per
    registration and change); every real change must have called each untimed handler that was registered when it happened
    exactly once unless a callback of that walk removed it first; a hold-time handler must have fired at change+ms iff it
    was registered strictly before that instant, not removed before it and the switch stayed.  NOT judged (the statement
    does not say): whether a handler added by a callback during a walk is called in that walk; the order of calls; what a
    muted switch calls; anything between a silent overwrite of the state by a poll and the next real change."""
    def cnt(name):
        if counts is not None:
            counts[name] = counts.get(name, 0) + 1

    if run.crash:
        return "crash-" + getattr(run, "crash_type", "Exception"), {"error": run.crash}
    n = len(run.switches)
    for i in range(n):
        inv, st0, hw0 = run.initial[i]
        state = st0
        changes = []         # dict(t, st, idx, end (log index where its walk ended), muted, must (registrations), silent)
        regs = []            # registrations: dict(st, ms, cb, t_add, idx_add, t_rm, idx_rm, fired {change idx: count})
        mutes = set()
        tainted = False      # between a silent overwrite by a poll and the next real change
        monitor = False
        cur = None           # the change whose walk is running
        wake_groups = []     # (idx_start, t)
        for idx, ev in enumerate(run.log):
            if ev[0] == "monitor":
                monitor = bool(ev[1])
            elif ev[0] == "wake" and ev[1] == i:
                wake_groups.append((idx, ev[2]))
            elif ev[0] == "mute" and ev[1] == i:
                mutes.add(ev[2])
            elif ev[0] == "unmute" and ev[1] == i:
                mutes.discard(ev[2])
            elif ev[0] == "report" and ev[1] == i:
                _, _, kind, v, t = ev
                logical = v if kind == "l" else v ^ inv
                cur = None
                if logical != state:
                    state = logical
                    tainted = False
                    cur = {"t": t, "st": logical, "idx": idx, "muted": bool(mutes), "mon": monitor, "mon_calls": 0,
                           "must": [r for r in regs if r["st"] == logical and r["ms"] == 0 and r["idx_rm"] is None],
                           "calls": {}}
                    changes.append(cur)
                else:
                    cnt("dup_report")
            elif ev[0] == "state" and ev[1] == i:
                s_impl, hw_impl, t = ev[2], ev[3], ev[4]
                if s_impl != state:
                    return "state-not-last-report", {"switch": i, "state": s_impl, "last_reported": state, "t": t}
                # hw_state is only checked once the switch has changed (or was resynchronised): Switch.hw_state is not
                # initialised from the hardware at start (stays 0 for an NC switch), see ASSUMPTIONS
                if (changes or len(ev) > 5) and not tainted and hw_impl != state ^ inv:
                    return "hw-state-wrong", {"switch": i, "hw_state": hw_impl, "state": state, "invert": inv, "t": t}
                if cur is not None:
                    # the walk of this change is over
                    if not cur["muted"]:
                        for r in cur["must"]:
                            got = cur["calls"].get(id(r), 0)
                            removed_in_walk = r["idx_rm"] is not None and r["idx_rm"] < idx
                            if got == 0 and not removed_in_walk:
                                return "untimed-missing-call", {"switch": i, "handler": [r["cb"], r["st"], 0], "t": cur["t"]}
                            if got == 0:
                                cnt("untimed_skipped_removed_in_walk")
                    if cur["mon"] and cur["mon_calls"] != 1:
                        return "monitor-not-once-per-change", {"switch": i, "t": cur["t"], "calls": cur["mon_calls"]}
                    cur = None
            elif ev[0] == "mon" and ev[1] == i:
                if cur is None or ev[2] != cur["st"] or not monitor:
                    return "monitor-extra-or-wrong-state", {"switch": i, "state": ev[2], "t": ev[3],
                                                           "in_change": cur is not None, "installed": monitor}
                cur["mon_calls"] += 1
            elif ev[0] == "poll" and ev[1] == i:
                _, _, v, s_impl, t = ev
                if s_impl != v ^ inv:
                    return "state-not-hardware-after-poll", {"switch": i, "state": s_impl, "hardware": v, "t": t}
                if v ^ inv != state:
                    state = v ^ inv
                    tainted = True
                    cnt("silent_change_by_poll")
                    if changes:
                        changes[-1].setdefault("silenced", (t, idx))
                else:
                    cnt("poll_in_sync")
            elif ev[0] == "add" and ev[1] == i:
                regs.append({"st": ev[2], "ms": ev[3], "cb": ev[4], "t_add": ev[5], "idx_add": idx, "t_rm": None, "idx_rm": None,
                             "fired": {}})
                if len(ev) > 6 and ev[6] == "nested":
                    cnt("nested_add_in_untimed_walk" if cur is not None else "nested_add_in_timed_bucket")
            elif ev[0] == "rm" and ev[1] == i:
                for r in regs:
                    if (r["st"], r["ms"], r["cb"]) == (ev[2], ev[3], ev[4]) and r["idx_rm"] is None:
                        r["t_rm"], r["idx_rm"] = ev[5], idx
                        if len(ev) > 6 and ev[6] == "nested":
                            cnt("nested_rm_in_untimed_walk" if cur is not None else "nested_rm_in_timed_bucket")
            elif ev[0] == "q" and ev[1] == i:
                _, _, st, ms, res, t = ev
                if tainted:
                    continue
                since = t - changes[-1]["t"] if changes else 10 ** 9
                want = (state == st) and (ms == 0 or since >= ms)
                if res != want:
                    return "query-wrong", {"switch": i, "state_asked": st, "ms": ms, "answer": res, "expected": want, "t": t}
            elif ev[0] == "call" and ev[1] == i:
                _, _, cb, st, ms, t = ev
                if tainted:
                    cnt("call_after_silent_change")
                    continue
                live = [r for r in regs if (r["cb"], r["st"], r["ms"]) == (cb, st, ms) and r["idx_rm"] is None]
                kind = "timed" if ms else "untimed"
                if not live:
                    was = [r for r in regs if (r["cb"], r["st"], r["ms"]) == (cb, st, ms)]
                    if was:
                        last = max(was, key=lambda r: r["idx_rm"])
                        same_walk = last["t_rm"] == t
                        return kind + "-removed-handler-fires", {"switch": i, "call": [cb, st, ms, t], "removed_at": last["t_rm"],
                                                                 "removed_in_same_walk": same_walk}
                    return kind + "-extra-call", {"switch": i, "call": [cb, st, ms, t], "why": "never registered"}
                if ms == 0:
                    if cur is None or st != cur["st"] or t != cur["t"]:
                        return "untimed-extra-call", {"switch": i, "call": [cb, st, ms, t], "why": "no change into this state now"}
                    if cur["muted"]:
                        cnt("call_on_muted_change")
                        continue
                    cands = [r for r in live if any(r is m for m in cur["must"])]
                    if not cands:
                        cnt("handler_added_in_walk_called_in_same_walk")
                        continue
                    # each registration at most once per change
                    r = min(cands, key=lambda r: cur["calls"].get(id(r), 0))
                    if cur["calls"].get(id(r), 0) >= 1:
                        return "untimed-extra-call", {"switch": i, "call": [cb, st, ms, t], "why": "more than once for one change"}
                    cur["calls"][id(r)] = 1
                else:
                    if not changes:
                        return "timed-extra-call", {"switch": i, "call": [cb, st, ms, t], "why": "switch never changed"}
                    c = changes[-1]
                    if c["muted"]:
                        cnt("timed_call_after_muted_change")
                        continue
                    if st != state or c["t"] + ms != t:
                        return "timed-fires-at-wrong-time", {"switch": i, "call": [cb, st, ms, t], "state": state,
                                                             "last_change": c["t"]}
                    ok = [r for r in live if (r["idx_add"] < c["idx"] or r["t_add"] < t) and r["fired"].get(c["idx"], 0) == 0]
                    if not ok:
                        late = all(r["idx_add"] > c["idx"] and r["t_add"] >= t for r in live)
                        return ("timed-late-add-fires" if late else "timed-extra-call"), \
                            {"switch": i, "call": [cb, st, ms, t], "why": "registered at/after the deadline" if late
                             else "more than once for one change"}
                    ok[0]["fired"][c["idx"]] = 1
        # hold-time registrations that had to fire: for every real change into st with the deadline inside the run, the
        # registration existing strictly before the deadline, not removed before it, no other change before it
        for r in regs:
            if r["ms"] == 0:
                continue
            for ci, c in enumerate(changes):
                if c["st"] != r["st"] or c["muted"]:
                    continue
                dl = c["t"] + r["ms"]
                if dl > run.end:
                    continue
                nxt = changes[ci + 1] if ci + 1 < len(changes) else None
                # the deadline's wake-up runs when the clock reaches dl, i.e. before any op issued at instant dl
                if nxt is not None and nxt["t"] < dl:
                    continue
                if c.get("silenced") and c["silenced"][0] < dl:
                    continue            # the state was overwritten silently before the deadline: not judged
                if r["idx_add"] > c["idx"] and not (r["t_add"] < dl):
                    continue            # added at or after the deadline: not at all
                if nxt is not None and r["idx_add"] > nxt["idx"]:
                    continue
                if r["idx_rm"] is not None and r["idx_rm"] < c["idx"]:
                    continue            # removed before this change
                if r["idx_rm"] is not None and r["t_rm"] < dl:
                    continue            # removed while pending
                if r["idx_rm"] is not None and r["t_rm"] == dl and r["fired"].get(c["idx"], 0) == 0:
                    # removed at the very instant of the deadline: by a callback of the same bucket (it ran first) - or by
                    # an operation issued after the wake-up, in which case it must have fired
                    wk = [w for w in wake_groups if w[1] == dl]
                    nested = r["idx_rm"] is not None and len(run.log[r["idx_rm"]]) > 6
                    if wk and nested and r["idx_rm"] > wk[0][0]:
                        cnt("timed_skipped_removed_in_same_bucket")
                        continue
                if r["fired"].get(c["idx"], 0) == 0:
                    return "timed-missing-call", {"switch": i, "missing": [r["cb"], r["st"], r["ms"], dl]}
    # wait_for_switch futures
    for rec in run.futures:
        fut = rec["fut"]
        want_now = None
        if not rec["ooc"] and rec["state"] != 2:
            hits = [k for k, h in enumerate(rec["held_at_creation"]) if h]
            want_now = rec["switches"][hits[0]] if hits else None
        if rec.get("immediate"):
            if want_now is None:
                return "wait-resolved-without-change", {"future": rec["idx"], "t": rec["t"]}
            if fut.result().get("switch_name") != "s%d" % (run.base + want_now) or rec["regs"]:
                return "wait-immediate-wrong", {"future": rec["idx"], "result": str(fut.result()), "expected_switch": want_now,
                                                "handlers_registered": len(rec["regs"])}
            continue
        if want_now is not None:
            return "wait-not-resolved-although-in-state", {"future": rec["idx"], "t": rec["t"]}
        # one handler per switch, for the requested state (2 = the opposite of the state at creation) and hold time
        want_regs = sorted((i, rec["state"] if rec["state"] != 2 else 1 - rec["states_at_creation"][k], rec["ms"])
                           for k, i in enumerate(rec["switches"]))
        if sorted(x[:3] for x in rec["regs"]) != want_regs:
            return "wait-handler-for-wrong-state", {"future": rec["idx"], "registered": sorted(x[:3] for x in rec["regs"]),
                                                    "expected": want_regs}
        fc = rec["first_call"]
        if fc is None:
            if fut.done() and not fut.cancelled():
                return "wait-resolved-without-change", {"future": rec["idx"], "t": rec["t"]}
            continue
        if rec["cancelled"] is not None and fut.cancelled():
            cnt("wait_cancelled")
            continue
        if fc[2]:
            # its handler was first called when the future was already done (cancelled before): fine
            continue
        if not fut.done() or fut.cancelled():
            return "wait-not-resolved-at-first-change", {"future": rec["idx"], "first_call": fc[:2]}
        if fut.result().get("switch_name") != "s%d" % (run.base + fc[0]):
            return "wait-resolved-with-wrong-switch", {"future": rec["idx"], "result": str(fut.result()), "first_call": fc[:2]}
        cnt("wait_resolved")
    if run.leftovers:
        return "wait-handler-left-behind", {"leftovers": run.leftovers[:3]}
    return None


def nontrivial(run):
    timed = any(e[0] == "wake" for e in run.log)
    calls = any(e[0] == "call" for e in run.log)
    return timed and calls


def check_case(ctx, case, model, shrink=True, shared=None, sample=True):
    run = CtlRun(case, shared).run()
    ctx.evaluated(case, nontrivial(run), sample=sample)
    for e in run.log:
        if e[0] in ("report", "add", "rm", "q", "wake", "mute", "unmute", "poll", "wait", "cancel", "mon", "monitor"):
            ctx.count("op_" + e[0])
        elif e[0] == "call":
            ctx.count("call_timed" if e[4] else "call_untimed")
    counts = {}
    bad = oracle(run, counts)
    for k, v in counts.items():
        ctx.count(k, v)
    if bad:
        sig, detail = bad
        small = case
        if shrink and first_of(ctx, sig):
            def fails(ops):
                b = oracle(CtlRun(dict(case, ops=ops)).run())
                return b is not None and b[0] == sig
            small = dict(case, ops=ddmin(case["ops"], fails, max_tests=150))
            b2 = oracle(CtlRun(small).run())
            if b2 is not None and b2[0] == sig:
                detail = b2[1]
            else:
                small = case
        ctx.fail(sig, small, detail)
    if model is not None:
        lines = model_lines(run)
        got = [model.ask(l) for l, _ in lines]
        ctx.compare(dict(case, what="switch controller trace", sent=[l for l, _ in lines]), [e for _, e in lines], got)
    return bad


# ---------------------------------------------------------------------------------------------------- device events

EV_CONFIG = """switches:
  s0:
    number: 0
    tags: left, both
    events_when_activated: a_now, a_hold2|250ms
    events_when_deactivated: d_now, d_hold3|375ms
  s1:
    number: 1
    type: NC
    tags: both
    ignore_window_ms: %d
"""


def gen_event_case(r):
    ops = []
    for _ in range(r.randint(5, 30)):
        if r.random() < 0.45:
            ops.append(["adv", r.choice([0, 1, 1, 2, 3, 4])])
        else:
            ops.append(["report", r.randrange(2), r.choice(["l", "r"]), r.choice([0, 1])])
    ops.append(["adv", 9])
    return {"kind": "events", "window": r.choice([2, 3, 4]), "ops": ops}


EVENTS = ["s0_active", "s0_inactive", "s1_active", "s1_inactive", "sw_left", "sw_left_active", "sw_left_inactive",
          "sw_both", "sw_both_active", "sw_both_inactive", "a_now", "a_hold2", "d_now", "d_hold3"]


CONF = {0: {1: ["s0_active", "sw_left", "sw_left_active", "sw_both", "sw_both_active", "a_now"],
            0: ["s0_inactive", "sw_left_inactive", "sw_both_inactive", "d_now"]},
        1: {1: ["s1_active", "sw_both", "sw_both_active"], 0: ["s1_inactive", "sw_both_inactive"]}}
HOLD = {"a_hold2": "c 901 1 2 %s", "d_hold3": "c 902 0 3 %s"}
_dw = {}


def install_device_logger():
    """Wrap the Switch device's handler entry points once per process (outermost call only): tells the active run when
    the controller called the device's handler and when `_recycle_passed` ran."""
    from mpf.devices.switch import Switch
    if _dw.get("cls") is Switch:
        return
    o_post, o_rec, o_pass = Switch._post_events, Switch._post_events_with_recycle, Switch._recycle_passed

    def wrap(orig, what):
        def f(self, state):
            run = _wrapped.get("run")
            mine = isinstance(run, EventRun) and not run.finished and run.vm is not None and \
                run.vm.machine is not None and self.machine is run.vm.machine
            if mine and run.depth == 0:
                run.on_device(what, self, state)
            if mine:
                run.depth += 1
            try:
                return orig(self, state)
            finally:
                if mine:
                    run.depth -= 1
        return f
    Switch._post_events = wrap(o_post, "handler")
    Switch._post_events_with_recycle = wrap(o_rec, "handler")
    Switch._recycle_passed = wrap(o_pass, "pass")
    _dw["cls"] = Switch


class EventRun:
    def __init__(self, case):
        self.case = case
        self.log = []
        self.finished = False
        self.crash = None
        self.wakes = 0
        self.vm = None
        self.depth = 0
        self.groups = []

    def tick(self):
        x = (self.vm.now() - self.t0) / TICK
        return int(x) if x == int(x) else round(x, 6)

    def group(self, head):
        self.cur = {"head": head, "t": self.tick(), "devcall": None, "events": [], "holds": []}
        self.groups.append(self.cur)

    def on_wake(self, switch):
        self.wakes += 1
        if self.wakes > 3000:
            self.finished = True
            raise RuntimeError("runaway: more than 3000 wake-ups in one case")
        self.group(["wake", int(switch.name[1:])])

    def on_device(self, what, switch, state):
        i = int(switch.name[1:])
        if what == "pass":
            self.group(["pass", i])
        else:
            self.cur["devcall"] = (i, 1 if state else 0)

    def handler(self, name):
        def h(**kwargs):
            if not self.finished:
                t = self.tick()
                self.log.append(("event", name, t))
                if name in HOLD:
                    g = [x for x in self.groups if x["head"][0] == "wake"]
                    (g[-1] if g else self.cur)["holds"].append(HOLD[name] % t)
                else:
                    g = [x for x in self.groups if x["head"][0] in ("report", "pass")]
                    (g[-1] if g else self.cur)["events"].append(name)
                if len(self.log) > 5000:
                    self.finished = True
                    raise RuntimeError("runaway: more than 5000 events in one case")
        return h

    def run(self):
        install_wake_logger()
        install_device_logger()
        self.vm = VMachine(EV_CONFIG % (self.case["window"] * 125))
        try:
            self.vm.start()
        except BootError as e:
            raise InfraError("C03 event machine does not boot: %s" % e)
        _wrapped["run"] = self
        try:
            vm = self.vm
            m = vm.machine
            for e in EVENTS:
                m.events.add_handler(e, self.handler(e))
            vm.align()
            self.t0 = vm.now()
            self.group(["none"])
            sws = [m.switches["s0"], m.switches["s1"]]
            self.initial = [sws[0].state, sws[1].state]
            self.initial_sw = [(1 if x.invert else 0, x.state, x.hw_state) for x in sws]
            for op in self.case["ops"]:
                try:
                    t = self.tick()
                    if op[0] == "adv":
                        self.log.append(("adv", t, t + op[1]))
                        vm.advance(op[1] * TICK)
                        self.group(["none"])
                    else:
                        self.log.append(("report", op[1], op[2], op[3], t))
                        self.group(["report", op[1], op[2], op[3]])
                        m.switch_controller.process_switch("s%d" % op[1], op[3], logical=(op[2] == "l"))
                        vm.run()
                except Exception as e:
                    self.crash = "%s: %s" % (type(e).__name__, e)
                    break
            self.end = self.tick()
        finally:
            self.finished = True
            try:
                self.vm.stop()        # wake-ups during teardown are dropped by the logger (see install_wake_logger)
            finally:
                _wrapped["run"] = None
        return self


def classify_post(names, i):
    names = sorted(names)
    if not names:
        return "ok"
    for st in (0, 1):
        if names == sorted(CONF[i][st]):
            return "post %d" % st
    return "post? " + ",".join(names)


def event_model_lines(run):
    """Lines for the controller model (device handlers are callbacks 900, the |ms events 901/902) and the device model."""
    w = run.case["window"]
    out = [("new", "ok")]
    for inv, st, hw in run.initial_sw:
        out.append(("sw %d %d %d" % (inv, st, hw), "ok"))
    for l in ("0 add 1 0 900", "0 add 0 0 900", "0 add 1 2 901", "0 add 0 3 902", "1 add 1 0 900", "1 add 0 0 900",
              "dev 0 %d" % run.initial[0], "dev %d %d" % (w, run.initial[1])):
        out.append((l, "ok"))
    now = 0
    for g in run.groups:
        h = g["head"]
        if g["t"] != now:
            out.append(("to %s" % g["t"], "ok"))
            now = g["t"]
        if h[0] == "report":
            dc = g["devcall"]
            out.append(("%d report %s %d" % (h[1], h[2], h[3]), ("c 900 %d 0 %s" % (dc[1], g["t"])) if dc else "ok"))
            if dc:
                out.append(("d %d change %d" % dc, classify_post(g["events"], dc[0])))
            elif g["events"]:
                out.append(("d %d nothing-expected" % h[1], classify_post(g["events"], h[1])))
        elif h[0] == "wake":
            out.append(("%d wake" % h[1], " ".join(g["holds"]) or "ok"))
        elif h[0] == "pass":
            out.append(("d %d pass" % h[1], classify_post(g["events"], h[1])))
    return out


def event_oracle(run):
    """Expected events from the timeline: s0 (no window) posts its activation/tag events once per change and the |ms
    events at change+ms iff held; s1 (NC, ignore window w) posts once per window, with a catch-up post when the window
    closes in the other state."""
    if run.crash:
        return "crash", {"error": run.crash}
    w = run.case["window"]
    exp = []
    st = list(run.initial)
    last = [None, None]
    clear = None           # s1: end of the running ignore window and the state that opened it
    pend = []              # pending (t, kind, payload)
    reports = [e for e in run.log if e[0] in ("report", "adv")]

    def s1_events(state, t):
        exp.append((t, "s1_active" if state else "s1_inactive"))
        exp.append((t, "sw_both" if state else None))
        exp.append((t, "sw_both_active" if state else "sw_both_inactive"))

    def flush(upto, inclusive):
        nonlocal clear
        while True:
            due = [p for p in pend if p[0] < upto or (inclusive and p[0] == upto)]
            if not due:
                return
            p = min(due, key=lambda x: x[0])
            pend.remove(p)
            t, kind, a = p
            if kind == "hold":
                exp.append((t, a))
            elif kind == "window":
                clear = None
                if st[1] != a:
                    s1_events(st[1], t)

    for e in reports:
        if e[0] == "adv":
            flush(e[2], True)
            continue
        _, i, kind, v, t = e
        inv = 1 if i == 1 else 0
        logical = v if kind == "l" else v ^ inv
        if logical == st[i]:
            continue
        st[i] = logical
        last[i] = t
        if i == 0:
            # pending hold events of the other state die
            pend[:] = [p for p in pend if p[1] != "hold"]
            if logical:
                exp += [(t, "s0_active"), (t, "sw_left"), (t, "sw_left_active"), (t, "sw_both"), (t, "sw_both_active"), (t, "a_now")]
                pend.append((t + 2, "hold", "a_hold2"))
            else:
                exp += [(t, "s0_inactive"), (t, "sw_left_inactive"), (t, "sw_both_inactive"), (t, "d_now")]
                pend.append((t + 3, "hold", "d_hold3"))
        else:
            if clear is None:
                clear = t + w
                pend.append((t + w, "window", logical))
                s1_events(logical, t)
    exp = sorted((t, n) for t, n in exp if n is not None)
    got = sorted((e[2], e[1]) for e in run.log if e[0] == "event")
    if exp != got:
        extra = [x for x in got if x not in exp] or [x for x in got if got.count(x) > exp.count(x)]
        missing = [x for x in exp if x not in got] or [x for x in exp if exp.count(x) > got.count(x)]
        x = (extra or missing)[0]
        kind = "hold-event" if "hold" in x[1] else ("window-event" if x[1].startswith("s1") or (x in extra and False) else "switch-event")
        return ("%s-%s" % (kind, "extra" if extra else "missing")), {"extra": extra[:2], "missing": missing[:2]}
    return None


def check_event_case(ctx, case, shrink=True, model=None):
    run = EventRun(case).run()
    n_ev = sum(1 for e in run.log if e[0] == "event")
    ctx.evaluated(case, n_ev > 2)
    ctx.count("event_cases")
    ctx.count("events_seen", n_ev)
    bad = event_oracle(run)
    if bad:
        sig, detail = bad
        small = case
        if shrink and first_of(ctx, sig):
            def fails(ops):
                b = event_oracle(EventRun(dict(case, ops=ops)).run())
                return b is not None and b[0] == sig
            small = dict(case, ops=ddmin(case["ops"], fails, max_tests=100))
            b2 = event_oracle(EventRun(small).run())
            if b2 is not None and b2[0] == sig:
                detail = b2[1]
            else:
                small = case
        ctx.fail(sig, small, detail)
    if model is not None and not run.crash:
        lines = event_model_lines(run)
        got = [model.ask(l) for l, _ in lines]
        ctx.compare(dict(case, what="switch device events trace", sent=[l for l, _ in lines]), [e for _, e in lines], got)
    return bad


# ---------------------------------------------------------------------------------------------------- re-entrant dispatch

MAXD = 2          # a handler / monitor body reports switch changes only while nested at most this deep (keeps runs finite)
MON_CB = 700      # callback ids of monitors with a program: MON_CB + m


def gen_net_case(r):
    """2-3 switches; callback programs act on ANY switch: add / remove a handler, or report a change (re-entrant
    process_switch: from an untimed handler during the walk of a change - of the same switch or of another one -, from a
    hold-time handler while its deadline bucket is being processed, from a monitor)."""
    nsw = r.choice([2, 2, 3])
    sws = [{"nc": r.random() < 0.4} for _ in range(nsw)]
    pool = []
    for _ in range(r.randint(3, 5)):
        pool.append((r.randrange(nsw), r.choice([1, 1, 0]), r.choice([0, 0, 0, 1, 2, 2, 3]), r.choice([0, 1, 2, 3])))
    if r.random() < 0.5:      # two specs in the same deadline bucket
        i, st, ms, cb = pool[0]
        pool.append((i, st, ms or 2, (cb + 1) % 4))
        pool.append((i, st, ms or 2, cb))

    def spec():
        if r.random() < 0.8:
            return r.choice(pool)
        return (r.randrange(nsw), r.choice([1, 1, 0]), r.choice([0, 0, 1, 2, 3]), r.choice([0, 1, 2, 3]))

    def body(own_sw, monitor=False):
        acts = []
        if own_sw is not None and r.random() < 0.15:
            # leaves the state and comes back within the same instant (the outer walk is still running)
            v = r.choice([0, 1])
            return [["p", own_sw, "l", v], ["p", own_sw, "l", 1 - v]]
        reports = 0
        for _ in range(r.choice([1, 1, 2, 3])):
            x = r.random()
            if x < 0.5 and reports < (1 if monitor else 2):
                j = own_sw if (own_sw is not None and r.random() < 0.45) else r.randrange(nsw)
                acts.append(["p", j, r.choice(["l", "r"]), r.choice([0, 1])])
                reports += 1
            else:
                i, st, ms, cb = spec()
                kind = r.choice(["a", "r", "r"])
                if monitor and kind == "a" and ms == 0:
                    kind = "r"      # (a monitor that registers an untimed handler at every change makes walks grow without bound)
                acts.append([kind, i, st, ms, cb])
        return acts
    progs = []
    for cb in r.sample([0, 1, 2, 3], r.choice([1, 2, 2, 3])):
        own = [p[0] for p in pool if p[3] == cb]
        progs.append([cb, body(r.choice(own) if own else None)])
    mons = []
    if r.random() < 0.4:
        for m in range(r.choice([1, 1, 2])):
            mons.append(m)
            progs.append([MON_CB + m, body(None, True) if r.random() < 0.7 else []])
    ops = []
    for m in mons:
        ops.append(["mon", m, 1])
    for _ in range(r.randint(8, 30)):
        k = r.random()
        i, st, ms, cb = spec()
        if k < 0.25:
            ops.append(["adv", r.choice([0, 1, 1, 1, 2, 2, 3, 4])])
        elif k < 0.55:
            ops.append(["report", r.randrange(nsw), r.choice(["l", "r"]), r.choice([0, 1])])
        elif k < 0.85:
            ops.append(["add", i, st, ms, cb])
        elif k < 0.93:
            ops.append(["rm", i, st, ms, cb])
        elif mons:
            ops.append(["mon", r.choice(mons), r.choice([0, 1])])
    ops.append(["adv", r.choice([3, 9])])
    return {"kind": "net", "sws": sws, "progs": progs, "ops": ops}


class NetRun:
    """The real SwitchController with handlers and monitors that re-enter it (see gen_net_case)."""

    def __init__(self, case):
        self.case = case
        self.progs = {cb: acts for cb, acts in case.get("progs", [])}
        self.groups = []
        self.log = []
        self.funcs = {}
        self.monfuncs = {}
        self.vm = None
        self.finished = False
        self.crash = None
        self.wakes = 0
        self.calls = 0
        self.depth = 0
        self.max_depth_seen = 0

    def tick(self):
        x = (self.vm.now() - self.t0) / TICK
        return int(x) if x == int(x) else round(x, 6)

    def group(self, head):
        self.cur = {"head": head, "t": self.tick(), "obs": []}
        self.groups.append(self.cur)

    def body(self, cb, t):
        """the actions of callback / monitor `cb`, performed from inside the controller's dispatch"""
        sc = self.vm.machine.switch_controller
        self.depth += 1
        self.max_depth_seen = max(self.max_depth_seen, self.depth)
        try:
            for act in self.progs.get(cb, ()):
                if act[0] == "p":
                    _, j, kind, v = act
                    if self.depth > MAXD or j >= len(self.switches):
                        continue
                    self.do_report(j, kind, v, nested=True)
                else:
                    kind, j, st2, ms2, cb2 = act
                    if j >= len(self.switches):
                        continue
                    self.log.append(("add" if kind == "a" else "rm", j, st2, ms2, cb2, t, "nested"))
                    if kind == "a":
                        sc.add_switch_handler_obj(self.switches[j], self.func(j, cb2, st2, ms2), st2, ms2 * 125)
                    else:
                        sc.remove_switch_handler_obj(self.switches[j], self.func(j, cb2, st2, ms2), st2, ms2 * 125)
        finally:
            self.depth -= 1

    def do_report(self, j, kind, v, nested):
        sw = self.switches[j]
        logical = v if kind == "l" else v ^ (1 if sw.invert else 0)
        t = self.tick()
        self.log.append(("report", j, kind, v, t, self.depth))
        self.cur["obs"].append("r %d %d" % (j, logical))
        try:
            self.vm.machine.switch_controller.process_switch(sw.name, v, logical=(kind == "l"))
        finally:
            self.log.append(("ret", j, sw.state, sw.hw_state, t, self.depth))

    def called(self):
        self.calls += 1
        if self.calls > 1500:
            self.finished = True
            self.too_big = True
            raise RuntimeError("runaway: more than 1500 handler calls in one case")

    def func(self, i, cb, st, ms):
        key = (i, cb, st, ms)
        if key not in self.funcs:
            def f():
                if self.finished:
                    return
                t = self.tick()
                self.called()
                self.log.append(("call", i, cb, st, ms, t, self.switches[i].state))
                self.cur["obs"].append("c %d %d %d %d %s" % (i, cb, st, ms, t))
                self.body(cb, t)
            f.__name__ = "n_%d_%d_%d_%d" % key
            self.funcs[key] = f
        return self.funcs[key]

    def monfunc(self, m):
        if m not in self.monfuncs:
            def f(change):
                if self.finished:
                    return
                try:
                    i = int(change.name[1:])
                except ValueError:
                    return
                t = self.tick()
                self.called()
                self.log.append(("mon", m, i, change.state, t))
                self.cur["obs"].append("m %d %d %d" % (MON_CB + m, i, change.state))
                self.body(MON_CB + m, t)
            self.monfuncs[m] = f
        return self.monfuncs[m]

    def on_wake(self, switch):
        self.wakes += 1
        if self.wakes > 3000:
            self.finished = True
            raise RuntimeError("runaway: more than 3000 wake-ups in one case")
        i = int(switch.name[1:])
        self.group(["wake", i])
        self.log.append(("wake", i, self.tick()))

    def snapshot(self):
        self.log.append(("states", [(s.state, s.hw_state) for s in self.switches], self.tick()))

    def run(self):
        install_wake_logger()
        self.vm = VMachine(sw_config(self.case["sws"]))
        try:
            self.vm.start()
        except BootError as e:
            raise InfraError("C03 machine does not boot: %s" % e)
        _wrapped["run"] = self
        try:
            vm = self.vm
            sc = vm.machine.switch_controller
            self.switches = [vm.machine.switches["s%d" % i] for i in range(len(self.case["sws"]))]
            vm.align()
            self.t0 = vm.now()
            self.initial = [(1 if s.invert else 0, s.state, s.hw_state) for s in self.switches]
            self.group(["none"])
            for op in self.case["ops"]:
                if self.crash:
                    break
                try:
                    t = self.tick()
                    if op[0] == "adv":
                        self.log.append(("adv", t, t + op[1]))
                        self.group(["none"])
                        vm.advance(op[1] * TICK)
                        self.group(["none"])
                        self.snapshot()
                        continue
                    if op[0] == "mon":
                        self.group(op)
                        self.log.append(("monitor", op[1], op[2], t))
                        (sc.add_monitor if op[2] else sc.remove_monitor)(self.monfunc(op[1]))
                        continue
                    if op[1] >= len(self.switches):
                        continue
                    self.group(op)
                    if op[0] == "report":
                        self.cur["obs"] = []
                        self.do_report(op[1], op[2], op[3], nested=False)
                    elif op[0] == "add":
                        self.log.append(("add", op[1], op[2], op[3], op[4], t))
                        sc.add_switch_handler_obj(self.switches[op[1]], self.func(op[1], op[4], op[2], op[3]), op[2], op[3] * 125)
                    elif op[0] == "rm":
                        self.log.append(("rm", op[1], op[2], op[3], op[4], t))
                        sc.remove_switch_handler_obj(self.switches[op[1]], self.func(op[1], op[4], op[2], op[3]), op[2], op[3] * 125)
                    else:
                        raise InfraError("unknown op %r" % (op,))
                    self.snapshot()
                except InfraError:
                    raise
                except Exception as e:
                    self.crash = "%s: %s" % (type(e).__name__, e)
                    self.crash_type = type(e).__name__
                    self.group(["crash"])
                    self.cur["obs"].append("crash " + type(e).__name__)
            self.end = self.tick()
            self.pending = [self.pending_line(i) for i in range(len(self.switches))]
        finally:
            self.finished = True
            try:
                if self.vm.machine is not None:
                    for f in self.monfuncs.values():
                        self.vm.machine.switch_controller.remove_monitor(f)
                self.vm.stop()
            finally:
                _wrapped["run"] = None
        return self

    def cb_name(self, callback):
        for k, f in self.funcs.items():
            if f is callback:
                return k[1]
        return 999

    def pending_line(self, i):
        sc = self.vm.machine.switch_controller
        sw = self.switches[i]
        parts = []
        for k, es in sc._active_timed_switches.get(sw, {}).items():
            kt = (k - self.t0) / TICK
            parts.append("%s:%s" % (int(kt) if kt == int(kt) else kt,
                                    ",".join("%d/%d/%d" % (self.cb_name(e.callback), e.state, e.ms // 125) for e in es)))
        d = sc._timed_switch_handler_delay.get(sw)
        w = "-"
        if d is not None:
            wt = (d[1] - self.t0) / TICK
            w = "%s" % (int(wt) if wt == int(wt) else wt)
        regs = ["%d/%d/%d" % (self.cb_name(e.callback), st, e.ms // 125) for st in (0, 1) for e in sc.registered_switches[sw][st]
                if self.cb_name(e.callback) != 999]      # (999 = the Switch device's own handlers)
        return "T " + " ".join(parts) + " W " + w + " S %d%d" % (sw.state, sw.hw_state) + " R " + ",".join(regs)


def net_model_lines(run):
    out = [("n new %d" % MAXD, "ok")]
    for inv, st, hw in run.initial:
        out.append(("n sw %d %d %d" % (inv, st, hw), "ok"))
    for cb, acts in run.case.get("progs", []):
        out.append(("n prog %d" % cb + "".join(" " + " ".join(str(x) for x in a) for a in acts), "ok"))
    now = 0
    for g in run.groups:
        h = g["head"]
        if h[0] == "none" and not g["obs"]:
            continue
        if g["t"] != now:
            out.append(("n to %s" % g["t"], "ok"))
            now = g["t"]
        exp = " ".join(g["obs"]) or "ok"
        if h[0] == "report":
            out.append(("n report %d %s %d" % (h[1], h[2], h[3]), exp))
        elif h[0] == "add":
            out.append(("n add %d %d %d %d" % (h[1], h[2], h[3], h[4]), exp))
        elif h[0] == "rm":
            out.append(("n rm %d %d %d %d" % (h[1], h[2], h[3], h[4]), exp))
        elif h[0] == "wake":
            out.append(("n wake %d" % h[1], exp))
        elif h[0] == "mon":
            out.append(("n mon %d %d" % (MON_CB + h[1], h[2]), exp))
        elif h[0] == "crash":
            out.append(("n crash", exp))
        elif h[0] == "none":
            out.append(("n stray", exp))
    for i, p in enumerate(run.pending):
        out.append(("n pending %d" % i, p))
    return out


def net_oracle(run, counts=None):
    """C03 read literally, on a timeline in which reports, registrations and removals also come from inside handlers and
    monitors (log order = the order in which things happened; a nested report is over before its caller goes on).
    Judged: (1) nothing escapes from the controller; (2) whenever a call into the controller from outside has returned, every
    switch's logical state is the last reported one (nested reports included) and the raw state its NC image; (3) a
    duplicate report invokes nothing; (4) every call is of a handler that is registered at that moment (a removed handler
    never fires); an untimed call belongs to a real change of that switch into that state at this instant, and per instant a
    handler is not called more often than such changes happened, and not less often than the changes that happened while it
    was registered (when nobody removed it during that instant); (5) a hold-time call happens with the switch in that state,
    exactly ms after its last change, once per registration and change; a hold-time registration that was there before the
    deadline, was not removed before it, with no other change of the switch up to and including the deadline instant, did
    fire.  NOT judged: monitors (compared with the model only), the order of calls, handlers added during the instant."""
    def cnt(name, k=1):
        if counts is not None:
            counts[name] = counts.get(name, 0) + k

    if run.crash:
        return "crash-in-reentrant-dispatch-" + getattr(run, "crash_type", "Exception"), {"error": run.crash}
    n = len(run.switches)
    inv = [x[0] for x in run.initial]
    state = [x[1] for x in run.initial]
    changed_once = [False] * n
    changes = [[] for _ in range(n)]      # per switch: dict(t, st, idx)
    regs = []                              # dict(i, st, ms, cb, idx_add, t_add, idx_rm, t_rm, fired{change idx})
    log = run.log
    for idx, ev in enumerate(log):
        k = ev[0]
        if k == "report":
            _, i, kind, v, t, depth = ev
            logical = v if kind == "l" else v ^ inv[i]
            if depth:
                cnt("nested_report_depth_%d" % depth)
                cnt("nested_report_own_switch" if any(e[0] == "call" and e[1] == i for e in log[max(0, idx - 1):idx]) else "nested_report")
            if logical == state[i]:
                cnt("dup_report")
                nxt = log[idx + 1] if idx + 1 < len(log) else None
                if nxt is None or nxt[0] != "ret":
                    return "duplicate-invokes-something", {"switch": i, "t": t, "next": str(nxt)}
            else:
                state[i] = logical
                changed_once[i] = True
                changes[i].append({"t": t, "st": logical, "idx": idx})
                if depth:
                    cnt("nested_real_change")
        elif k == "ret":
            pass
        elif k == "states":
            for i, (s_impl, hw_impl) in enumerate(ev[1]):
                if s_impl != state[i]:
                    return "state-not-last-report", {"switch": i, "state": s_impl, "last_reported": state[i], "t": ev[2]}
                if changed_once[i] and hw_impl != state[i] ^ inv[i]:
                    return "hw-state-wrong", {"switch": i, "hw_state": hw_impl, "state": state[i], "t": ev[2]}
        elif k == "add":
            regs.append({"i": ev[1], "st": ev[2], "ms": ev[3], "cb": ev[4], "t_add": ev[5], "idx_add": idx, "idx_rm": None,
                         "t_rm": None, "fired": {}})
            if len(ev) > 6:
                cnt("nested_add_other_switch" if True else "")
        elif k == "rm":
            for r in regs:
                if (r["i"], r["st"], r["ms"], r["cb"]) == (ev[1], ev[2], ev[3], ev[4]) and r["idx_rm"] is None:
                    r["idx_rm"], r["t_rm"] = idx, ev[5]
        elif k == "call":
            _, i, cb, st, ms, t, sw_state = ev
            live = [r for r in regs if (r["i"], r["cb"], r["st"], r["ms"]) == (i, cb, st, ms) and r["idx_rm"] is None]
            kind = "timed" if ms else "untimed"
            if not live:
                was = [r for r in regs if (r["i"], r["cb"], r["st"], r["ms"]) == (i, cb, st, ms)]
                if was:
                    return kind + "-removed-handler-fires", {"switch": i, "call": [cb, st, ms, t],
                                                             "removed_at": max(r["t_rm"] for r in was)}
                return kind + "-extra-call", {"switch": i, "call": [cb, st, ms, t], "why": "never registered"}
            if ms == 0:
                if not any(c["t"] == t and c["st"] == st for c in changes[i]):
                    return "untimed-extra-call", {"switch": i, "call": [cb, st, ms, t], "why": "no change into this state now"}
                if sw_state != st:
                    cnt("untimed_call_after_switch_left_state_again")
            else:
                c = changes[i][-1] if changes[i] else None
                if c is None or state[i] != st or c["t"] + ms != t:
                    return "timed-fires-at-wrong-time", {"switch": i, "call": [cb, st, ms, t], "state": state[i],
                                                         "last_change": c["t"] if c else None}
                ok = [r for r in live if (r["idx_add"] < c["idx"] or r["t_add"] < t) and r["fired"].get(c["idx"], 0) == 0]
                if not ok:
                    late = all(r["idx_add"] > c["idx"] and r["t_add"] >= t for r in live)
                    return ("timed-late-add-fires" if late else "timed-extra-call"), \
                        {"switch": i, "call": [cb, st, ms, t], "why": "registered at/after the deadline" if late
                         else "more than once for one change"}
                ok[0]["fired"][c["idx"]] = 1
    # untimed handlers: calls per instant against the real changes of that instant
    keys = {}
    for r in regs:
        if r["ms"] == 0:
            keys.setdefault((r["i"], r["cb"], r["st"]), []).append(r)
    for (i, cb, st), rs in keys.items():
        for t in sorted({c["t"] for c in changes[i] if c["st"] == st}):
            cs = [c for c in changes[i] if c["t"] == t and c["st"] == st]
            calls = sum(1 for e in log if e[0] == "call" and e[1:6] == (i, cb, st, 0, t))
            hi = sum(len(cs) for r in rs if r["idx_rm"] is None or r["idx_rm"] > cs[0]["idx"])
            touched = any(r["t_rm"] == t or r["t_add"] == t for r in rs)
            lo = 0 if touched else sum(len(cs) for r in rs if r["idx_add"] < cs[0]["idx"] and r["idx_rm"] is None or
                                       (r["idx_add"] < cs[0]["idx"] and r["t_rm"] is not None and r["t_rm"] > t))
            if calls > hi:
                return "untimed-extra-call", {"switch": i, "handler": [cb, st, 0], "t": t, "calls": calls, "changes": len(cs)}
            if calls < lo:
                return "untimed-missing-call", {"switch": i, "handler": [cb, st, 0], "t": t, "calls": calls, "changes": len(cs)}
            if len(cs) > 1:
                cnt("several_changes_into_state_in_one_instant")
    # hold-time handlers that had to fire
    for r in regs:
        if r["ms"] == 0:
            continue
        i = r["i"]
        for ci, c in enumerate(changes[i]):
            if c["st"] != r["st"]:
                continue
            dl = c["t"] + r["ms"]
            if dl > run.end:
                continue
            nxt = changes[i][ci + 1] if ci + 1 < len(changes[i]) else None
            if nxt is not None and nxt["t"] <= dl:
                if nxt["t"] == dl:
                    cnt("change_at_deadline_instant_not_judged")
                continue
            if r["idx_add"] > c["idx"] and not r["t_add"] < dl:
                continue
            if r["idx_rm"] is not None and (r["idx_rm"] < c["idx"] or r["t_rm"] <= dl):
                continue
            if r["fired"].get(c["idx"], 0) == 0:
                return "timed-missing-call", {"switch": i, "missing": [r["cb"], r["st"], r["ms"], dl]}
    return None


def check_net_case(ctx, case, model, shrink=True, sample=True):
    run = NetRun(case).run()
    if getattr(run, "too_big", False):
        # the callback programs of this case multiply (a handler that registers handlers that report ...): the walks are
        # legitimate but grow exponentially; the case is counted and dropped (a wake-up that never ends is NOT dropped)
        ctx.count("net_case_dropped_too_many_calls")
        return None
    nested = sum(1 for e in run.log if e[0] == "report" and e[5])
    ctx.evaluated(case, nested > 0 and any(e[0] == "call" for e in run.log), sample=sample)
    ctx.count("net_cases")
    for e in run.log:
        if e[0] == "call":
            ctx.count("net_call_timed" if e[4] else "net_call_untimed")
        elif e[0] == "mon":
            ctx.count("net_monitor_call")
        elif e[0] == "wake":
            ctx.count("net_wake")
    ctx.count("net_max_depth_%d" % run.max_depth_seen)
    counts = {}
    bad = net_oracle(run, counts)
    for k, v in counts.items():
        ctx.count("net_" + k, v)
    if bad:
        sig, detail = bad
        small = case
        if shrink and first_of(ctx, sig):
            def fails(ops):
                b = net_oracle(NetRun(dict(case, ops=ops)).run())
                return b is not None and b[0] == sig
            small = dict(case, ops=ddmin(case["ops"], fails, max_tests=150))
            b2 = net_oracle(NetRun(small).run())
            if b2 is not None and b2[0] == sig:
                detail = b2[1]
            else:
                small = case
        ctx.fail(sig, small, detail)
    if model is not None:
        lines = net_model_lines(run)
        got = [model.ask(l) for l, _ in lines]
        ctx.compare(dict(case, what="switch controller trace (re-entrant dispatch)", sent=[l for l, _ in lines]),
                    [e for _, e in lines], got)
    return bad


# ---------------------------------------------------------------------------------------------------- corpus

CORPUS = [
    # D1: timed handler (1 tick) added long after the activation must not fire
    {"kind": "ctl", "sws": [{"nc": False}], "ops": [["report", 0, "l", 1], ["adv", 9], ["add", 0, 1, 1, 0], ["adv", 3]]},
    # D2: same timed handler twice, removed once while pending: neither copy fires
    {"kind": "ctl", "sws": [{"nc": False}],
     "ops": [["add", 0, 1, 2, 0], ["add", 0, 1, 2, 0], ["report", 0, "l", 1], ["adv", 1], ["rm", 0, 1, 2, 0], ["adv", 3]]},
    # catch-up inside the interval, exactly at the deadline (not at all), NC raw reports, duplicates
    {"kind": "ctl", "sws": [{"nc": True}, {"nc": False}],
     "ops": [["add", 0, 1, 3, 1], ["report", 0, "r", 0], ["adv", 1], ["add", 0, 1, 3, 2], ["add", 0, 1, 2, 3], ["adv", 1],
             ["add", 0, 1, 2, 0], ["report", 0, "l", 1], ["q", 0, 1, 2], ["adv", 1], ["q", 0, 1, 3], ["report", 0, "r", 1],
             ["adv", 4], ["report", 1, "r", 1], ["report", 1, "l", 1], ["adv", 1]]},
    # session 3: a callback of an expired bucket registers a timed handler while a later deadline is pending (the stale
    # second wake-up used to end in KeyError)
    {"kind": "ctl", "sws": [{"nc": False}], "progs": [[2, [["a", 1, 0, 3], ["a", 1, 3, 2]]]],
     "ops": [["add", 0, 1, 1, 2], ["add", 0, 1, 2, 0], ["report", 0, "r", 1], ["adv", 9]]},
    # two handlers with the same deadline, the first removes the second (and itself): the second must not fire; untimed
    # walk: the first removes a later one and re-adds it, adds a new one (not called in this round, called at the next change)
    {"kind": "ctl", "sws": [{"nc": True}], "progs": [[3, [["r", 0, 3, 1], ["r", 0, 3, 3]]], [0, [["r", 1, 0, 1], ["a", 1, 0, 1], ["a", 1, 0, 2]]]],
     "ops": [["add", 0, 0, 3, 3], ["add", 0, 0, 3, 1], ["add", 0, 1, 0, 0], ["add", 0, 1, 0, 1], ["mon", 1], ["report", 0, "l", 1],
             ["report", 0, "r", 1], ["adv", 3], ["report", 0, "l", 1], ["adv", 1]]},
    # muted change, unmute, resync with a difference and without, poll in sync, wait future resolved / cancelled
    {"kind": "ctl", "sws": [{"nc": False}, {"nc": True}], "progs": [],
     "ops": [["add", 0, 1, 0, 0], ["add", 0, 1, 2, 1], ["mute", 0, 1], ["report", 0, "l", 1], ["adv", 3], ["unmute", 0, 1],
             ["report", 0, "l", 0], ["wait", [0, 1], 1, 1, 1], ["wait", [1], 2, 1, 0], ["resync", [1, 1]], ["poll", ["=", "="]],
             ["adv", 1], ["resync", [1, 0]], ["cancel", 1], ["adv", 2], ["wait", [0], 1, 0, 0], ["adv", 1]]},
]


NET_CORPUS = [
    # a hold-time handler reports a change of its own switch while its deadline bucket is being processed (KeyError out of
    # _process_active_timed_switches before the fix); handler 1 shares the bucket
    {"kind": "net", "sws": [{"nc": False}, {"nc": False}], "progs": [[2, [["p", 1, "l", 1]]]],
     "ops": [["add", 1, 0, 3, 2], ["add", 1, 0, 3, 1], ["report", 1, "l", 1], ["report", 1, "l", 0], ["adv", 3], ["adv", 4]]},
    # an untimed handler reports the next change of its own switch during the walk: the hold-time handler behind it must not be
    # armed for the state the switch has left (fired at change+ms although the switch did not stay)
    {"kind": "net", "sws": [{"nc": True}, {"nc": False}], "progs": [[0, [["p", 1, "r", 0]]]],
     "ops": [["add", 1, 1, 0, 0], ["add", 1, 1, 2, 1], ["report", 1, "l", 1], ["adv", 2]]},
    # ... and when the callback brings the switch back into the state within the same instant, the hold time is armed once
    {"kind": "net", "sws": [{"nc": False}, {"nc": False}], "progs": [[0, [["p", 0, "l", 0], ["p", 0, "l", 1]]]],
     "ops": [["add", 0, 1, 0, 0], ["add", 0, 1, 2, 1], ["report", 0, "l", 1], ["adv", 3]]},
    # handlers acting on another switch: s0's handler registers / removes handlers of s1 and reports s1; a monitor that removes a
    # handler and reports a third switch
    {"kind": "net", "sws": [{"nc": False}, {"nc": True}, {"nc": False}],
     "progs": [[0, [["a", 1, 1, 2, 1], ["p", 1, "l", 1], ["r", 1, 1, 0, 2]]], [700, [["r", 2, 1, 0, 3], ["p", 2, "l", 1]]]],
     "ops": [["mon", 0, 1], ["add", 0, 1, 0, 0], ["add", 1, 1, 0, 2], ["add", 2, 1, 0, 3], ["add", 2, 1, 1, 1], ["report", 0, "r", 1],
             ["adv", 1], ["report", 0, "l", 0], ["adv", 2], ["mon", 0, 0], ["report", 1, "r", 1], ["adv", 3]]},
]


EXH_NO = [["report", 0, "l", 1], ["report", 0, "l", 0], ["add", 0, 1, 1, 0], ["add", 0, 1, 2, 1], ["rm", 0, 1, 1, 0],
          ["rm", 0, 1, 2, 1], ["adv", 1], ["adv", 2]]
EXH_NC = [["report", 0, "r", 1], ["report", 0, "r", 0], ["add", 0, 0, 2, 1], ["add", 0, 1, 1, 0], ["rm", 0, 0, 2, 1],
          ["adv", 1], ["adv", 2]]
EXH_NO6 = [["report", 0, "l", 1], ["report", 0, "l", 0], ["add", 0, 1, 2, 1], ["rm", 0, 1, 2, 1], ["adv", 1], ["adv", 2]]
# callbacks that mutate: 0 removes handler 1 of its own bucket/walk and registers 2 with a longer hold; 2 removes itself
EXH_MUT = [["report", 0, "l", 1], ["report", 0, "l", 0], ["add", 0, 1, 1, 0], ["add", 0, 1, 1, 1], ["add", 0, 1, 0, 0],
           ["add", 0, 1, 0, 1], ["adv", 1]]
EXH_MUT_PROGS = [[0, [["r", 1, 1, 1], ["r", 1, 0, 1], ["a", 1, 2, 2]]], [1, [["a", 1, 0, 0]]], [2, [["r", 1, 2, 2]]]]
EXH_SPACES = [(EXH_NO, 5, False, None), (EXH_NC, 5, True, None), (EXH_NO6, 6, False, None), (EXH_MUT, 5, False, EXH_MUT_PROGS)]
EXH_SWITCHES = 400


def exhaustive(ctx, model, spaces=None):
    """every op sequence of length <= L over an alphabet on ONE switch (hold times of 1 and 2 ticks, advances of 1 and 2
    ticks), each followed by a 3-tick flush, through oracle and correspondence.  A machine with EXH_SWITCHES switches
    (even: NO, odd: NC) is shared; every sequence gets a switch nobody has touched."""
    import itertools
    vm = None
    used = {False: 0, True: 0}
    desc = []
    cfg = sw_config([{"nc": i % 2 == 1} for i in range(EXH_SWITCHES)])
    try:
        for alphabet, maxlen, nc, progs in (spaces or EXH_SPACES):
            n = 0
            for L in range(0, maxlen + 1):
                for seq in itertools.product(alphabet, repeat=L):
                    if vm is None or used[nc] >= EXH_SWITCHES // 2:
                        if vm is not None:
                            vm.stop()
                            mpfleak.release()
                        vm = VMachine(cfg)
                        try:
                            vm.start()
                        except BootError as e:
                            raise InfraError("C03 machine does not boot: %s" % e)
                        used = {False: 0, True: 0}
                    idx = 2 * used[nc] + (1 if nc else 0)
                    used[nc] += 1
                    case = {"kind": "ctl", "sws": [{"nc": nc}], "progs": progs or [],
                            "ops": [list(o) for o in seq] + [["adv", 3]]}
                    check_case(ctx, case, model, shared=(vm, idx), sample=False)
                    n += 1
            desc.append("all %d op sequences of length <= %d over the %d-op alphabet %s on one %s switch%s"
                        % (n, maxlen, len(alphabet), json.dumps(alphabet), "NC" if nc else "NO",
                           (" with callback programs %s" % json.dumps(progs)) if progs else ""))
    finally:
        if vm is not None:
            vm.stop()
    ctx.exhaustive = True
    ctx.notes["exhaustive_subspace"] = "; ".join(desc) + " (each sequence followed by a 3-tick advance; a fresh switch per " \
                                       "sequence on a shared %d-switch machine)" % EXH_SWITCHES


def run(ctx):
    model = None if getattr(ctx, "model_unavailable", False) else leanproc.LeanProc(ID)
    try:
        for case in CORPUS:
            check_case(ctx, case, model)
        for case in NET_CORPUS:
            check_net_case(ctx, case, model)
        for i in range(ctx.n(900, 10000)):
            check_case(ctx, gen_case(ctx.rng("ctl", i)), model)
            if i % 200 == 199:
                mpfleak.release()
        for i in range(ctx.n(500, 3000)):
            check_net_case(ctx, gen_net_case(ctx.rng("net", i)), model)
            if i % 200 == 199:
                mpfleak.release()
        for i in range(ctx.n(300, 4000)):
            check_event_case(ctx, gen_event_case(ctx.rng("ev", i)), model=model)
            if i % 200 == 199:
                mpfleak.release()
        if ctx.tier == "thorough" and not ctx.search and not ctx.failures and not ctx.disagreements:
            exhaustive(ctx, model)
    finally:
        if model is not None:
            model.close()


def replay(ctx, rep):
    case = rep["case"]
    if case.get("kind") == "events":
        check_event_case(ctx, {k: case[k] for k in ("kind", "window", "ops")}, shrink=False)
    elif case.get("kind") == "ctl":
        check_case(ctx, {k: case[k] for k in ("kind", "sws", "progs", "ops") if k in case}, None, shrink=False)
    elif case.get("kind") == "net":
        check_net_case(ctx, {k: case[k] for k in ("kind", "sws", "progs", "ops") if k in case}, None, shrink=False)
