"""C16 - placeholder templates evaluate like Python and never go stale.

Implementation side: the real PlaceholderManager on a real machine in a game (machine variables, a setting, player
variables, a monitored counter): build_raw_template(text).evaluate / evaluate_and_subscribe.
Model side: MpfVerif.Model.Template through the compiled driver (eval in both modes, and its Python semantics `py`).
Oracle (model independent): CPython's own eval of the same text in a namespace of recording stand-ins for the
placeholder objects (strict variant: `a and b` rewritten to a helper evaluating both operands), and for the change
histories: after changing a location the evaluation read, the subscription future must be done.
"""
import ast
import asyncio
import os

from harness.common import leanproc, util
from harness.common.util import InfraError

ID = "C16"
LEAN_MODULES = ["MpfVerif.Props.C16"]
PROPS_FILE = "MpfVerif/Props/C16.lean"
MANIFEST = {
  "text": "Proof on a Lean model of the template evaluator (expression AST of the supported grammar over int / exact dyadic float / bool / str / None / tuples / placeholder objects; `eval` transcribes BasePlaceholderManager._eval_* including the subscription list and a log of the locations read; `py` is Python's semantics for the same grammar, strict = all and/or operands evaluated, lazy = Python's short-circuit), all by structural induction over every expression and environment: (tables_correct) the operator tables the model dispatches through equal the OPERATORS / BOOL_OPERATORS / COMPARISONS dict literals regenerated from placeholder_manager.py on every run (`decide`); (reads_subscribed) every location read during an evaluation is in the returned subscription list, on value and on error paths; (fresh) if another environment has the same parameters and agrees on every subscribed location, the evaluation gives the identical result - value or error class, subscription list, read log - so a template that is not notified cannot be stale; (eval_is_python) in both modes the evaluator's outcome is the strict Python outcome seen through MPF's error mapping: Python's value, or the default exactly when Python raises TypeError / a name is missing (evaluate) / an attribute is read from a falsy parent (subscribe), a rejection for every other exception; (all_operands_agree_with_short_circuit, value_is_pythons) whenever the strict evaluation yields a value, Python's short-circuit evaluation yields the same value, so every value the evaluator returns is Python's value. The model and its operator semantics are tied to the code and to CPython by a correspondence run: generated expressions up to size 12 evaluated by the real evaluate / evaluate_and_subscribe, by the Lean driver (eval in both modes, py strict, py lazy, read log) and by CPython eval of the same text; and change histories of machine variables, a setting, player variables and a monitored device attribute checking that the future completes after every change of something read.",
  "note": "Trusted: Lean kernel + {propext, Classical.choice, Quot.sound}; the hand-written model Model/Template.lean incl. its operator semantics (validated against CPython on every run, not proved); harness/corr/C16.py table translator; event delivery of machine_var_/player_ events (C01) and DeviceMonitor. Documented deviation from Python: all and/or operands are evaluated. Chained comparisons, operators outside the tables, slices, str %, float pow / inexact division are outside the model (rejected by MPF or marked unmodelled and skipped).",
  "technique": "Lean 4 theorems (structural induction on the expression for fresh / reads_subscribed / eval_is_python / strict-vs-short-circuit, `decide` on regenerated tables) + differential correspondence against the real evaluator and CPython eval as oracle",
  "translated": True,
}
RULE = ("expressions of the supported grammar generated top-down with size <= 12 over constants (ints, exact dyadic floats, "
        "bools, short strings, None), parameters (one missing), machine.a/b (attribute and subscript), settings.s1, "
        "current_player.p, device.counters.c1.value, unary/binary/comparison/and-or/conditional/tuple/subscript nodes; "
        "values of the variables drawn per case; non-trivial = the expression has at least one operator node and the "
        "strict CPython evaluation is not a plain constant; distinct = (text, environment); histories: one change of one "
        "location per subscribed evaluation")
TRUSTED = [
    "Model/Template.lean is hand-written; its operator semantics (applyBin/applyCmp/applyUn/truthy) are validated against "
    "CPython by the run, not derived from it",
    "modelled, not verified: event delivery for machine_var_*/player_* events, DeviceMonitor attribute futures, Util.any",
]
ASSUMPTIONS = ["floats are dyadic rationals small enough for exact binary arithmetic; strings are ASCII words",
               "chained comparisons, unsupported operators and slices are rejected by MPF (checked: never a value)",
               "all and/or operands are evaluated (documented deviation from Python's short-circuit)"]


# ---------------------------------------------------------------------------------------------------------------------
# GEN: operator tables regenerated from the source
# ---------------------------------------------------------------------------------------------------------------------
def gen_tables():
    src = open(os.path.join(util.REPO, "mpf", "core", "placeholder_manager.py")).read()
    tree = ast.parse(src)
    out = {}
    for node in tree.body:
        if isinstance(node, ast.Assign) and len(node.targets) == 1 and isinstance(node.targets[0], ast.Name) \
                and node.targets[0].id in ("OPERATORS", "BOOL_OPERATORS", "COMPARISONS"):
            if not isinstance(node.value, ast.Dict):
                raise ValueError("%s is not a dict literal" % node.targets[0].id)
            rows = []
            for k, v in zip(node.value.keys, node.value.values):
                if not (isinstance(k, ast.Attribute) and isinstance(k.value, ast.Name) and k.value.id == "ast"):
                    raise ValueError("key %s" % ast.dump(k))
                if isinstance(v, ast.Attribute) and isinstance(v.value, ast.Name) and v.value.id == "op":
                    fn = v.attr
                elif isinstance(v, ast.Lambda) and isinstance(v.body, ast.BoolOp) and len(v.args.args) == 2 and \
                        [getattr(x, "id", None) for x in v.body.values] == [a.arg for a in v.args.args]:
                    fn = "and" if isinstance(v.body.op, ast.And) else "or"
                else:
                    raise ValueError("value %s" % ast.dump(v))
                rows.append((k.attr, fn))
            out[node.targets[0].id] = rows
    if set(out) != {"OPERATORS", "BOOL_OPERATORS", "COMPARISONS"}:
        raise ValueError("tables not found: %s" % sorted(out))

    def lean(rows):
        return "[" + ", ".join('("%s", "%s")' % r for r in rows) + "]"
    text = ("/-! GENERATED by harness/corr/C16.py from mpf/core/placeholder_manager.py - do not edit. -/\n"
            "namespace MpfVerif.Gen.OpTables\n"
            "def operators : List (String × String) := %s\n"
            "def boolOperators : List (String × String) := %s\n"
            "def comparisons : List (String × String) := %s\n"
            "end MpfVerif.Gen.OpTables\n" % (lean(out["OPERATORS"]), lean(out["BOOL_OPERATORS"]), lean(out["COMPARISONS"])))
    return "MpfVerif/Gen/OpTables.lean", text


GEN = [gen_tables]

# ---------------------------------------------------------------------------------------------------------------------
# expressions: (kind, ...) trees -> python text, strict text, model tokens
# ---------------------------------------------------------------------------------------------------------------------
BIN = {"Add": "+", "Sub": "-", "Mult": "*", "FloorDiv": "//", "Div": "/", "Pow": "**", "BitXor": "^", "Mod": "%"}
CMP = {"Eq": "==", "Lt": "<", "Gt": ">", "LtE": "<=", "GtE": ">=", "NotEq": "!="}
INTS = [0, 1, 2, 3, -1, -3, 7]
FLOATS = [0.5, 1.5, -2.25, 2.0, 0.0, -0.5]
STRS = ["", "a", "ab", "b"]
PARAMS = ["x", "y", "z"]
LOCS = ["machine.a", "machine.b", "settings.s1", "settings.s2", "current_player.p", "device.counters.c1.value"]


def const_text(v):
    return repr(v)


def val_tokens(v):
    if isinstance(v, bool):
        return ["b", "1" if v else "0"]
    if isinstance(v, int):
        return ["i", str(v)]
    if isinstance(v, float):
        n, d = v.as_integer_ratio()
        return ["f", str(n), str(d.bit_length() - 1)]
    if v is None:
        return ["n"]
    if isinstance(v, str):
        return ["s", v or "-"]
    if isinstance(v, tuple):
        out = []
        for x in v:
            out += ["tc"] + val_tokens(x)
        return out + ["t0"]
    raise InfraError("value %r" % (v,))


def show_val(v):
    """the model's canonical value text"""
    if isinstance(v, bool):
        return "B:1" if v else "B:0"
    if isinstance(v, int):
        return "I:%d" % v
    if isinstance(v, float):
        if v != v or v in (float("inf"), float("-inf")):
            return "F:special"
        n, d = v.as_integer_ratio()
        return "F:%d:%d" % (n, d.bit_length() - 1)
    if v is None:
        return "N"
    if isinstance(v, str):
        return "S:" + v
    if isinstance(v, tuple):
        s = "T()"
        for x in reversed(v):
            s = "T(%s,%s)" % (show_val(x), s)
        return s
    return "O:" + type(v).__name__


def render(e, strict):
    k = e[0]
    if k == "k":
        return "(%s)" % const_text(e[1])
    if k == "v":
        return e[1]
    if k == "u":
        return "(%s %s)" % ({"USub": "-", "Not": "not", "UAdd": "+", "Invert": "~"}[e[1]], render(e[2], strict))
    if k == "o":
        return "(%s %s %s)" % (render(e[2], strict), BIN.get(e[1], {"LShift": "<<", "BitOr": "|"}.get(e[1])), render(e[3], strict))
    if k == "c":
        return "(%s %s %s)" % (render(e[2], strict), CMP[e[1]], render(e[3], strict))
    if k == "l":
        if strict:
            return "_%s(%s, %s)" % (e[1].lower(), render(e[2], strict), render(e[3], strict))
        return "(%s %s %s)" % (render(e[2], strict), e[1].lower(), render(e[3], strict))
    if k == "?":
        return "(%s if %s else %s)" % (render(e[2], strict), render(e[1], strict), render(e[3], strict))
    if k == "t":
        return "(" + "".join(render(x, strict) + ", " for x in e[1]) + ")"
    if k == "a":
        return "%s.%s" % (render(e[1], strict), e[2])
    if k == "x":
        return "%s[%s]" % (render(e[1], strict), render(e[2], strict))
    if k == "chain":
        return "(%s < %s < %s)" % (render(e[1], strict), render(e[2], strict), render(e[3], strict))
    raise InfraError("expr %r" % (e,))


def tokens(e):
    k = e[0]
    if k == "k":
        return ["k"] + val_tokens(e[1])
    if k == "v":
        return ["v", e[1]]
    if k == "u":
        return ["u", e[1]] + tokens(e[2])
    if k in ("o", "c", "l"):
        return [k, e[1]] + tokens(e[2]) + tokens(e[3])
    if k == "?":
        return ["?"] + tokens(e[1]) + tokens(e[2]) + tokens(e[3])
    if k == "t":
        out = []
        for x in e[1]:
            out += ["tc"] + tokens(x)
        return out + ["t0"]
    if k == "a":
        return ["a", e[2]] + tokens(e[1])
    if k == "x":
        return ["x"] + tokens(e[1]) + tokens(e[2])
    raise InfraError("expr %r" % (e,))


def loc_expr(r, loc):
    parts = loc.split(".")
    e = ("v", parts[0])
    for i, p in enumerate(parts[1:]):
        if r.random() < 0.35 and parts[0] in ("machine", "current_player", "device"):
            e = ("x", e, ("k", p))
        else:
            e = ("a", e, p)
    return e


def gen_leaf(r):
    x = r.random()
    if x < 0.22:
        return ("k", r.choice(INTS))
    if x < 0.30:
        return ("k", r.choice(FLOATS))
    if x < 0.38:
        return ("k", r.random() < 0.5)
    if x < 0.48:
        return ("k", r.choice(STRS))
    if x < 0.53:
        return ("k", None)
    if x < 0.70:
        return ("v", r.choice(PARAMS + (["q"] if r.random() < 0.15 else [])))
    return loc_expr(r, r.choice(LOCS))


def gen_expr(r, budget):
    if budget <= 1 or r.random() < 0.12:
        return gen_leaf(r)
    x = r.random()
    if x < 0.12:
        return ("u", r.choice(["USub", "Not", "Not"]), gen_expr(r, budget - 1))
    if x < 0.42:
        l = r.randint(1, budget - 2) if budget > 2 else 1
        return ("o", r.choice(list(BIN)), gen_expr(r, l), gen_expr(r, max(1, budget - 1 - l)))
    if x < 0.62:
        l = r.randint(1, budget - 2) if budget > 2 else 1
        return ("c", r.choice(list(CMP)), gen_expr(r, l), gen_expr(r, max(1, budget - 1 - l)))
    if x < 0.78:
        l = r.randint(1, budget - 2) if budget > 2 else 1
        return ("l", r.choice(["And", "Or"]), gen_expr(r, l), gen_expr(r, max(1, budget - 1 - l)))
    if x < 0.90 and budget >= 4:
        a = r.randint(1, budget - 3)
        b = r.randint(1, budget - 2 - a)
        return ("?", gen_expr(r, a), gen_expr(r, b), gen_expr(r, max(1, budget - 1 - a - b)))
    if x < 0.97:
        n = r.choice([0, 1, 2, 2, 3])
        return ("t", tuple(gen_expr(r, max(1, (budget - 1) // max(n, 1))) for _ in range(n)))
    n = r.choice([1, 2])
    return ("x", ("t", tuple(gen_leaf(r) for _ in range(n))), ("k", r.choice([0, 1, 2])))


def gen_env(r):
    def val():
        return r.choice([r.choice(INTS), r.choice(INTS), r.choice(FLOATS), r.random() < 0.5, r.choice(STRS), None])
    return {"params": {p: val() for p in PARAMS},
            "machine.a": val(), "machine.b": val(),
            "settings.s1": r.choice([0, 1, 2]),
            "settings.s2": r.choice([0, 1, 2]),       # a setting backed by a differently named machine variable
            "current_player.p": r.choice([r.choice(INTS), r.choice(STRS), r.choice(FLOATS)]),
            "device.counters.c1.value": r.choice([0, 1, 2, 5])}


# ---------------------------------------------------------------------------------------------------------------------
# CPython oracle namespace (records reads)
# ---------------------------------------------------------------------------------------------------------------------
class Rec:
    def __init__(self, env, path, reads):
        object.__setattr__(self, "_e", (env, path, reads))

    def _get(self, item):
        env, path, reads = object.__getattribute__(self, "_e")
        p = path + [str(item)]
        depth = 2 if p[0] == "device" else 0
        if len(p) - 1 <= depth:
            return Rec(env, p, reads)
        loc = ".".join(p)
        reads.append(loc)
        return env.get(loc)

    def __getattr__(self, item):
        return self._get(item)

    def __getitem__(self, item):
        env, path, reads = object.__getattribute__(self, "_e")
        if path[0] == "settings":
            raise TypeError("not subscriptable")
        return self._get(item)


def cpython(text, env, strict):
    reads = []
    ns = dict(env["params"])
    for root in ("machine", "settings", "current_player", "device"):
        ns[root] = Rec(env, [root], reads)
    ns["_and"] = lambda a, b: a and b
    ns["_or"] = lambda a, b: a or b
    try:
        v = eval(text, {"__builtins__": {}}, ns)
    except TypeError:
        return "raise TypeError", reads
    except NameError:
        return "raise NameError", reads
    except AttributeError:
        return "raise AttributeError", reads
    except (ZeroDivisionError, IndexError, KeyError, OverflowError, ValueError):
        return "raise Other", reads
    if isinstance(v, complex) or isinstance(v, Rec) or (isinstance(v, int) and abs(v) > 10 ** 30):
        return "unmodelled", reads
    return "ok " + show_val(v), reads


def top(out):
    """BaseTemplate.evaluate: a template whose value is None yields the default"""
    return "default" if out == "ok N" else out


def expected_out(py, sub):
    """MPF's documented mapping of the strict Python outcome"""
    if py.startswith("ok") or py == "unmodelled":
        return top(py)
    return {"raise TypeError": "default", "raise NameError": "crash" if sub else "default",
            "raise AttributeError": "default" if sub else "crash", "raise Other": "crash"}[py]


# ---------------------------------------------------------------------------------------------------------------------
# real machine
# ---------------------------------------------------------------------------------------------------------------------
CONFIG = """
settings:
  s1:
    label: s1
    values:
      0: zero
      1: one
      2: two
    default: 0
    key_type: int
    sort: 1
  s2:
    label: s2
    values:
      0: zero
      1: one
      2: two
    default: 0
    key_type: int
    sort: 2
    machine_var: op_s2_backing
counters:
  c1:
    count_events: c1_count
    starting_count: 0
    control_events:
      - action: jump
        event: c1_set0
        value: 0
      - action: jump
        event: c1_set1
        value: 1
      - action: jump
        event: c1_set2
        value: 2
      - action: jump
        event: c1_set5
        value: 5
"""


class Real:
    SENT = object()

    def __init__(self):
        from harness.common.vmachine import VMachine
        self.broken = False
        self.vm = VMachine(CONFIG, game=True).start()
        self.vm.start_game()
        self.vm.advance(1)
        self.m = self.vm.machine
        if not self.m.game or not self.m.game.player:
            raise InfraError("no game / player")
        self.pm = self.m.placeholder_manager

    def set_loc(self, loc, v):
        m = self.m
        if loc.startswith("machine."):
            m.variables.set_machine_var(loc.split(".")[1], v)
        elif loc in ("settings.s1", "settings.s2"):
            m.settings.set_setting_value(loc.split(".")[1], v)
        elif loc == "current_player.p":
            m.game.player["p"] = v
        elif loc == "device.counters.c1.value":
            m.events.post("c1_set%d" % v)
        self.vm.run()

    def set_env(self, env):
        for loc in LOCS:
            self.set_loc(loc, env[loc])
        if self.m.counters["c1"].value != env["device.counters.c1.value"]:
            raise InfraError("counter value not set")

    def evaluate(self, text, params):
        try:
            tpl = self.pm.build_raw_template(text, default_value=self.SENT)
            v = tpl.evaluate(dict(params))
        except BaseException as e:
            return "crash"
        return "default" if v is self.SENT else "ok " + show_val(v)

    def subscribe(self, text, params):
        try:
            tpl = self.pm.build_raw_template(text, default_value=self.SENT)
            v, fut = tpl.evaluate_and_subscribe(dict(params))
            self.vm.run()       # a broken subscription list only explodes inside the Util.any task
        except BaseException as e:
            self.broken = True
            return "crash", None
        return ("default" if v is self.SENT else "ok " + show_val(v)), fut

    def close(self):
        self.vm.stop()


def other_value(r, loc, cur):
    if loc in ("settings.s1", "settings.s2"):
        return r.choice([x for x in (0, 1, 2) if x != cur])
    if loc == "device.counters.c1.value":
        return r.choice([x for x in (0, 1, 2, 5) if x != cur])
    return r.choice([x for x in INTS + ["a", "ab", 1.5] if x != cur])     # 2.0 -> 2 is not a change


# ---------------------------------------------------------------------------------------------------------------------
def model_set_env(model, env):
    model.ask("clear")
    for p, v in env["params"].items():
        if model.ask("param %s %s" % (p, " ".join(val_tokens(v)))) != "ok":
            raise InfraError("model param")
    for loc in LOCS:
        if model.ask("set %s %s" % (loc, " ".join(val_tokens(env[loc])))) != "ok":
            raise InfraError("model set")


def sig_of(e, what):
    return "%s:%s" % (what, e[0] + (":" + e[1] if e[0] in "uocl" else ""))


def eval_case(ctx, real, model, r, e, env, sample=True):
    text, stext = render(e, False), render(e, True)
    case = {"text": text, "env": repr(env), "expr": repr(e)}
    py_strict, reads = cpython(stext, env, True)
    py_lazy, _ = cpython(text, env, False)
    nontrivial = e[0] not in ("k", "v")
    ctx.evaluated({"text": text, "env": env}, nontrivial, sample=sample)
    ctx.count("top_" + e[0])
    ctx.count("py_" + py_strict.split(" ")[0] + ("_" + py_strict.split(" ")[1] if py_strict.startswith("raise") else ""))
    if py_strict.startswith("ok") and py_lazy != py_strict:
        raise InfraError("strict/lazy CPython differ on %s: %s vs %s" % (text, py_strict, py_lazy))
    if real.broken:     # an exception escaped into the event loop: continue on a fresh machine
        real.close()
        real.__init__()
        ctx.count("machine_rebuilt")
    real.set_env(env)
    got0 = real.evaluate(text, env["params"])
    got1, fut = real.subscribe(text, env["params"])
    if "F:special" in py_strict or py_strict == "unmodelled":
        ctx.count("skipped_unmodelled_oracle")
    else:
        for sub, got in ((False, got0), (True, got1)):
            want = expected_out(py_strict, sub)
            if got != want:
                ctx.fail(sig_of(e, "value" if want.startswith("ok") or got.startswith("ok") else "error-class"),
                         dict(case, mode="subscribe" if sub else "evaluate"),
                         {"implementation": got, "python_strict": py_strict, "expected": want})
                break
    if model is not None:
        toks = " ".join(tokens(e))
        model_set_env(model, env)
        m0 = model.ask("eval 0 " + toks)
        m1 = model.ask("eval 1 " + toks)
        mp = model.ask("py strict " + toks)
        ml = model.ask("py lazy " + toks)
        if "bad-op" in (m0, m1, mp, ml):
            raise InfraError("model rejected %s" % toks)
        if m0.startswith("unmodelled") or mp == "unmodelled":
            ctx.count("skipped_unmodelled_model")
        else:
            ctx.compare(dict(case, what="evaluate"), got0, top(m0.split(" |")[0]))
            ctx.compare(dict(case, what="subscribe"), got1, top(m1.split(" |")[0]))
            if py_strict != "unmodelled" and "F:special" not in py_strict:
                ctx.compare(dict(case, what="python-strict"), py_strict, mp)
                if ml != "unmodelled":
                    ctx.compare(dict(case, what="python-lazy"), py_lazy, ml)
            mreads = sorted(set(m1.split(" |")[2].split()))
            if got1 != "crash":
                ctx.compare(dict(case, what="reads"), sorted(set(reads)), mreads)
    # change history: one change of one location
    if fut is not None:
        try:
            loc = r.choice(LOCS)
            if reads and r.random() < 0.7:
                loc = r.choice(reads)
            new = other_value(r, loc, env[loc])
            was_done = fut.done()
            real.set_loc(loc, new)
            done = fut.done()
            ctx.count("history_changes")
            if loc in reads:
                ctx.count("history_change_of_read_location")
                if not done:
                    ctx.fail("stale:%s:%s" % (loc.split(".")[0], "subscript" if ("%s[" % loc.split(".")[0]) in text else "attribute"),
                             dict(case, change=[loc, new]),
                             {"read": sorted(set(reads)), "future_done": done, "was_done_before": was_done})
        finally:
            if not fut.done():
                fut.cancel()
        real.vm.run()


CORPUS = [
    (("c", "Eq", ("x", ("v", "machine"), ("k", "a")), ("k", 1)), "D10"),
    (("c", "Eq", ("x", ("v", "current_player"), ("k", "p")), ("k", 1)), "D10"),
    (("t", (("v", "x"), ("k", ""))), "D27"),
    (("o", "Add", ("t", (("k", 1),)), ("t", (("k", 2), ("k", 3)))), "D27"),
    (("t", (("k", 1), ("v", "y"), ("a", ("v", "machine"), "a"))), "D27"),
    (("u", "USub", ("k", None)), "D28"),
    (("u", "USub", ("k", "a")), "D28"),
    (("?", ("a", ("v", "machine"), "b"), ("o", "Add", ("a", ("v", "machine"), "a"), ("k", "x")), ("k", 5)), "ite-error-branch"),
    (("l", "And", ("k", False), ("o", "Add", ("k", 1), ("k", "x"))), "all-operands"),
    (("l", "Or", ("a", ("v", "machine"), "a"), ("a", ("v", "settings"), "s1")), "or"),
    (("c", "Lt", ("a", ("a", ("a", ("v", "device"), "counters"), "c1"), "value"), ("k", 2)), "device"),
    (("o", "FloorDiv", ("k", 7), ("k", -2)), "floordiv"),
    (("o", "Mod", ("k", -7), ("k", 2)), "mod"),
    (("o", "Mod", ("k", 1.5), ("k", -0.5)), "mod"),
    (("o", "FloorDiv", ("k", 1), ("k", 0)), "zerodiv"),
    (("c", "Eq", ("k", 1), ("k", True)), "eq"),
    (("c", "Eq", ("k", 1.0 * 2), ("k", 2)), "eq"),
    (("c", "Lt", ("k", "a"), ("k", 1)), "lt-type"),
    (("o", "Mult", ("k", "ab"), ("k", 3)), "str-repeat"),
    (("o", "BitXor", ("k", True), ("k", True)), "xor-bool"),
]
REJECTED = [("o", "LShift", ("k", 1), ("k", 2)), ("o", "BitOr", ("k", 1), ("k", 2)), ("u", "UAdd", ("k", 1)),
            ("u", "Invert", ("k", 1)), ("chain", ("k", 1), ("k", 2), ("k", 3))]


def run(ctx):
    model = None if getattr(ctx, "model_unavailable", False) else leanproc.LeanProc(ID)
    real = Real()
    try:
        r0 = ctx.rng("corpus")
        for e, tag in CORPUS:
            for j in range(4):
                eval_case(ctx, real, model, r0, e, gen_env(ctx.rng("corpus-env", tag, j)))
        for e in REJECTED:     # malformed stream: outside the supported grammar -> rejected, never a value
            text = render(e, False)
            got = real.evaluate(text, {})
            ctx.evaluated({"text": text, "rejected": True}, True, sample=False)
            ctx.count("rejected_stream")
            if got != "crash":
                ctx.fail("unsupported-not-rejected:%s" % e[0], {"text": text}, {"implementation": got})
        for i in range(ctx.n(2500, 40000)):
            r = ctx.rng("expr", i)
            e = gen_expr(r, r.choice([2, 3, 4, 5, 6, 8, 10, 12]))
            eval_case(ctx, real, model, r, e, gen_env(r), sample=True)
    finally:
        real.close()
        if model is not None:
            model.close()


def replay(ctx, rep):
    case = rep["case"]
    if "expr" not in case:
        real = Real()
        try:
            got = real.evaluate(case["text"], {})
            if got != "crash":
                ctx.fail("unsupported-not-rejected", case, {"implementation": got})
        finally:
            real.close()
        return

    e = ast.literal_eval(case["expr"])
    env = ast.literal_eval(case["env"])
    real = Real()
    try:
        import random
        for seed in range(6):
            eval_case(ctx, real, None, random.Random(seed), e, env, sample=False)
            if ctx.failures:
                break
    finally:
        real.close()
