"""C16 - placeholder templates evaluate like Python and never go stale.

Implementation side: the real PlaceholderManager on a real machine (harness/common/tmpl_c16.py: two modes, timer, shot, counter,
state machine, switch, two settings, up to four players) driven through generated histories - game start / end, players
added, turn rotation, mode start / stop, variable / setting / device changes, time: build_raw_template(text).evaluate /
evaluate_and_subscribe and build_text_template(text) likewise.
Model side: MpfVerif.Model.Template through the compiled driver (eval in both modes, text templates, and its Python semantics).
Oracle (model independent): CPython's own eval of the same text in a namespace of recording stand-ins for the placeholder
objects whose values are read directly from the machine's objects (strict variant: `a and b` rewritten to a helper evaluating
both operands); string.Formatter with those values for text templates; and for the histories: (1) after an operation that
changed a location the evaluation read, the subscription future must be done, (2) a re-evaluate loop like
config_player._update_subscription must hold the value a fresh evaluation gives.
Conditional event handlers (harness/common/cond_c16.py, Model/CondDispatch.lean): handlers registered as `event{condition}` and
conditional variable_player / event_player entries (machine-wide and in two modes) on a real machine, posts of every kind; oracle:
a handler / entry acts iff CPython's value of its condition text is true on the values read from the machine at ITS turn.
"""
import ast
import asyncio
import os

from harness.common import leanproc, util
from harness.common.util import InfraError

ID = "C16"
LEAN_MODULES = ["MpfVerif.Props.C16"]
PROPS_FILE = "MpfVerif/Props/C16.lean"
MANIFEST = {
  "text": "Proof on a Lean model of the template evaluator (expression AST of the supported grammar - unary / binary / comparison / and-or / conditional / tuple / attribute / subscript / slice - over int / exact dyadic float / bool / str / None / tuples / placeholder objects of every root: machine incl. machine.time, settings, current_player, players[n], game, mode, device.<collection>.<name>; locations can be absent = the placeholder raises ValueError: not in a game, player not in the game, unknown device attribute; `eval` transcribes BasePlaceholderManager._eval_* including the subscription list and a log of the locations read; `py` is Python's semantics for the same grammar, strict = all and/or operands evaluated, lazy = Python's short-circuit; text templates = literal pieces and {expression:spec} fields), all by structural induction over every expression / piece list and every environment: (tables_correct) the operator tables the model dispatches through equal the OPERATORS / BOOL_OPERATORS / COMPARISONS dict literals regenerated from placeholder_manager.py on every run (`decide`; `in`, `not in`, `is` and every operator outside them are rejected); (reads_subscribed, text_reads_subscribed) every location read during an evaluation is in the returned subscription list, on value and on error paths; (fresh, text_fresh) if another environment has the same parameters and placeholder objects and agrees - value or absence - on every subscribed location, the evaluation gives the identical result, so a template that is not notified cannot be stale; (eval_is_python, text_is_python) in both modes the evaluator's outcome is the strict Python outcome seen through MPF's error mapping: Python's value, or the default exactly when Python raises TypeError (also from indexing / slicing / str %) / a name is missing or a ValueError is raised (evaluate) / an attribute is read from a falsy parent (subscribe) / the location is absent, a rejection for every other exception and for the unsubscribable roots mode and game when subscribing; (all_operands_agree_with_short_circuit, value_is_pythons) whenever the strict evaluation yields a value, Python's short-circuit evaluation yields the same value. The model and its operator semantics (floor division and modulo with Python's sign rules, ** with negative and large exponents, int/float/bool mixing, string comparison / concatenation / repetition, str %, indexing and slicing with negative and out-of-range bounds) are tied to the code and to CPython by a correspondence run: generated expressions up to size 12 and text templates evaluated by the real evaluate / evaluate_and_subscribe on a real machine in generated states (no game / game / several players / modes running), by the Lean driver (eval in both modes, py strict, py lazy, read log, text) and by CPython eval of the same text; and change histories over all roots checking that the future completes after every change of something read (game start and end, player added, turn rotation, mode start / stop, device changes, the clock) and that a re-evaluate loop holds the fresh value. Conditional event handlers (last clause of the property; Model/CondDispatch.lean = EventManager._run_handlers / _run_handlers_sequential as far as a condition can observe them: a left fold of one turn per handler over a world of current values, relayed kwargs, call log and stop flag; handlers with priority, optional condition, own kwargs, steps = set / add a location or post an event, each step with its own optional condition = the items of a variable_player / event_player entry, a returned dict (relay) or False (boolean)), for every post kind, world and handler list: (dispatch_is_serial) dispatching pre ++ post is dispatching pre and then post from the world pre left - no verdict travels from one turn to the next; (handler_runs_iff_condition_true_at_its_turn, conditional_handler_acts_on_current_values) a handler of the list pre ++ h :: post (distinct ids) is called iff the post is still running after pre and Python's value of its condition over the values the handlers before it left, the kwargs relayed so far and its own kwargs is true (condition_verdict_is_pythons: bool(value), False for None / TypeError / missing name / absent location); (skipped_handler_has_no_effect); (entry_items_decided_on_current_values) the items of one config-player entry are decided one after the other on the values the items before left; (handlers_stay_priority_ordered) add_handler keeps the list the dispatcher walks sorted by priority. Tied by a correspondence run: generated groups (a machine config with variable_player / event_player entries keyed cevN{condition} machine-wide, in a non-game mode and in a game mode, with per-variable / per-target conditions, 1-3 condition texts per group so that handlers share one template object) x cases (pre-state, 0-4 plain handlers registered as cevN{condition} with priorities around the mode priorities, own kwargs, callbacks changing machine variables / the setting / player variables / the counter value and enabled flag, returning relay dicts or False; one post / post_relay / post_boolean / post_queue with kwargs): every RegisteredHandler of the event is wrapped in the harness process to record entry / exit snapshots; the Lean dispatcher must call the same handlers, fire the same events and leave the same values and relayed kwargs.",
  "note": "Trusted: Lean kernel + {propext, Classical.choice, Quot.sound}; the hand-written model Model/Template.lean incl. its operator semantics (validated against CPython on every run, not proved); harness/corr/C16.py table translator; event delivery of machine_var_/player_ events (C01) and DeviceMonitor. Documented deviation from Python: all and/or operands are evaluated. Outside the model (answered `unmodelled`, judged by the CPython oracle alone): float results that are not exact in a double, non-integer or huge exponents, tuple comparison / repetition, str % conversions other than %s %d %%, format specs other than empty and d, !r/!s conversions, dict parameters, subscripts of machine.time. Chained comparisons and operators outside the tables are rejected by MPF (checked). mode.* and game.* cannot be subscribed at all (evaluate only; reported; they are not in the property's list machine / player / device / settings). Conditional handlers: the order of the handlers of one event is taken from the implementation's list (priority order is C01's statement; the model only checks it is sorted); _min_priority blocking, handler removal during a dispatch and queue handlers that wait are not modelled; a condition whose evaluation raises (ZeroDivisionError ...) or is outside the model ends the claims for that post. A player variable set to a tuple / list / dict posts no event (documented by mpf, outside the property's value universe): counted, not claimed. Observed, not claimed: an event_player target `name{condition}` whose condition contains a parenthesis is taken for a dynamic event name and the condition is silently dropped.",
  "technique": "Lean 4 theorems (structural induction on the expression / piece list for fresh / reads_subscribed / eval_is_python / strict-vs-short-circuit, `decide` on regenerated tables) + differential correspondence against the real evaluator on a real machine driven through game / player / mode / device histories, with CPython eval and string.Formatter as oracle; conditional handlers: fold model + append / membership lemmas, real dispatcher observed through wrapped handlers",
  "translated": True,
}
RULE = ("per case: a real machine in the state reached by a generated operation history (<= 10 cases per machine; operations: "
        "game start / end, add player, drain = next ball or next player, mode start / stop, machine variable, setting, player "
        "variable of the current or another player, counter / state machine / timer / shot events, switch, tilt flag, clock "
        "advance by 0.5 s .. 1 h), an expression of the supported grammar generated top-down with size <= 12 (constants, "
        "parameters incl. a missing one, 37 locations over the roots machine / machine.time / settings / current_player / "
        "players[0..2,-1] / game / mode / device (counter, state machine, switch, timer, shot, playfield) reached by attribute "
        "or subscript, unary / binary incl. ** with negative and large exponents and str %, comparisons incl. the rejected "
        "in / is, and-or, conditional, tuples, indexing, slices, attribute of a plain value) or a text template of 1-3 pieces "
        "with format specs, then one more operation biased to change a location that was read; non-trivial = the expression has "
        "an operator node; distinct = (text, parameters, values of all locations).  Conditional handlers: per group one machine "
        "config with 2-6 conditional variable_player / event_player entries over 1-3 condition texts (comparisons of 1-3 chosen "
        "locations / kwargs with small constants, and-or, not, conditional, arithmetic; attribute or subscript access), 8 cases per "
        "group: idempotent pre-state (game on / off, modes, every variable), 0-4 plain conditional handlers whose actions are "
        "biased to the locations the conditions read, post kind and kwargs; non-trivial = at least two handlers and one condition; "
        "counted: turns reached after a change, verdicts that differ from the start of the post (same text earlier in the list)")
TRUSTED = [
    "Model/Template.lean is hand-written; its operator semantics (applyBin / applyCmp / applyUn / truthy / pyIndex / pySlice / "
    "fmtScan / fmtVal) are validated against CPython by the run, not derived from it",
    "modelled, not verified: event delivery for machine_var_*/player_* events, DeviceMonitor attribute futures, Util.any, "
    "asyncio.sleep; the values of the locations are read from the machine's objects by the harness (snapshot)",
    "the clock is TestClock.get_datetime patched in the harness process to follow the virtual loop time",
    "conditional handlers: Model/CondDispatch.lean is hand-written (pinned: EventManager._run_handlers, _run_handlers_sequential, "
    "add_handler, get_event_and_condition_from_string, ConfigPlayer.register_player_events / config_play_callback, "
    "VariablePlayer.play / _set_variable, EventPlayer.play); the RegisteredHandler entries of the posted event are replaced by "
    "recording copies in the harness process; the values at a handler's turn are the exit snapshot of the previous handler that ran",
]
ASSUMPTIONS = ["floats are dyadic rationals; a float result that is not exact in a double is outside the model; strings are ASCII words",
               "chained comparisons, unsupported operators, calls, lists, dicts are rejected by MPF (checked: never a value)",
               "all and/or operands are evaluated (documented deviation from Python's short-circuit)",
               "player variables are set to int / float / bool / str / None values (a tuple / list / dict value posts no event by mpf's "
               "documented design: counted, not claimed); setting a variable to an equal value (1 -> True -> 1.0) is not a change",
               "conditional handlers: nothing but the handlers of the post runs between two turns (no await in _run_handlers; queue "
               "handlers of the generated cases do not wait)",
               "mode.* and game.* are evaluate-only: subscribing them is rejected (they have no subscribe())"]


# ---------------------------------------------------------------------------------------------------------------------
# GEN: operator tables regenerated from the source
# ---------------------------------------------------------------------------------------------------------------------
def gen_tables():
    src = open(os.path.join(util.REPO, "mpf", "core", "placeholder_manager.py")).read()
    tree = ast.parse(src)
    out = {}
    for node in tree.body:
        if isinstance(node, ast.Assign) and len(node.targets) == 1 and isinstance(node.targets[0], ast.Name) \
                and node.targets[0].id in ("OPERATORS", "BOOL_OPERATORS", "COMPARISONS"):
            if not isinstance(node.value, ast.Dict):
                raise ValueError("%s is not a dict literal" % node.targets[0].id)
            rows = []
            for k, v in zip(node.value.keys, node.value.values):
                if not (isinstance(k, ast.Attribute) and isinstance(k.value, ast.Name) and k.value.id == "ast"):
                    raise ValueError("key %s" % ast.dump(k))
                if isinstance(v, ast.Attribute) and isinstance(v.value, ast.Name) and v.value.id == "op":
                    fn = v.attr
                elif isinstance(v, ast.Lambda) and isinstance(v.body, ast.BoolOp) and len(v.args.args) == 2 and \
                        [getattr(x, "id", None) for x in v.body.values] == [a.arg for a in v.args.args]:
                    fn = "and" if isinstance(v.body.op, ast.And) else "or"
                else:
                    raise ValueError("value %s" % ast.dump(v))
                rows.append((k.attr, fn))
            out[node.targets[0].id] = rows
    if set(out) != {"OPERATORS", "BOOL_OPERATORS", "COMPARISONS"}:
        raise ValueError("tables not found: %s" % sorted(out))

    def lean(rows):
        return "[" + ", ".join('("%s", "%s")' % r for r in rows) + "]"
    text = ("/-! GENERATED by harness/corr/C16.py from mpf/core/placeholder_manager.py - do not edit. -/\n"
            "namespace MpfVerif.Gen.OpTables\n"
            "def operators : List (String × String) := %s\n"
            "def boolOperators : List (String × String) := %s\n"
            "def comparisons : List (String × String) := %s\n"
            "end MpfVerif.Gen.OpTables\n" % (lean(out["OPERATORS"]), lean(out["BOOL_OPERATORS"]), lean(out["COMPARISONS"])))
    return "MpfVerif/Gen/OpTables.lean", text


GEN = [gen_tables]

from harness.common.tmpl_c16 import (ABSENT, EVENTS, FLOATS, INTS, LOCS, PVARS, STRS, Real, cpython, expected_out, gen_expr,
                                      gen_params, gen_text, kinds, render, show_val, tame, text_oracle, text_parses, text_render, text_tokens,
                                      tokens, top, val_tokens)
from harness.common.shrink import ddmin

SET_VALS = INTS + ["a", "ab", 1.5, -2.25]
PSET_VALS = SET_VALS + [None, None, True, (1, 2)]      # player variables: None is a simple value too; a tuple is "complex" (no claim)
MACHINE_LEN = 10          # cases per real machine (the op history since boot is the replay input)


# ---------------------------------------------------------------------------------------------------------------------
# operations on the machine
# ---------------------------------------------------------------------------------------------------------------------
def ops_for(r, loc):
    """operations likely to change the value at `loc`"""
    p = loc.split(".")
    v = r.choice(SET_VALS)
    if p[0] in ("current_player", "players", "game"):
        v = r.choice(PSET_VALS)
    if p[0] == "machine" and p[1] == "time":
        return [("advance", r.choice([0.5, 1, 1, 2.5, 60, 60, 3600]))]
    if p[0] == "machine":
        return [("mvar", p[1], v)]
    if p[0] == "settings":
        return [("setting", p[1], r.choice([0, 1, 2]))]
    structural = [("drain",), ("game_start",), ("game_end",), ("add_player",)]
    if p[0] == "current_player":
        return [("pvar", "cur", p[1], v if p[1] == "p" else r.choice([10, 20, 30])), r.choice(structural)]
    if p[0] == "players":
        return [("pvar", r.choice([0, 1, 2]) if p[1] == "-1" else int(p[1]), p[2], v if p[2] == "p" else r.choice([10, 20, 30])),
                r.choice(structural)]
    if p[0] == "game":
        return [r.choice(structural), ("tilt", r.random() < 0.5), ("pvar", "cur", "p", v)]
    if p[0] == "mode":
        return [("mode", r.choice(["m1", "m2"]), r.random() < 0.6)]
    if p[1] == "counters":
        return [("event", r.choice(EVENTS[:7]))]
    if p[1] == "state_machines":
        return [("event", r.choice(["sm_go", "sm_back"]))]
    if p[1] == "switches":
        return [("switch", "s_a", r.choice([0, 1]))]
    if p[1] == "timers":
        return [("event", r.choice(["t1_start", "t1_stop"])), ("mode", "m1", r.random() < 0.6), ("advance", 1)]
    if p[1] == "shots":
        return [("event", r.choice(["sh1_enable", "sh1_do_hit", "sh1_do_hit", "sh1_disable"])), ("mode", "m2", r.random() < 0.7),
                r.choice(structural)]
    return [r.choice(structural)]


def gen_op(r, reads=()):
    if reads and r.random() < 0.7:
        return r.choice(ops_for(r, r.choice(list(reads))))
    return r.choice(ops_for(r, r.choice(LOCS)))


def pre_ops(r):
    """randomise the plain variables, then a few structural steps (biased to being in a game)"""
    def val():
        return r.choice([r.choice(INTS), r.choice(INTS), r.choice(FLOATS), r.random() < 0.5, r.choice(STRS), None])
    ops = [("mvar", "a", val()), ("mvar", "b", val()), ("pvar", "cur", "p", r.choice(SET_VALS + [True, None]))]
    if r.random() < 0.5:
        ops.append(("game_start",))
    for _ in range(r.choice([0, 1, 1, 2])):
        ops.append(gen_op(r))
    return ops


def same_value_set(real, op):
    m = real.m
    if op[0] == "mvar":
        return m.variables.get_machine_var(op[1]) == op[2]
    if op[0] == "setting":
        return m.settings.get_setting_value(op[1]) == op[2]
    if op[0] == "pvar" and m.game and m.game.player:
        pl = m.game.player if op[1] == "cur" else (m.game.player_list[op[1]] if op[1] < len(m.game.player_list) else None)
        return pl is not None and pl.vars.get(op[2], 0) == op[3]
    return False


def changed_locs(env0, env1):
    out = set()
    for loc in set(env0["vals"]) | set(env1["vals"]):
        a, b = env0["vals"].get(loc, ABSENT), env1["vals"].get(loc, ABSENT)
        if (a is ABSENT) != (b is ABSENT) or (a is not ABSENT and a != b):
            out.add(loc)
    return out


# ---------------------------------------------------------------------------------------------------------------------
def model_set_env(model, env, params):
    model.ask("clear")
    for p, v in params.items():
        if model.ask("param %s %s" % (p, " ".join(val_tokens(v)))) != "ok":
            raise InfraError("model param")
    for o in env["objs"]:
        if model.ask("obj " + o) != "ok":
            raise InfraError("model obj")
    for loc, v in env["vals"].items():
        line = "absent " + loc if v is ABSENT else "set %s %s" % (loc, " ".join(val_tokens(v)))
        if model.ask(line) != "ok":
            raise InfraError("model set %s" % line)


def sig_of(kind, e, what):
    if kind == "text":
        return "%s:text" % what
    return "%s:%s" % (what, e[0] + (":" + e[1] if e[0] in "uocl" else ""))


def roots_of(reads):
    return "+".join(sorted({l.split(".")[0] for l in reads})) or "none"


def check_case(ctx, real, model, case, sample=True):
    """case = {kind, expr|pieces, params, change}; the machine is in the state reached by real.history"""
    kind, params, change = case["kind"], case["params"], case["change"]
    if kind == "text":
        pieces = case["pieces"]
        text = text_render(pieces)
        e = None
        used = set()
        for p in pieces:
            if p[0] == "fld":
                used |= kinds(p[1])
    else:
        e = case["expr"]
        text = render(e, "mpf")
        used = kinds(e)
    env = dict(real.snapshot(), params=params)
    rep = {"kind": kind, "text": text, "params": repr(params), "history": repr(real.history), "change": repr(change),
           "expr": repr(e if kind == "expr" else case["pieces"]), "env": repr(env["vals"])}
    # ---- the specification: CPython's own evaluation of the same text -------------------------------------------------
    if kind == "text":
        want = {False: text_oracle(pieces, env, False), True: text_oracle(pieces, env, True)}
        py0 = want[False][0]
        reads = want[True][1]
        raw1 = None
    else:
        out = {sub: cpython(render(e, "strict"), env, sub) for sub in (False, True)}
        lazy = cpython(render(e, "lazy"), env, False)
        if out[False][0].startswith("ok") and lazy[0] != out[False][0]:
            raise InfraError("strict/lazy CPython differ on %s: %s vs %s" % (text, out[False][0], lazy[0]))
        want = {sub: (expected_out(out[sub][0], sub), out[sub][1]) for sub in (False, True)}
        py0 = out[False][0]
        reads = out[True][1]
        raw1 = out[True][2]
    ctx.evaluated({"text": text, "env": env["vals"], "params": params}, kind == "text" or e[0] not in ("k", "v"), sample=sample)
    ctx.count("kind_" + kind)
    for u in used:
        ctx.count("node_" + u)
    ctx.count("py_" + py0.replace("raise ", "raise_").split(" ")[0])
    ctx.count("state_" + ("game" if "game" in env["objs"] else "nogame"))
    # ---- the implementation ---------------------------------------------------------------------------------------------
    got0 = real.evaluate(kind, text, params)
    got1, fut, tpl, rawgot = real.subscribe(kind, text, params)
    for sub, got in ((False, got0), (True, got1)):
        w = want[sub][0]
        if w == "unmodelled":
            ctx.count("skipped_unmodelled_oracle")
            continue
        ok = got == w
        if not ok and sub and kind == "expr" and ("root:mode" in used or "root:game" in used):
            # mode / game cannot be subscribed today (rejected); should they become subscribable the value must be Python's
            ok = got == want[False][0] and want[False][0] != "crash"
        if not ok:
            what = "value" if w.startswith("ok") or got.startswith("ok") else "error-class"
            if py0 == "raise TypeError" and got == "crash" and ({"x", "sl"} & used):
                what = "typeerror-not-default:subscript"
            ctx.fail(what if what.startswith("typeerror") else sig_of(kind, e, what),
                     dict(rep, mode="subscribe" if sub else "evaluate"),
                     {"implementation": got, "python_strict": py0, "expected": w})
            break
    # ---- the model ---------------------------------------------------------------------------------------------------------
    if model is not None and kind == "text" and not text_parses(pieces):
        ctx.count("text_not_parsed_as_generated")       # e.g. `{a != b}`: Python's parser rejects it - oracle only
    elif model is not None:
        model_set_env(model, env, params)
        if kind == "text":
            toks = " ".join(text_tokens(pieces))
            m0 = model.ask("text 0 " + toks)
            m1 = model.ask("text 1 " + toks)
            mp = ml = None
        else:
            toks = " ".join(tokens(e))
            m0 = model.ask("eval 0 " + toks)
            m1 = model.ask("eval 1 " + toks)
            mp = model.ask("py strict " + toks)
            ml = model.ask("py lazy " + toks)
        if "bad-op" in (m0, m1, mp, ml):
            raise InfraError("model rejected %s" % toks)
        if m0.startswith("unmodelled") or m1.startswith("unmodelled") or mp == "unmodelled":
            ctx.count("skipped_unmodelled_model")
        else:
            ctx.compare(dict(rep, what="evaluate"), got0, top(m0.split(" |")[0]) if kind == "expr" else m0.split(" |")[0])
            ctx.compare(dict(rep, what="subscribe"), got1, top(m1.split(" |")[0]) if kind == "expr" else m1.split(" |")[0])
            if kind == "expr" and py0 != "unmodelled":
                ctx.compare(dict(rep, what="python-strict"), py0.replace("FalsyParent", "AttributeError"), mp)
                if ml != "unmodelled":
                    ctx.compare(dict(rep, what="python-lazy"), lazy[0].replace("FalsyParent", "AttributeError"), ml)
            if got1 != "crash" and want[True][0] != "unmodelled":
                ctx.compare(dict(rep, what="reads"), sorted(set(reads)), sorted(set(m1.split(" |")[2].split())))
    # ---- change history: the first future, and the re-evaluate loop of config_player._update_subscription ---------------
    if fut is None:
        if real.broken:
            ctx.count("machine_broken")
        return
    held = {"out": got1, "n": 0, "fut": fut, "crash": False, "raw": rawgot}

    def again(f):
        if f.cancelled() or held["n"] > 5000:
            return
        held["n"] += 1
        try:
            v, f2 = tpl.evaluate_and_subscribe(dict(params))
        except BaseException:
            held["crash"] = True
            return
        held["out"], held["fut"], held["raw"] = real.canon(v), f2, v
        f2.add_done_callback(again)
    fut.add_done_callback(again)
    try:
        was_done = fut.done()
        try:
            real.apply(change)
        except InfraError:
            raise
        except BaseException as ex:        # an exception out of the loop while applying the change (re-evaluation is guarded)
            real.broken = True
            ctx.count("machine_broken_in_change")
            return
        env1 = dict(real.snapshot(), params=params)
        ch = changed_locs(env, env1)
        done = fut.done()
        ctx.count("history_changes")
        ctx.count("change_" + change[0])
        hit = sorted(ch & set(reads))
        if hit:
            ctx.count("history_change_of_read_location")
            for l in hit:
                ctx.count("changed_read_root_" + l.split(".")[0])
            if not done and change[0] == "pvar" and isinstance(change[3], (tuple, list, dict)):
                # documented by mpf: "More complex player variables (lists, dicts, etc.) do not get this event posted" - and
                # outside the property's value universe (int / float / bool / str / None): observed, not claimed
                ctx.count("observed_outside_property_complex_player_var_not_notified")
                return
            if not done:
                where = ".".join(hit[0].split(".")[:2]) if hit[0].startswith(("device.", "machine.time")) else hit[0].split(".")[0]
                sig = "stale:%s:%s:%s" % (where, "text" if kind == "text" else
                                          ("subscript" if ("%s[" % hit[0].split(".")[0]) in text else "attribute"), change[0])
                if change[0] == "pvar" and change[3] is None:
                    sig = "stale:player-variable-set-to-None"      # one defect, one signature (Player.__setattr__ posts no event)
                ctx.fail(sig,
                         dict(rep), {"read": sorted(set(reads)), "changed": hit, "future_done": done, "was_done_before": was_done})
                return
        # the loop must hold the value a fresh evaluation gives now
        if kind == "text":
            fresh = text_oracle(pieces, env1, True)[0]
        else:
            o1 = cpython(render(e, "strict"), env1, True)
            fresh = expected_out(o1[0], True)
            rawfresh = o1[2]
        if ch and fresh != "unmodelled" and fresh != "crash" and not held["crash"] and want[True][0] not in ("unmodelled", "crash"):
            ctx.count("loop_checked")
            if held["n"]:
                ctx.count("loop_reevaluated")
            same = held["out"] == fresh
            if not same and kind == "expr" and held["out"].startswith("ok") and fresh.startswith("ok"):
                same = held["raw"] == rawfresh      # 1 / True / 1.0 are the same value: no event is due for such a "change"
            if not same:
                ctx.fail("stale-loop:%s:%s" % (roots_of(reads), change[0]), dict(rep),
                         {"held": held["out"], "fresh_python": fresh, "reevaluations": held["n"], "changed": sorted(ch)})
    finally:
        f = held["fut"]
        if f is not None and not f.done():
            f.cancel()
        if not fut.done():
            fut.cancel()
        try:
            real.settle()
        except BaseException:
            real.broken = True



# ---------------------------------------------------------------------------------------------------------------------
# conditional event handlers (`event{condition}`) and conditional config-player entries
# ---------------------------------------------------------------------------------------------------------------------
from harness.common import cond_c16 as cd


def cond_model_lines(obs, case):
    """the handlers of the event in the implementation's list order, as driver lines; ids = position in that order"""
    lines = ["hclear"]
    for k, v in case["post"]["kwargs"].items():
        lines.append("kw %s %s" % (k, " ".join(val_tokens(v))))
    for i, h in enumerate(obs["order"]):
        typ, d = h["desc"]
        c = d["cond"]
        lines.append(("hreg %d %d %s" % (i, h["prio"], " ".join(tokens(c)) if c is not None else "")).rstrip())
        for k, v in h["hkw"].items():
            lines.append("hkw %d %s %s" % (i, k, " ".join(val_tokens(v))))
        if typ == "plain":
            for a in d["acts"]:
                loc, v = {"mvar": lambda: ("machine." + a[1], a[2]), "setting": lambda: ("settings.s1", a[2]),
                          "pvar": lambda: ("current_player." + a[1], a[2]), "counter": lambda: ("device.counters.c1.value", a[1]),
                          "cen": lambda: ("device.counters.c1.enabled", a[1])}[a[0]]()
                lines.append("hset %d %s %s" % (i, loc, " ".join(val_tokens(v))))
            if isinstance(d["ret"], dict):
                for k, v in d["ret"].items():
                    lines.append("hret %d %s %s" % (i, k, " ".join(val_tokens(v))))
            elif d["ret"] is False:
                lines.append("hfalse %d" % i)
        elif typ == "vp":
            for it in d["items"]:
                loc = ("current_player." if it[2] in ("set", "add") else "machine.") + it[0]
                ct = (" " + " ".join(tokens(it[1]))) if it[1] is not None else ""
                if it[2] in ("set", "set_machine"):
                    lines.append("hset %d %s i %d%s" % (i, loc, it[3], ct))
                else:
                    lines.append("hadd %d %s %d%s" % (i, loc, it[3], ct))
        else:
            for it in d["items"]:
                lines.append(("hfire %d %s %s" % (i, it[0], " ".join(tokens(it[1])) if it[1] is not None else "")).rstrip())
    return lines


def check_cond(ctx, real, model, group, case, sample=True):
    """one post on the machine of `group`: the oracle (a conditional handler / entry acts iff its condition is true on the
    values at ITS turn) and the comparison with the Lean dispatcher"""
    obs = real.run_case(case)
    kind = case["post"]["kind"]
    rep = {"kind": "cond", "group": repr(group), "case": repr(case)}
    order = obs["order"]
    n_cond = sum(1 for h in order if h["desc"][1]["cond"] is not None)
    ctx.evaluated({"group": repr(group["entries"]), "case": repr(case)}, n_cond >= 1 and len(order) >= 2, sample=sample)
    ctx.count("cond_cases")
    ctx.count("cond_post_" + kind)
    ctx.count("cond_state_" + ("game" if case["pre"][0][1] else "nogame"))
    # ---- oracle: walk the handlers in the order of the implementation's list; the values at a handler's turn are the values
    # the last handler that ran left (its exit snapshot, read from the machine), the kwargs those of the post updated by relays
    kw = dict(case["post"]["kwargs"])
    kw0 = dict(kw)
    state = obs["env0"]
    log = list(obs["log"])
    expect_fired = []
    claims = True
    for pos, h in enumerate(order):
        typ, d = h["desc"]
        merged = dict(kw)
        merged.update(h["hkw"])
        want = cd.verdict(d["cond"], state, merged)
        ctx.count("cond_handler_" + typ)
        if want in ("crash", "unmodelled"):
            ctx.count("cond_verdict_" + want)
            claims = False
            break
        ran = bool(log) and log[0]["hid"] == h["hid"]
        if d["cond"] is not None:
            ctx.count("cond_verdict_true" if want else "cond_verdict_false")
            first = cd.verdict(d["cond"], obs["env0"], dict(kw0, **h["hkw"]))
            if state != obs["env0"] or kw != kw0:
                ctx.count("cond_turn_after_a_change")
            if first != want:
                ctx.count("cond_verdict_differs_from_start_of_post")
                if any(o["desc"][1]["cond"] == d["cond"] for o in order[:pos]):
                    ctx.count("cond_verdict_differs_same_text_earlier")
        if want != ran:
            ctx.fail("stale-handler:%s:%s:%s" % (typ, kind, "ran-on-false" if ran else "skipped-on-true"), rep,
                     {"handler": h["hid"], "condition": None if d["cond"] is None else cd.cond_text(d["cond"]),
                      "values_at_its_turn": repr(state["vals"]), "kwargs_at_its_turn": repr(merged),
                      "condition_there": want, "ran": ran, "values_at_post": repr(obs["env0"]["vals"])})
            return
        if not ran:
            continue
        rec = log.pop(0)
        if rec["out"] is None:            # the handler raised
            claims = False
            break
        if rec["in"] != state:
            ctx.count("cond_entry_values_differ_from_previous_exit")
        if typ == "vp" and d["where"] != "g" and not real.m.modes[d["where"]].active:
            pass
        elif typ == "vp":
            sim = dict(rec["in"]["vals"])
            ok = True
            for it in d["items"]:
                v = cd.verdict(it[1], {"vals": sim, "objs": rec["in"]["objs"]}, rec["kw"])
                if v in ("crash", "unmodelled"):
                    ok = False
                    break
                if it[1] is not None:
                    ctx.count("cond_item_true" if v else "cond_item_false")
                    if v != cd.verdict(it[1], rec["in"], rec["kw"]):
                        ctx.count("cond_item_differs_from_entry")
                if v:
                    cd.apply_item(sim, it)
            if not ok:
                claims = False
                break
            if sim != rec["out"]["vals"]:
                ctx.fail("stale-entry:variable_player:%s" % kind, rep,
                         {"handler": h["hid"], "values_on_entry": repr(rec["in"]["vals"]), "expected_on_exit": repr(sim),
                          "on_exit": repr(rec["out"]["vals"])})
                return
        elif typ == "ep":
            for it in d["items"]:
                v = cd.verdict(it[1], rec["in"], rec["kw"])
                if v in ("crash", "unmodelled"):
                    claims = False
                    break
                if v:
                    expect_fired.append(it[0])
            if not claims:
                break
        state = rec["out"]
        if kind == "relay" and isinstance(rec["res"], dict):
            kw.update(rec["res"])
        if kind == "boolean" and rec["res"] is False:
            ctx.count("cond_boolean_stopped")
            break
    if not claims:
        ctx.count("cond_no_claim")
        return
    if obs["crashed"]:
        ctx.fail("dispatch-crash:%s" % kind, rep, {"exception": obs["crashed"]})
        return
    if log:
        ctx.count("cond_log_leftover")       # a handler ran out of list order: not this property's business (C01)
    if sorted(obs["fired"]) != sorted(expect_fired):
        ctx.fail("stale-entry:event_player:%s" % kind, rep, {"fired": obs["fired"], "expected": expect_fired})
        return
    # ---- the model -------------------------------------------------------------------------------------------------
    if model is None:
        return
    model_set_env(model, dict(obs["env0"], params={}), {})
    for line in cond_model_lines(obs, case):
        if model.ask(line) != "ok":
            raise InfraError("model rejected %s" % line)
    mo = model.ask("order")
    ctx.compare(dict(rep, what="order"), "order" + "".join(" %d" % i for i in range(len(order))), mo)
    ans = model.ask("dispatch %s %s" % (kind, " ".join(cd.CLOCS)))
    if ans == "bad-op":
        raise InfraError("model dispatch")
    if ans.startswith("unmodelled"):
        ctx.count("skipped_unmodelled_model")
        return
    ids = {h["hid"]: i for i, h in enumerate(order)}
    vals = obs["env1"]["vals"]
    impl = "ok | ran%s | fired%s | vals%s | kw%s" % (
        "".join(" %d" % ids[r["hid"]] for r in obs["log"]), "".join(" " + t for t in obs["fired"]),
        "".join(" " + ("ABSENT" if vals[l] is ABSENT else show_val(vals[l])) for l in cd.CLOCS),
        "".join(" %s=%s" % (k, show_val(kw[k])) for k in ("x", "y", "z") if k in kw) if kind == "relay" else
        "".join(" %s=%s" % (k, show_val(kw0[k])) for k in ("x", "y", "z") if k in kw0))
    ctx.compare(dict(rep, what="dispatch"), impl, ans)


def run_cond_stream(ctx, n_groups, per_group):
    model = None if getattr(ctx, "model_unavailable", False) else leanproc.LeanProc(ID)
    try:
        for g in range(n_groups):
            r = ctx.rng("cond-group", g)
            group = cd.gen_group(r)
            try:
                real = cd.CondReal(group)
            except Exception as ex:
                ctx.count("cond_boot_rejected")
                ctx.notes.setdefault("cond_boot_rejected_examples", []).append(repr(ex)[:300]) \
                    if len(ctx.notes.get("cond_boot_rejected_examples", [])) < 3 else None
                continue
            ctx.count("machines_booted")
            try:
                for j in range(per_group):
                    if real.broken:
                        real.close()
                        real = cd.CondReal(group)
                        ctx.count("machines_booted")
                    case = cd.gen_case(ctx.rng("cond-case", g, j), group)
                    before = len(ctx.failures)
                    check_cond(ctx, real, model, group, case)
                    if len(ctx.failures) > before:
                        shrink_cond(ctx, before, group, case)
            finally:
                real.close()
    finally:
        if model is not None:
            model.close()


class _Probe:
    def __init__(self):
        self.failures = []
    def fail(self, s, c, d):
        self.failures.append({"signature": s, "case": c, "detail": d})
    def count(self, *a, **k):
        pass
    def evaluated(self, *a, **k):
        pass
    def compare(self, *a, **k):
        return True


def cond_fails(group, case, sig):
    real = cd.CondReal(group)
    try:
        p = _Probe()
        check_cond(p, real, None, group, case, sample=False)
        return [f for f in p.failures if f["signature"] == sig]
    finally:
        real.close()


def shrink_cond(ctx, idx, group, case):
    """drop config entries, plain handlers, actions and pre-operations one at a time while the same failure remains"""
    sig = ctx.failures[idx]["signature"]
    try:
        best = None
        g, c = group, case
        if not cond_fails(g, c, sig):
            return                  # depends on what earlier cases left on the machine: keep the unshrunk report
        budget = 40
        for what in ("entries", "handlers", "pre"):
            i = 0
            while budget > 0:
                seq = g["entries"] if what == "entries" else c[what]
                if i >= len(seq) or (what == "pre" and i < 3 and False):
                    break
                if what == "entries":
                    g2, c2 = dict(g, entries=seq[:i] + seq[i + 1:]), c
                else:
                    g2, c2 = g, dict(c, **{what: seq[:i] + seq[i + 1:]})
                budget -= 1
                try:
                    res = cond_fails(g2, c2, sig)
                except Exception:
                    res = None
                if res:
                    g, c, best = g2, c2, res
                else:
                    i += 1
        if best:
            del ctx.failures[idx:]
            ctx.failures.append({"signature": sig, "case": util.canon(best[0]["case"]), "detail": util.canon(best[0]["detail"])})
    except InfraError:
        raise
    except Exception:
        pass


E_MA = ("a", ("v", "machine"), "a")
CORPUS = [
    (("c", "Eq", ("x", ("v", "machine"), ("k", "a")), ("k", 1)), "D10"),
    (("c", "Eq", ("x", ("v", "current_player"), ("k", "p")), ("k", 1)), "D10"),
    (("t", (("v", "x"), ("k", ""))), "D27"),
    (("o", "Add", ("t", (("k", 1),)), ("t", (("k", 2), ("k", 3)))), "D27"),
    (("t", (("k", 1), ("v", "y"), E_MA)), "D27"),
    (("u", "USub", ("k", None)), "D28"),
    (("u", "USub", ("k", "a")), "D28"),
    (("?", ("a", ("v", "machine"), "b"), ("o", "Add", E_MA, ("k", "x")), ("k", 5)), "ite-error-branch"),
    (("l", "And", ("k", False), ("o", "Add", ("k", 1), ("k", "x"))), "all-operands"),
    (("l", "Or", E_MA, ("a", ("v", "settings"), "s1")), "or"),
    (("c", "Lt", ("a", ("a", ("a", ("v", "device"), "counters"), "c1"), "value"), ("k", 2)), "device"),
    (("o", "FloorDiv", ("k", 7), ("k", -2)), "floordiv"),
    (("o", "Mod", ("k", -7), ("k", 2)), "mod"),
    (("o", "Mod", ("k", 1.5), ("k", -0.5)), "mod"),
    (("o", "FloorDiv", ("k", 1), ("k", 0)), "zerodiv"),
    (("c", "Eq", ("k", 1), ("k", True)), "eq"),
    (("c", "Eq", ("k", 1.0 * 2), ("k", 2)), "eq"),
    (("c", "Lt", ("k", "a"), ("k", 1)), "lt-type"),
    (("o", "Mult", ("k", "ab"), ("k", 3)), "str-repeat"),
    (("o", "BitXor", ("k", True), ("k", True)), "xor-bool"),
    # session 3: roots, slices, str %, powers
    (("c", "Gt", ("a", ("v", "current_player"), "score"), ("k", 5)), "current-player"),
    (("a", ("x", ("v", "players"), ("k", 1)), "score"), "players"),
    (("x", ("x", ("v", "players"), ("k", -1)), ("k", "p")), "players"),
    (("a", ("a", ("v", "mode"), "m1"), "active"), "mode"),
    (("a", ("a", ("v", "mode"), "nosuch"), "active"), "mode-missing"),
    (("a", ("v", "game"), "num_players"), "game"),
    (("a", ("a", ("v", "game"), "player"), "ball"), "game-player"),
    (("a", ("a", ("v", "machine"), "time"), "second"), "time"),
    (("a", ("a", ("v", "machine"), "time"), "minute"), "time"),
    (("a", ("a", ("a", ("v", "device"), "timers"), "t1"), "ticks"), "timer"),
    (("a", ("a", ("a", ("v", "device"), "shots"), "sh1"), "state_name"), "shot"),
    (("a", ("a", ("a", ("v", "device"), "counters"), "c1"), "nosuch"), "device-missing-attr"),
    (("sl", ("k", "abcde"), ("k", 1), ("k", -1), None), "slice"),
    (("sl", ("k", "abcde"), None, None, ("k", -2)), "slice"),
    (("sl", ("k", "abcde"), None, None, ("k", 0)), "slice-step0"),
    (("sl", ("k", 5), ("k", 0), ("k", 1), None), "slice-typeerror"),
    (("sl", ("t", (E_MA, ("k", 2))), ("o", "Add", ("a", ("v", "machine"), "b"), ("k", "s")), None, None), "slice-failing-bound"),
    (("sl", ("t", (("o", "FloorDiv", ("k", 1), E_MA), ("k", 2))), None, ("o", "Add", ("a", ("v", "machine"), "b"), ("k", "s")), None),
     "slice-failing-bound"),
    (("x", ("k", 1), ("k", 0)), "index-typeerror"),
    (("x", ("k", "abc"), ("k", "x")), "index-typeerror"),
    (("x", ("k", "abc"), ("k", 5)), "index-range"),
    (("x", ("v", "settings"), ("k", "s1")), "index-typeerror"),
    (("o", "Mod", ("k", "%s-%s"), ("t", (E_MA, ("k", 2)))), "str-mod"),
    (("o", "Mod", ("k", "%d"), ("k", "a")), "str-mod"),
    (("o", "Mod", ("k", "%z"), ("k", 1)), "str-mod-valueerror"),
    (("c", "In", ("k", 1), ("t", (("k", 1), ("k", 2)))), "in"),
    (("c", "NotIn", ("o", "Add", ("k", 1), ("k", "a")), ("t", (("k", 1),))), "in"),
    (("o", "Pow", ("k", 2), ("k", -1)), "pow"),
    (("o", "Pow", ("k", 0), ("k", -1)), "pow"),
    (("o", "Pow", ("k", 7), ("k", 100)), "pow"),
    (("o", "Pow", ("k", -2.25), ("k", 3)), "pow"),
    (("a", ("k", "abc"), "p"), "attr-of-value"),
    (("a", ("k", 0), "p"), "attr-of-falsy"),
]
TEXT_CORPUS = [
    [("lit", "a="), ("fld", E_MA, "")],
    [("fld", E_MA, "d"), ("lit", "-"), ("fld", ("a", ("v", "current_player"), "score"), "03d")],
    [("fld", ("v", "q"), "d")],
    [("fld", ("a", ("a", ("v", "machine"), "time"), "second"), "02d"), ("lit", "{{"), ("fld", ("v", "x"), "")],
    [("fld", ("c", "NotEq", ("k", 1), ("k", 2)), "")],
    [("fld", ("a", ("x", ("v", "players"), ("k", 1)), "score"), "d")],
]
REJECTED = [("o", "LShift", ("k", 1), ("k", 2)), ("o", "BitOr", ("k", 1), ("k", 2)), ("u", "UAdd", ("k", 1)),
            ("u", "Invert", ("k", 1)), ("chain", ("k", 1), ("k", 2), ("k", 3))]
REJECTED_TEXT = ["[1, 2]", "{1: 2}", "f(1)", "(lambda: 1)", "machine.time.foo", "settings.nosuch", "device.nosuch.c1.value",
                 "device.counters.nosuch.value", "x if y", "1 +"]


def fresh_real(ctx, real):
    if real is not None:
        real.close()
    ctx.count("machines_booted")
    return Real()


def run_stream(ctx, cases_of):
    """cases_of: iterable of (rng, case-without-change, pre-ops or None); machines are renewed every MACHINE_LEN cases"""
    model = None if getattr(ctx, "model_unavailable", False) else leanproc.LeanProc(ID)
    real = None
    try:
        n = 0
        for r, case, pre in cases_of:
            if real is None or real.broken or n % MACHINE_LEN == 0:
                real = fresh_real(ctx, real)
            n += 1
            for op in (pre if pre is not None else pre_ops(r)):
                real.apply(op)
            if "change" not in case:
                if case["kind"] == "expr":
                    rd = cpython(render(case["expr"], "strict"), dict(real.snapshot(), params=case["params"]), True)[1]
                else:
                    rd = text_oracle(case["pieces"], dict(real.snapshot(), params=case["params"]), True)[1]
                case["change"] = gen_op(r, rd)
                for _ in range(6):      # 1 -> True -> 1.0 is not a change (no event is due): draw again
                    if not same_value_set(real, case["change"]):
                        break
                    case["change"] = gen_op(r, rd)
                else:
                    case["change"] = ("advance", 1)
            before = len(ctx.failures)
            hist = list(real.history)
            check_case(ctx, real, model, case)
            if len(ctx.failures) > before and len(hist) > 1 and not ctx.failures[before]["signature"].startswith("unsupported"):
                shrink_last(ctx, before, hist, case)
    finally:
        if real is not None:
            real.close()
        if model is not None:
            model.close()


def shrink_last(ctx, idx, hist, case):
    """ddmin over the op history of the first new failure (re-running the real code on fresh machines)"""
    sig = ctx.failures[idx]["signature"]

    class Probe:
        def __init__(self):
            self.failures, self.hist = [], {}
        def fail(self, s, c, d):
            self.failures.append({"signature": s, "case": c, "detail": d})
        def count(self, *a, **k):
            pass
        def evaluated(self, *a, **k):
            pass
        def compare(self, *a, **k):
            return True

    def run_on(ops):
        real = Real()
        try:
            for op in ops:
                real.apply(tuple(op))
            p = Probe()
            check_case(p, real, None, dict(case), sample=False)
            return [f for f in p.failures if f["signature"] == sig]
        finally:
            real.close()
    try:
        small = ddmin(hist, lambda ops: bool(run_on(ops)), max_tests=40)
        res = run_on(small)
        if res:
            del ctx.failures[idx:]
            from harness.common import util as _u
            ctx.failures.append({"signature": sig, "case": _u.canon(res[0]["case"]), "detail": _u.canon(res[0]["detail"])})
    except InfraError:
        raise
    except Exception:
        pass


def run(ctx):
    def corpus():
        for e, tag in CORPUS:
            for j in range(3):
                r = ctx.rng("corpus", tag, j, repr(e))
                yield r, {"kind": "expr", "expr": e, "params": gen_params(r)}, None
        for i, pieces in enumerate(TEXT_CORPUS):
            for j in range(3):
                r = ctx.rng("text-corpus", i, j)
                yield r, {"kind": "text", "pieces": pieces, "params": gen_params(r)}, None
    run_stream(ctx, corpus())

    real = Real()
    try:            # malformed stream: outside the supported grammar -> rejected, never a value (in and out of a game)
        for phase in (0, 1):
            for item in REJECTED + REJECTED_TEXT:
                text = item if isinstance(item, str) else render(item, "mpf")
                ctx.evaluated({"text": text, "rejected": True, "game": phase}, True, sample=False)
                ctx.count("rejected_stream")
                for got in (real.evaluate("expr", text, {"x": 1, "y": 0}), real.subscribe("expr", text, {"x": 1, "y": 0})[0]):
                    if got != "crash":
                        ctx.fail("unsupported-not-rejected:%s" % (item if isinstance(item, str) else item[0]), {"text": text},
                                 {"implementation": got})
            real.apply(("game_start",))
    finally:
        real.close()

    def stream():
        for i in range(int(os.environ.get("C16_FIRST_CASE", "0")), ctx.n(3000, 24000)):      # (first case: debugging aid, multiple of 10)
            r = ctx.rng("expr", i)
            if r.random() < 0.12:
                yield r, {"kind": "text", "pieces": gen_text(r), "params": gen_params(r)}, None
            else:
                e = tame(gen_expr(r, r.choice([2, 3, 4, 5, 6, 8, 10, 12])))
                yield r, {"kind": "expr", "expr": e, "params": gen_params(r)}, None
    run_stream(ctx, stream())
    run_cond_stream(ctx, ctx.n(200, 1500), 8)
    ctx.notes["observations_not_claimed"] = [
        "a condition-driven config-player entry over mode.* / game.* (`\"{mode.m1.active}\": ...`) fails the boot: ModePlaceholder "
        "has no subscribe() ('subscribe is not a valid mode name'), game is a plain object ('Missing variable game' outside a "
        "game); in `event{condition}` handlers (evaluate only) both work.  mode / game are not in the property's list",
        "an event_player target `name{condition}` whose condition contains a parenthesis is taken for a dynamic event name: the "
        "condition is dropped silently and nothing sensible is posted",
        "a player variable set to a tuple / list / dict posts no player_<name> event (documented): a subscribed template reading it "
        "is not re-evaluated (counter observed_outside_property_complex_player_var_not_notified)"]


def replay(ctx, rep):
    case = rep["case"]
    if case.get("kind") == "cond":
        glb = {"ABSENT": ABSENT}
        group, c = eval(case["group"], glb), eval(case["case"], glb)
        real = cd.CondReal(group)
        try:
            check_cond(ctx, real, None, group, c, sample=False)
        finally:
            real.close()
        return
    if "expr" not in case:
        real = Real()
        try:
            for _ in (0, 1):
                if real.evaluate("expr", case["text"], {"x": 1, "y": 0}) != "crash":
                    ctx.fail("unsupported-not-rejected", case, {"implementation": "value"})
                real.apply(("game_start",))
        finally:
            real.close()
        return
    glb = {"ABSENT": ABSENT}
    tree = eval(case["expr"], glb)
    c = {"kind": case["kind"], "params": eval(case["params"], glb), "change": tuple(eval(case["change"], glb))}
    c["pieces" if case["kind"] == "text" else "expr"] = tree
    real = Real()
    try:
        for op in eval(case["history"], glb):
            real.apply(tuple(op))
        check_case(ctx, real, None, c, sample=False)
    finally:
        real.close()
