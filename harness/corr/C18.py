"""C18 - logic blocks count, accrue and sequence exactly as specified.

Implementation side: real Counter / Accrual / Sequence devices on a real machine (machine-wide, owned by a non-game
mode that is started and stopped, or - persist_state - owned by a game mode in a real 1-3 player game), driven by their
configured events (immediate and {event: delay} forms) on the 1/8 s grid; starting_count / count_complete_value may be
templates reading a machine / player variable that the case changes while it runs.
Model side: MpfVerif.Model.LogicBlock (`xstep`) through the compiled driver, one op per line.  Which of several delays
due at the same instant runs first is NOT guessed: the harness logs the order the real loop chose (wrapping
DelayManager._process_delay_callback in this process) and replays it to the model and the reference as explicit
fireW / fireT / fireD ops; both refuse a callback that is not due and refuse to move the clock past one that is.
Oracle (model independent): RefBlock below - the property statement as an executable reference (accepted hit = enabled
and outside the hit window; one hit event per accepted hit; completion once, at the step reaching the goal, then
reset / disable as configured; window, timeout and delayed control calls as absolute deadlines; templates read at
reset / mode start and at every hit; one stored state per player) - plus the value ledger recomputed from the events
the real device posted.
Extension 2: persist_state together with hit window / timeout / delayed control events, extra balls, game end + second game,
template-valued add / subtract / jump (event kwarg, machine variable; float, None, missing), events_when_hit / _complete
overrides, state machine devices (harness/common/sm_c18.py, comparison only), and the translator tie
(translate/logic_blocks_eff.py -> Gen/LogicBlockOps.lean, proved equal to the hand model in Lemmas/LogicBlockGen.lean).
"""
import itertools
import random

from harness.common import leanproc, sm_c18
from harness.common.shrink import ddmin
from harness.common.util import InfraError

ID = "C18"
LEAN_MODULES = ["MpfVerif.Props.C18"]
PROPS_FILE = "MpfVerif/Props/C18.lean"
def _gen_logic_block_ops():
    from translate import logic_blocks_eff
    return logic_blocks_eff.generate()


GEN = [_gen_logic_block_ops]
MANIFEST = {
  "text": "Proof on a Lean model of Counter / Accrual / Sequence in its environment (block: enabled, completed, value, hit-window deadline, timeout deadline; environment: current values of the starting_count / count_complete_value templates, pending delayed control calls, one stored state per player for persist_state, game end; full configuration: direction, interval of either sign, start and completion value, reset/disable on complete, hit window, timeout; ops count, step hit, advance_random with its random choice, enable, disable, reset, restart, add, subtract, jump with the value their template evaluated to (or ignored when it gave None), clock tick, each due delay callback as its own op (window end, timeout, delayed control call), delayed control event posted, template variable changed, mode stop / start for player p, game over + new game), for ALL configurations and ALL op sequences - hence all orders of same-instant callbacks - by induction: the counter value equals the ledger start-as-read-at-the-last-reset + interval*direction*(accepted hits since) (+ explicit add/subtract/jump; after a persist_state restore: the restored value), a hit is accepted and posts exactly one hit event iff the block is enabled and outside its window - whether it arrives directly or as a delayed call -, the completion event is posted exactly once per completion and exactly at the step that reaches the goal as the template evaluates then, after it the block is reset and/or disabled as configured, an accrual completes on any order of its steps (advance_random = a hit on an open step) and a sequence only on the strict order, a hit window always reopens at its deadline and the clock cannot pass a due delay, a delayed control call runs only at its due instant, at most once, and not at all after its mode stopped, persist_state gives the player exactly the state stored when his mode last stopped (next ball, extra ball) while no op of a game touches another player's stored state, and a new game starts every player with a fresh block. Tie to the source, two ways: (1) TRANSLATOR: thirteen methods of mpf/devices/logic_blocks.py (Counter.count, check_complete, get_start_value, stop_ignoring_hits; LogicBlock.enable, disable, reset, restart, complete, _logic_block_timeout, _logic_block_timer_start, post_update_event, _post_hit_events) are regenerated on every run as programs for a stateful interpreter (Model/PyStore.lean: attribute and player-state store, configuration and evaluated templates as data, delays and event posts as a log of effects) and proved to compute exactly the state and the event list of the hand model's step for count / enable / disable / reset / restart / complete / check_complete / timeout callback / window callback in EVERY state of a counter (counter_methods_refine_source, reachable_count_refines_source); (2) CORRESPONDENCE on real devices (machine-wide, inside a non-game mode, inside a game mode of a real multi-player game with hit window, timeout and delayed control events, ball drains, extra balls, game end and a second game; events_when_hit / events_when_complete overrides incl. the same event twice; add / subtract / jump values from event kwargs or a machine variable incl. float and None; start / goal variables set to float and None) on the 1/8 s grid, comparing value/enabled/completed, every player's stored state and every posted hit / complete / updated / timeout event with its arguments after every op. State machine devices (mpf/devices/state_machine.py: states, transitions with several sources / events, events_when_started / stopped / transitioning, two transitions on one event, persist_state per player, new game) have their own small model (Model/StateMachine.lean) compared with the real device after every op; the property's text does not name them, so they are never reported through the oracle.",
  "note": "Trusted: Lean kernel + {propext, Classical.choice, Quot.sound}; translate/logic_blocks_eff.py + Model/PyStore.lean (Python ast -> data for a fixed interpreter) with the hand-written meaning of logged actions in Model/LogicBlockGen.lean (`applyEff`, following mpf/core/delays.py; an action without a meaning raises a flag the theorem proves is never raised); hypotheses of the tie: the block is a counter (reset's start value is Counter.get_start_value; accrual / sequence methods hit / advance_random are tied by correspondence only), hit_value = +-count_interval as Counter._initialize computes it (checked on the real device of every case), events_when_hit / events_when_complete non-empty (the validator's defaults), ModeDevice.enable empty (checked by the translator). The rest of Model/LogicBlock.lean (accrual, sequence, adjust, clock / delay deadlines, mode and game environment) is validated by the differential run only. DelayManager/clock (C13), event dispatch order (C01), the mode lifecycle (C07), the game/player rotation (C06/C11) and template evaluation (C16: the harness computes what a template_int gives - None -> 0 resp. ignored, float -> int()) are used, not verified here. Same-instant callback order and the random choice of advance_random are taken from the implementation and validated. Observed, outside the property's text (counted, not failed on): a restored persisted block that is enabled does not re-arm its logic_block_timeout (model follows the code; witness theorem); the `hits` argument of the hit event is computed against the start template as it evaluates NOW and goes negative after the variable changed; a state machine with two transitions on one event out of one state runs both handlers, the second from a state that is not one of its sources (MPF's dispatcher runs a copy of the handler list). Hits are not guarded by `completed` in the code (a completed, still enabled counter keeps counting): the statement follows the code and the property text.",
  "technique": "Lean 4 theorems (case analysis per step + induction over the op list, trace ledger, scheduler as input) on a hand model; thirteen methods machine-translated from the source on every run and proved equal to the hand model (deep embedding with store + effect log); differential correspondence with real devices (incl. state machines) and an independent Python reference oracle",
  "translated": True,
}
RULE = ("a case = one block configuration (kind, start, interval, direction, goal, reset/disable on complete, window, "
        "timeout in 1/8 s ticks, steps with shared and duplicated step events, delays of the {event: delay} control "
        "events, template-valued start / goal / control values, events_when_hit / events_when_complete overrides, "
        "machine-wide / mode-owned / game-mode-owned with persist_state and 1-3 players) + 6-28 ops (count / step hit / "
        "shared event / advance_random / enable / disable / reset / restart / add / subtract / jump - constant, kwarg- or "
        "variable-valued incl. float, None, missing - / the delayed variant of a control event / template variable set "
        "(incl. float, None) / advance n ticks / mode stop / mode start / ball drain to the next player / drain with an "
        "extra ball / game end + new game) biased to the window edge, the timeout instant, delayed calls landing on both, "
        "goals 1-4 hits away and counting down through zero; non-trivial = at least one hit was rejected (disabled or "
        "inside the window), a completion happened, a timeout fired, a delayed call ran or was dropped, or a stored state "
        "was restored; distinct = canonical JSON of (config, ops); plus an oracle-only stream probing both deadlines 1 ms "
        "early and 1 ms late; plus state-machine cases (2-4 states, 1-6 transitions incl. two on one event and chains, "
        "6-22 ops: event / mode stop / start / drain / extra ball / new game; non-trivial = a transition or a restore)")
TRUSTED = [
    "Model/LogicBlock.lean is hand-written; its counter methods are proved equal to the translated source "
    "(Gen/LogicBlockOps.lean, regenerated on every run), the rest is tied to mpf/devices/logic_blocks.py by correspondence",
    "translate/logic_blocks_eff.py, Model/PyStore.lean (interpreter) and applyEff of Model/LogicBlockGen.lean (meaning of "
    "delay / event / store actions)",
    "modelled, not verified: DelayManager + clock (deadline = now + ms/1000 on the dyadic grid), event queue order, "
    "mode start/stop (handlers removed, device_removed_from_mode called, mode delays cleared), game/player rotation, "
    "template evaluation of `machine.x` / `current_player.x` / event kwargs / constants (None -> default, float -> int())",
    "the order of callbacks due at the same instant and random.shuffle are inputs taken from the implementation",
    "Model/StateMachine.lean is hand-written; tied to mpf/devices/state_machine.py by correspondence only",
]
ASSUMPTIONS = ["template variables hold ints, floats or None (strings crash int(): not generated); times on the 1/8 s grid",
               "game cases: the fake-ball scaffolding of MpfFakeGameTestCase (drain = ball_drain relay event), one tick "
               "passes after every ball start",
               "machine-wide blocks with a timeout are configured with enable_events (boot is not on the grid)",
               "state machines without show_when_active"]

TICK = 0.125
NAME = "blk"
ACTS = ("count", "enable", "disable", "reset", "restart", "advr")
VAR_START, VAR_GOAL, VAR_CTL = "c18_st", "c18_goal", "c18_ctl"


def acts_of(cfg):
    """the control events of this block that exist (immediate form `blk_<act>`, delayed form `blk_<act>_d`)"""
    out = ["disable", "reset", "restart"]
    if cfg["where"] != "machine" or not cfg["start_enabled"]:
        out.append("enable")
    if cfg["kind"] == "counter":
        out.append("count")
    if cfg["kind"] == "accrual":
        out.append("advr")
    return out


# ---------------------------------------------------------------------------------------------------------------------
# independent reference (the property statement, executable)
# ---------------------------------------------------------------------------------------------------------------------
class RefBlock:
    """Deadline-based reference.  Time only moves in `advance`, instant by instant; at every instant the callbacks
    that are due run in the order the implementation reported (`sched`), each only if it is really due; what is due and
    was not reported is run afterwards and flagged."""

    def __init__(self, cfg):
        self.c = cfg
        k = cfg["kind"]
        self.n = cfg["steps"]
        iv = cfg["interval"]
        self.delta = -abs(iv) if cfg["down"] else abs(iv)
        self.start = cfg["start"]            # what the starting_count template evaluates to now
        self.goal = cfg["goal"]              # what the count_complete_value template evaluates to now
        self.now = 0
        self.loaded = True
        self.enabled = cfg["start_enabled"]
        self.completed = False
        self.value = self.fresh()
        self.window_end = None
        self.timeout_at = None
        self.pending = []                    # delayed control calls [due, act]
        self.cur = 0
        self.store = {}                      # player -> (enabled, completed, value)
        self.flags = []
        self.ev = []
        self.kind = k

    def fresh(self):
        k = self.c["kind"]
        return self.start if k == "counter" else ([False] * self.c["steps"] if k == "accrual" else 0)

    def shown(self, v=None):
        v = self.value if v is None else v
        return "".join("1" if b else "0" for b in v) if self.kind == "accrual" else str(v)

    def post_updated(self):
        self.ev.append("U:%s:%d" % (self.shown(), 1 if self.enabled else 0))

    def arm(self):
        if self.c["timeout"]:
            self.timeout_at = self.now + self.c["timeout"]

    def do_reset(self):
        self.completed = False
        self.value = self.fresh()
        self.post_updated()
        self.arm()

    def do_enable(self):
        self.enabled = True
        self.post_updated()
        self.arm()

    def do_disable(self):
        self.enabled = False
        self.post_updated()
        self.timeout_at = None

    def reached(self):
        g = self.goal
        if self.kind == "counter":
            if g is None:
                return False
            return self.value <= g if self.c["down"] else self.value >= g
        if self.kind == "accrual":
            return all(self.value)
        return self.value >= self.n

    def maybe_complete(self):
        if not self.reached() or self.completed:
            return
        self.completed = True
        self.timeout_at = None
        self.ev.append("C")
        if self.c["reset_on_complete"]:
            self.do_reset()
        if self.c["disable_on_complete"]:
            self.do_disable()

    def do_count(self):
        accepted = self.enabled and self.window_end is None
        if accepted:
            self.value += self.delta
            self.post_updated()
            g = self.goal
            if g is None:
                self.ev.append("H:%d" % self.value)
            else:
                done = (self.start - self.value) if self.c["down"] else (self.value - self.start)
                left = (self.value - g) if self.c["down"] else (g - self.value)
                self.ev.append("H:%d:%d:%d" % (self.value, done, left))
            self.maybe_complete()
            if self.c["window"]:
                self.window_end = self.now + self.c["window"]
        return accepted

    def do_hit(self, k):
        if not self.enabled:
            return
        if self.kind == "accrual":
            if not self.value[k]:
                self.value = self.value[:k] + [True] + self.value[k + 1:]
                self.post_updated()
                self.ev.append("S:%d" % k)
            self.maybe_complete()
        elif k == self.value:
            self.value += 1
            self.post_updated()
            self.ev.append("S:%d" % self.value)
            self.maybe_complete()

    def do_advr(self, choice):
        """advance_random: exactly one open step is hit - which one is the implementation's choice, validated here"""
        open_steps = [i for i, b in enumerate(self.value) if not b] if self.enabled else []
        if choice is None:
            if open_steps:
                self.flags.append("advr-did-nothing")
            return
        if choice not in open_steps:
            self.flags.append("advr-bad-choice")
            return
        self.do_hit(choice)

    def act(self, a, choice=None):
        if a == "count":
            self.do_count()
        elif a == "enable":
            self.do_enable()
        elif a == "disable":
            self.do_disable()
        elif a == "reset":
            self.do_reset()
        elif a == "restart":
            self.do_reset()
            self.do_enable()
        elif a == "advr":
            self.do_advr(choice)
        else:
            raise InfraError("unknown act %r" % (a,))

    def snapshot(self):
        return (self.enabled, self.completed, self.value)

    def do_unload(self):
        if self.c.get("persist"):
            self.store[self.cur] = self.snapshot()
        self.loaded = False
        self.window_end = self.timeout_at = None
        self.pending = []            # the delayed calls of a mode-owned block live in the mode's delay manager

    def do_load(self, p):
        self.loaded = True
        self.cur = p
        self.window_end = self.timeout_at = None
        if self.c.get("persist") and p in self.store:
            self.enabled, self.completed, self.value = self.store[p]
            self.post_updated()
            return
        self.enabled = False
        self.completed = False
        self.value = self.fresh()
        if self.c["start_enabled"]:
            self.do_enable()
        self.post_updated()

    def op(self, op, sched=None, choice=None):
        self.ev = []
        self.flags = []
        name = op[0]
        if name == "adv":
            self.advance(op[1], sched or [])
        elif name == "setstart":
            self.start = op[1]
        elif name == "setgoal":
            self.goal = op[1]
        elif name == "ctlnone":
            pass                                  # add / subtract / jump whose value template gave None: ignored
        elif name == "newgame":                   # the game ended: every player's stored state is gone with the players
            if self.loaded:
                self.do_unload()
            self.store, self.cur = {}, 0
        elif not self.loaded:
            if name == "load":
                self.do_load(self.cur)
            elif name == "startmode":
                self.do_load(op[1])
        elif name in ("count", "enable", "disable", "reset", "restart"):
            self.act(name)
        elif name == "advr":
            self.act("advr", choice)
        elif name == "dpost":
            self.pending.append([self.now + self.c["delays"][op[1]], op[1]])
        elif name == "hit":
            self.do_hit(op[1])
        elif name in ("add", "sub", "set"):
            self.value = op[1] if name == "set" else (self.value + op[1] if name == "add" else self.value - op[1])
            self.post_updated()
            self.maybe_complete()
        elif name in ("unload", "stopmode"):
            self.do_unload()
        elif name in ("load", "startmode"):
            pass
        else:
            raise InfraError("unknown op %r" % (op,))
        return self.line()

    def due(self, t):
        d = []
        if self.window_end == t:
            d.append("W")
        if self.timeout_at == t:
            d.append("T")
        return d + ["D:" + a for due, a in self.pending if due == t]

    def fire(self, kind, choice=None):
        if kind == "W":
            self.window_end = None
        elif kind == "T":
            self.timeout_at = None
            self.ev.append("T")
            self.do_reset()
        else:
            a = kind[2:]
            i = [j for j, (due, b) in enumerate(self.pending) if due == self.now and b == a][0]
            del self.pending[i]
            self.act(a, choice)

    def advance(self, n, sched):
        """sched = [(offset 1..n, kind, choice)] in the order the implementation ran its delay callbacks"""
        for j in range(1, n + 1):
            self.now += 1
            for off, kind, choice in sched:
                if off != j:
                    continue
                if kind in self.due(self.now):
                    self.fire(kind, choice)
                else:
                    self.flags.append("ran-not-due:" + kind)
            for kind in self.due(self.now):
                self.flags.append("due-not-run:" + kind)
                self.fire(kind, None)
        for off, kind, _ in sched:
            if not 1 <= off <= n:
                self.flags.append("ran-off-grid:" + kind)

    def stored(self):
        if not self.c.get("persist"):
            return ""
        out = []
        for p in range(4):
            st = self.snapshot() if (self.loaded and p == self.cur) else self.store.get(p)
            out.append("-" if st is None else "%s,%d,%d" % (self.shown(st[2]), 1 if st[0] else 0, 1 if st[1] else 0))
        return " s=" + "/".join(out)

    def line(self):
        fl = "".join(" !" + f for f in self.flags)
        if not self.loaded:
            return "unloaded%s |%s" % (self.stored(), fl)
        return "v=%s e=%d c=%d%s |%s%s" % (self.shown(), 1 if self.enabled else 0, 1 if self.completed else 0,
                                          self.stored(), "".join(" " + e for e in self.ev), fl)


# ---------------------------------------------------------------------------------------------------------------------
# real device
# ---------------------------------------------------------------------------------------------------------------------
def ms(ticks):
    return "%dms" % (ticks * 125)


def step_events(cfg, i):
    evs = ["%s_s%d" % (NAME, i)]
    if i in cfg.get("dups", []):
        evs.append("%s_s%d" % (NAME, i))                    # the same event twice in one step
    for j, grp in enumerate(cfg.get("shared", [])):
        if i in grp:
            evs.append("%s_sh%d" % (NAME, j))
    return evs


def block_yaml(cfg):
    k = cfg["kind"]
    L = ["%s:" % {"counter": "counters", "accrual": "accruals", "sequence": "sequences"}[k], "  %s:" % NAME]
    acts = acts_of(cfg)
    delays = cfg.get("delays", {})
    for act in acts:
        key = {"count": "count_events", "advr": "advance_random_events"}.get(act, act + "_events")
        L.append("    %s:" % key)
        L.append("      %s_%s: 0" % (NAME, act))
        if act in delays:
            L.append("      %s_%s_d: %s" % (NAME, act, ms(delays[act])))
    if cfg["where"] != "machine":
        L.append("    start_enabled: %s" % ("true" if cfg["start_enabled"] else "false"))
    L += ["    reset_on_complete: %s" % ("true" if cfg["reset_on_complete"] else "false"),
          "    disable_on_complete: %s" % ("true" if cfg["disable_on_complete"] else "false")]
    if cfg.get("persist"):
        L.append("    persist_state: true")
    if cfg["timeout"]:
        L.append("    logic_block_timeout: %s" % ms(cfg["timeout"]))
    if cfg.get("ev_hit"):
        L.append("    events_when_hit: %s" % ", ".join(cfg["ev_hit"]))
    if cfg.get("ev_done"):
        L.append("    events_when_complete: %s" % ", ".join(cfg["ev_done"]))
    if k == "counter":
        pv = "current_player" if cfg["where"] == "game" else "machine"
        L += ["    starting_count: %s" % ("%s.%s" % (pv, VAR_START) if cfg.get("ph_start") else "%d" % cfg["start"]),
              "    count_interval: %d" % cfg["interval"], "    direction: %s" % ("down" if cfg["down"] else "up")]
        if cfg.get("ph_goal"):
            L.append("    count_complete_value: machine.%s" % VAR_GOAL)
        elif cfg["goal"] is not None:
            L.append("    count_complete_value: %d" % cfg["goal"])
        if cfg["window"]:
            L.append("    multiple_hit_window: %s" % ms(cfg["window"]))
        ctl = cfg.get("controls", [])
        if ctl:
            L.append("    control_events:")
            for act, v in ctl:
                L += ["      - action: %s" % {"add": "add", "sub": "subtract", "set": "jump"}[act],
                      "        event: %s" % ctl_event(act, v), "        value: %s" % ctl_value(v)]
    else:
        L.append("    events:")
        for i in range(cfg["steps"]):
            L.append("      - %s" % ", ".join(step_events(cfg, i)))
    return "\n".join(L) + "\n"


def vars_yaml(cfg):
    """initial values of the template variables (read when the block is created)"""
    L = []
    mv = []
    if cfg.get("ph_start") and cfg["where"] != "game":
        mv.append((VAR_START, cfg["start"]))
    if cfg.get("ph_goal"):
        mv.append((VAR_GOAL, cfg["goal"]))
    if any(v == "mv" for _, v in cfg.get("controls", [])):
        mv.append((VAR_CTL, 1))
    if mv:
        L.append("machine_vars:")
        for k, v in mv:
            L += ["  %s:" % k, "    initial_value: %d" % v, "    value_type: int", "    persist: false"]
    if cfg.get("ph_start") and cfg["where"] == "game":
        L += ["player_vars:", "  %s:" % VAR_START, "    initial_value: %d" % cfg["start"], "    value_type: int"]
    return "\n".join(L) + "\n" if L else ""


def ctl_event(act, v):
    if isinstance(v, str):                                  # "kw": value template reads the event's kwarg `amount`;
        return "%s_%s_%s" % (NAME, act, v)                  # "mv": reads the machine variable c18_ctl
    return "%s_%s_%s" % (NAME, act, ("m%d" % -v) if v < 0 else str(v))


def ctl_value(v):
    return {"kw": "amount", "mv": "machine.%s" % VAR_CTL}.get(v) if isinstance(v, str) else "%d" % v


def py_int(raw, default=0):
    """what a template_int evaluates to (`BaseTemplate.evaluate`): None / missing -> the default, else int() (truncation)"""
    return default if raw is None or raw == "missing" else int(raw)


def hit_events_of(cfg):
    """the configured hit events (the default of a counter is the deprecated counter_<name>_hit plus logicblock_<name>_hit)"""
    if cfg.get("ev_hit"):
        return list(cfg["ev_hit"])
    return (["counter_%s_hit" % NAME] if cfg["kind"] == "counter" else []) + ["logicblock_%s_hit" % NAME]


def done_events_of(cfg):
    return list(cfg["ev_done"]) if cfg.get("ev_done") else ["logicblock_%s_complete" % NAME]


class _Hooks:
    """process-wide observation hooks (installed once): which delay callbacks of the block under test ran, in order,
    and what random.shuffle produced inside event_advance_random"""
    installed = False
    dev = None
    vm = None
    fired = []
    shuffles = []
    rnd = None

    @classmethod
    def install(cls):
        if cls.installed:
            return
        from mpf.core.delays import DelayManager
        import mpf.devices.logic_blocks as lb
        orig = DelayManager._process_delay_callback

        def wrapped(self, name, callback, **kwargs):
            mine = cls.dev is not None and getattr(callback, "__self__", None) is cls.dev
            if not mine:
                return orig(self, name, callback, **kwargs)
            n0 = len(cls.shuffles)
            entry = [cls.vm.now(), getattr(callback, "__name__", "?"), None]
            cls.fired.append(entry)
            try:
                return orig(self, name, callback, **kwargs)
            finally:
                if entry[1] == "event_advance_random":
                    entry[2] = cls.choice_of(cls.shuffles[n0:])
        DelayManager._process_delay_callback = wrapped

        def shuffle(x):
            (cls.rnd or random.Random(0)).shuffle(x)
            cls.shuffles.append(list(x))
        lb.shuffle = shuffle
        cls.installed = True

    @staticmethod
    def choice_of(shuffles):
        """the step event_advance_random picked: the first open one in shuffled order (None: not called / none open)"""
        if not shuffles:
            return None
        for step, state in shuffles[-1]:
            if not state:
                return step
        return None


KIND_OF_CALLBACK = {"stop_ignoring_hits": "W", "_logic_block_timeout": "T", "event_count": "D:count",
                    "event_enable": "D:enable", "event_disable": "D:disable", "event_reset": "D:reset",
                    "event_restart": "D:restart", "event_advance_random": "D:advr"}


class RealBlock:
    def __init__(self, cfg):
        from harness.common.vmachine import VMachine, BootError
        self.cfg = cfg
        body = block_yaml(cfg)
        where = cfg["where"]

        def build():
            if where == "mode":
                mode = "mode:\n  start_events: m1_start\n  stop_events: m1_stop\n  game_mode: false\n" + body
                return VMachine("modes:\n  - m1\n" + vars_yaml(cfg), modes={"m1": mode})
            if where == "game":
                main = ("modes:\n  - m1\ngame:\n  balls_per_game: 60\n  max_players: 4\nswitches:\n  s_start:\n"
                        "    number: 1\n    tags: start\n") + vars_yaml(cfg)
                mode = "mode:\n  start_events: ball_started, m1_start\n  stop_events: m1_stop\n  priority: 200\n" + body
                return VMachine(main, modes={"m1": mode}, game=True)
            return VMachine(body + vars_yaml(cfg))
        self.vm = build()
        for attempt in range(3):    # the test scaffolding has a wall-clock boot limit; a loaded host can trip it
            try:
                self.vm.start()
                break
            except BootError as e:
                if "Start took more than" not in str(e) or attempt == 2:
                    raise InfraError("boot failed: %s" % e)
                self.vm = build()
        self.vm.align()
        self.log = []
        m = self.vm.machine
        self.dev = {"counter": m.counters, "accrual": m.accruals, "sequence": m.sequences}[cfg["kind"]][NAME]
        _Hooks.install()
        _Hooks.dev, _Hooks.vm = self.dev, self.vm
        _Hooks.fired, _Hooks.shuffles = [], []
        _Hooks.rnd = random.Random(cfg.get("shuffle_seed", 0))
        self.sched = []
        self.choice = None
        self.next_player = None
        self.hit_names, self.done_names = hit_events_of(cfg), done_events_of(cfg)
        for ev, tag in (("logicblock_%s_updated" % NAME, "U"), ("%s_timeout" % NAME, "T")):
            m.events.add_handler(ev, self._make(tag))
        for ev in dict.fromkeys(self.hit_names):
            m.events.add_handler(ev, self._make_named("h", ev))
        for ev in dict.fromkeys(self.done_names):
            m.events.add_handler(ev, self._make_named("c", ev))
        self.init_sched = []
        if where == "game":
            def _add_ball(**kwargs):
                m.playfield.balls += 1
                m.playfield.available_balls += 1
            m.playfield.add_ball = _add_ball
            m.ball_controller.num_balls_known = 3
            self.start_game()
            self.init_sched = self.sched

    def start_game(self):
        """start presses for all players, then one tick (the block exists from the first ball start on: the callbacks
        that ran in that tick are reported in self.sched like those of an `adv 1`)"""
        cfg, m = self.cfg, self.vm.machine
        _Hooks.fired = []
        for _ in range(cfg.get("players", 1)):
            self.vm.hit_switch("s_start", 1)
            self.vm.hit_switch("s_start", 0)
            self.settle()
        for _ in range(40):
            if m.game is not None and m.modes["m1"].active:
                break
            self.vm.run()
        self.settle()
        if m.game is None or not m.modes["m1"].active:
            raise InfraError("game did not start before the first tick")
        self.tick_logged()
        if m.game is None or len(m.game.player_list) != cfg.get("players", 1) or not m.modes["m1"].active:
            raise InfraError("game with %d players did not start" % cfg.get("players", 1))

    def tick_logged(self, n=1):
        t0 = self.vm.now()
        self.vm.advance(n * TICK)
        self.settle()
        self.sched = []
        for t, cb, choice in _Hooks.fired:
            off = (t - t0) / TICK
            self.sched.append((int(off) if off == int(off) else off, KIND_OF_CALLBACK.get(cb, "?" + cb), choice))

    def settle(self):
        for _ in range(8):
            self.vm.run()

    def _make(self, tag):
        def handler(**kwargs):
            self.log.append((tag, kwargs))
        return handler

    def _make_named(self, tag, name):
        def handler(**kwargs):
            self.log.append((tag, kwargs, name))
        return handler

    def collapsed(self):
        """the log with every run of configured hit (completion) events folded into one H (C) per complete round of the
        configured list - each configured event once, in order, all with the same arguments; anything else is X"""
        out, i, log = [], 0, self.log
        while i < len(log):
            tag = log[i][0]
            if tag not in ("h", "c"):
                out.append((tag, log[i][1]))
                i += 1
                continue
            j = i
            while j < len(log) and log[j][0] == tag:
                j += 1
            names = self.hit_names if tag == "h" else self.done_names
            run, n, ok = log[i:j], len(names), True
            if len(run) % n:
                ok = False
            for a in range(0, len(run) - n + 1, n):
                chunk = run[a:a + n]
                if [c[2] for c in chunk] != names or any(c[1] != chunk[0][1] for c in chunk):
                    ok = False
            if ok:
                out += [("H" if tag == "h" else "C", run[a][1]) for a in range(0, len(run), n)]
            else:
                out.append(("X", {"%s=%s" % (tag, "+".join(c[2] for c in run)): 1}))
            i = j
        return out

    def fmt_value(self, v):
        if isinstance(v, list):
            return "".join("1" if b else "0" for b in v)
        return str(v)

    def fmt_event(self, tag, kw):
        if tag == "U":
            return "U:%s:%d" % (self.fmt_value(kw.get("value")), 1 if kw.get("enabled") else 0)
        if tag == "H":
            if "step" in kw:
                return "S:%s" % kw["step"] + "".join(":?%s" % k for k in sorted(kw) if k != "step")
            s = "H:%s" % kw.get("count")
            if "hits" in kw or "remaining" in kw:
                s += ":%s:%s" % (kw.get("hits"), kw.get("remaining"))
            return s + "".join(":?%s" % k for k in sorted(kw) if k not in ("count", "hits", "remaining"))
        return tag + "".join(":?%s" % k for k in sorted(kw))

    def stored(self):
        if not self.cfg.get("persist"):
            return ""
        g = self.vm.machine.game
        out = []
        for p in range(4):
            st = None
            if g is not None and p < len(g.player_list) and g.player_list[p].is_player_var("%s_state" % NAME):
                st = g.player_list[p]["%s_state" % NAME]
            out.append("-" if st is None else "%s,%d,%d" % (self.fmt_value(st.value), 1 if st.enabled else 0,
                                                              1 if st.completed else 0))
        return " s=" + "/".join(out)

    def observe(self):
        d = self.dev
        evs = "".join(" " + self.fmt_event(t, kw) for t, kw in self.collapsed())
        self.log = []
        if d._state is None:
            return "unloaded%s |%s" % (self.stored(), evs)
        return "v=%s e=%d c=%d%s |%s" % (self.fmt_value(d.value), 1 if d.enabled else 0, 1 if d.completed else 0,
                                        self.stored(), evs)

    def set_var(self, which, v):
        m = self.vm.machine
        if which == "start" and self.cfg["where"] == "game":
            m.game.player[VAR_START] = v
        else:
            m.variables.set_machine_var(VAR_START if which == "start" else VAR_GOAL, v)
        self.vm.run()

    def op(self, op):
        """apply one op on the real machine; returns the observation line or 'crash <Type>'"""
        vm = self.vm
        name = op[0]
        self.sched, self.choice, self.next_player = [], None, None
        _Hooks.fired, _Hooks.shuffles = [], []
        try:
            if name == "adv":
                t0 = vm.now()
                vm.advance(op[1] * TICK)
                for t, cb, choice in _Hooks.fired:
                    off = (t - t0) / TICK
                    self.sched.append((int(off) if off == int(off) else off, KIND_OF_CALLBACK.get(cb, "?" + cb), choice))
            elif name == "hit":
                vm.post("%s_s%d" % (NAME, op[1]))
                vm.run()
            elif name == "shared":
                vm.post("%s_sh%d" % (NAME, op[1]))
                vm.run()
            elif name in ("add", "sub", "set"):
                vm.post(ctl_event(name, op[1]))
                vm.run()
            elif name == "dpost":
                vm.post("%s_%s_d" % (NAME, op[1]))
                vm.run()
            elif name == "setstart":
                self.set_var("start", op[1])
            elif name == "setgoal":
                self.set_var("goal", op[1])
            elif name == "advr":
                vm.post("%s_advr" % NAME)
                vm.run()
                self.choice = _Hooks.choice_of(_Hooks.shuffles)
            elif name == "load":
                vm.post("m1_start")
                vm.run()
                if self.cfg["where"] == "game":
                    self.settle()
                if not vm.machine.modes["m1"].active:
                    raise InfraError("mode m1 did not start")
            elif name == "unload":
                vm.post("m1_stop")
                vm.run()
                if self.cfg["where"] == "game":
                    self.settle()
                if vm.machine.modes["m1"].active:
                    raise InfraError("mode m1 did not stop")
            elif name == "ctl":
                act, form, raw = op[1], op[2], op[3]
                if form == "mv":
                    vm.machine.variables.set_machine_var(VAR_CTL, raw)
                    vm.run()
                    self.log = []
                    vm.post(ctl_event(act, "mv"))
                elif raw == "missing":
                    vm.post(ctl_event(act, "kw"))
                else:
                    vm.post(ctl_event(act, "kw"), amount=raw)
                vm.run()
            elif name == "newgame":
                m = vm.machine
                m.game.end_game()
                self.settle()
                vm.advance(TICK)
                self.settle()
                if m.game is not None or m.modes["m1"].active:
                    raise InfraError("game did not end")
                m.playfield.balls = m.playfield.available_balls = 0       # the (fake) ball of the ended game is home
                self.start_game()
            elif name == "drain":
                m = vm.machine
                if len(op) > 1:
                    m.game.player.extra_balls += 1
                for _ in range(m.game.balls_in_play):
                    r = vm.tc.post_relay_event_with_params("ball_drain", balls=1)
                    m.playfield.balls -= r["balls"]
                    m.playfield.available_balls -= r["balls"]
                self.settle()
                for _ in range(40):            # the next ball starts without time passing, after a few loop iterations
                    if m.game is not None and m.game.player is not None and m.modes["m1"].active:
                        break
                    vm.run()
                self.settle()
                if m.game is None or m.game.player is None or not m.modes["m1"].active:
                    raise InfraError("no next ball right after the drain")
                self.next_player = m.game.player.index
                _Hooks.fired = []
                self.tick_logged()
                if m.game is None or m.game.player is None or not m.modes["m1"].active:
                    raise InfraError("no next ball after drain")
            else:
                vm.post("%s_%s" % (NAME, name))
                vm.run()
        except InfraError:
            raise
        except BaseException as e:  # an exception escaping MPF is an observation
            cause = e
            while getattr(cause, "__cause__", None) is not None:
                cause = cause.__cause__
            self.log = []
            return "crash %s" % type(cause).__name__
        return self.observe()

    def close(self):
        _Hooks.dev = _Hooks.vm = None
        self.vm.stop()


# ---------------------------------------------------------------------------------------------------------------------
# generators
# ---------------------------------------------------------------------------------------------------------------------
def gen_cfg(r, where=None, flavour=None):
    """flavour: None (mixed) | 'delay' (delayed control events) | 'tmpl' (template-valued start / goal) |
    'steps' (shared / duplicated step events, advance_random) | 'down' (counting down through zero)"""
    kind = r.choice(["counter", "counter", "counter", "accrual", "sequence"])
    if flavour in ("tmpl", "down", "ctl"):
        kind = "counter"
    if flavour == "steps":
        kind = r.choice(["accrual", "accrual", "sequence"])
    where = where or ("mode" if r.random() < 0.12 else "machine")
    cfg = {"kind": kind, "where": where, "start": 0, "interval": 1, "down": False, "goal": None,
           "reset_on_complete": r.random() < 0.6, "disable_on_complete": r.random() < 0.5,
           "window": 0, "timeout": r.choice([0, 0, 0, 2, 3, 4, 8]), "steps": 0, "start_enabled": r.random() < 0.3,
           "shuffle_seed": r.randrange(1000)}
    if kind == "counter":
        cfg["down"] = r.random() < 0.4
        cfg["interval"] = r.choice([1, 1, 1, 2, 3, -1, -2, 0])
        cfg["start"] = r.choice([0, 0, 1, 5, -3, 10])
        if flavour == "down":
            cfg["down"] = True
            cfg["interval"] = r.choice([1, 1, 2, 3, -2])
            cfg["start"] = r.choice([0, 1, 2, 3, -1])
        delta = -abs(cfg["interval"]) if cfg["down"] else abs(cfg["interval"])
        g = r.random()
        if g < 0.15:
            cfg["goal"] = None
        elif g < 0.8:
            cfg["goal"] = cfg["start"] + delta * r.choice([1, 2, 2, 3, 4]) + r.choice([0, 0, 0, 1, -1])
        elif g < 0.9:
            cfg["goal"] = cfg["start"]            # already met at the start value
        else:
            cfg["goal"] = cfg["start"] - delta * 2 - (1 if not cfg["down"] else -1)  # behind the start: met at once
        if flavour == "down" and cfg["goal"] is not None and r.random() < 0.6:
            cfg["goal"] = r.choice([0, -1, -2, -3, -4])       # through zero / a negative completion value
        cfg["window"] = r.choice([0, 0, 1, 2, 3, 4])
        vals = sorted({r.choice([1, 2, 3, -1, -2, 0]) for _ in range(2)})
        cfg["controls"] = [["add", v] for v in vals] + [["sub", r.choice([1, 2, -1])]] + \
                          [["set", v] for v in sorted({cfg["start"], cfg["goal"] if cfg["goal"] is not None else 7,
                                                       (cfg["goal"] or 0) - delta})]
        if r.random() < 0.3:
            cfg["controls"] = []
        if flavour in ("tmpl", "ctl") or r.random() < 0.15:     # value templates: event kwarg `amount` / machine variable
            forms = [[a, f] for a in ("add", "sub", "set") for f in ("kw", "mv") if r.random() < (0.8 if flavour == "ctl" else 0.4)]
            cfg["controls"] = cfg["controls"] + (forms or [["add", "kw"]])
        if flavour == "tmpl" or (flavour is None and r.random() < 0.15):
            x = r.random()
            cfg["ph_start"] = x < 0.7
            cfg["ph_goal"] = x > 0.4
            if cfg["ph_goal"] and cfg["goal"] is None:
                cfg["goal"] = cfg["start"] + 2 * delta
    else:
        cfg["steps"] = r.choice([1, 2, 3, 3, 4])
        p_shared = 0.8 if flavour == "steps" else 0.35
        if cfg["steps"] >= 2 and r.random() < p_shared:
            i = r.randrange(cfg["steps"] - 1)
            cfg["shared"] = [[i, i + 1]] if r.random() < 0.6 else [[0, cfg["steps"] - 1]]
            if cfg["steps"] >= 3 and r.random() < 0.4:
                cfg["shared"].append(sorted(r.sample(range(cfg["steps"]), r.choice([2, 3]))))
        if r.random() < (0.5 if flavour == "steps" else 0.15):
            cfg["dups"] = sorted({r.randrange(cfg["steps"]) for _ in range(2)})
    if r.random() < (0.5 if flavour == "ctl" else 0.15):
        cfg["ev_hit"] = r.choice([["my_hit"], ["my_hit", "my_hit2"], ["my_hit", "my_hit2", "my_hit"],
                                  ["logicblock_%s_hit" % NAME], ["my_hit", "logicblock_%s_hit" % NAME]])
    if r.random() < (0.5 if flavour == "ctl" else 0.15):
        cfg["ev_done"] = r.choice([["my_done"], ["my_done", "my_done2"], ["my_done", "my_done"],
                                   ["my_done", "logicblock_%s_complete" % NAME]])
    if where == "machine" and cfg["timeout"]:
        cfg["start_enabled"] = False
    if flavour == "delay" or (flavour is None and r.random() < 0.25):
        acts = acts_of(cfg)
        chosen = [a for a in acts if r.random() < 0.7] or [acts[0]]
        w, t = cfg["window"], cfg["timeout"]
        pool = [1, 2, 3, 4] + [x for x in (w, t, t - w, w + 1) if 0 < x <= 8] * 2
        cfg["delays"] = {a: r.choice(pool) for a in chosen}
    return cfg


def gen_game_cfg(r):
    cfg = gen_cfg(r, "game", r.choice([None, "tmpl", "steps", None, "delay", None]))
    if r.random() < 0.25:                     # the first C18 extension's sub-space: no timers at all
        cfg.pop("delays", None)
        cfg["window"] = 0
        cfg["timeout"] = 0
    elif r.random() < 0.5 and not cfg["timeout"]:
        cfg["timeout"] = r.choice([1, 2, 3, 4, 8])
    cfg["persist"] = r.random() < 0.85
    cfg["players"] = r.choice([1, 2, 2, 3, 3])
    if r.random() < 0.5:                      # a completed block that stays completed on the next ball
        cfg["reset_on_complete"] = False
    return cfg


def gen_ops(r, cfg, n):
    kind = cfg["kind"]
    ops = []
    where = cfg["where"]
    loaded = where != "mode"
    if not loaded:
        ops.append(["load"])
        loaded = True
    has_enable = where != "machine" or not cfg["start_enabled"]
    if not cfg["start_enabled"] and r.random() < 0.85:
        ops.append(["enable"])
    w, t = cfg["window"], cfg["timeout"]
    delays = cfg.get("delays", {})
    edges = [x for x in {w, w - 1, t, t - 1, max(t - w, 0), 1} | set(delays.values()) if x > 0]
    delta = -abs(cfg["interval"]) if cfg["down"] else abs(cfg["interval"])
    p_hit = 0.45 if not delays else 0.3
    while len(ops) < n:
        x = r.random()
        if x < p_hit:
            if kind == "counter":
                ops.append(["count"])
                if r.random() < 0.3:
                    ops.append(["count"])
            elif cfg.get("shared") and r.random() < 0.35:
                ops.append(["shared", r.randrange(len(cfg["shared"]))])
            elif kind == "accrual" and r.random() < 0.3:
                ops.append(["advr"])
            else:
                # mostly the step a sequence waits for / an unset accrual step, sometimes any step
                ops.append(["hit", r.randrange(cfg["steps"])])
        elif x < 0.45 and delays:
            ops.append(["dpost", r.choice(sorted(delays))])
        elif x < 0.7:
            y = r.random()
            if where == "game" and y < 0.4:
                ops.append(["drain", "xb"] if r.random() < 0.25 else ["drain"])     # xb: the player has an extra ball
            elif where == "game" and y < 0.47:
                ops.append(["newgame"])
            elif where == "game" and not (w or t or delays):
                ops.append(["hit", 0] if kind != "counter" else ["count"])
            else:
                ops.append(["adv", r.choice(edges) if r.random() < 0.8 else r.randint(1, 9)])
        elif x < 0.78 and kind == "counter" and (cfg.get("controls") or cfg.get("ph_start") or cfg.get("ph_goal")):
            y = r.random()
            odd = lambda: r.choice([None, 2.5, -1.5, 0.5, None])     # a template_int gives 0 for None and int() of a float
            if cfg.get("ph_start") and y < 0.4:
                ops.append(["setstart", odd() if r.random() < 0.2 else r.choice([0, 1, 2, 5, -2, cfg["start"]])])
                if r.random() < 0.5:
                    ops.append(["reset"])
            elif cfg.get("ph_goal") and y < 0.8:
                base = cfg["start"]
                ops.append(["setgoal", odd() if r.random() < 0.2 else
                            base + delta * r.choice([0, 1, 2, 3]) + r.choice([0, 0, 1, -1])])
            elif cfg.get("controls"):
                c = r.choice(cfg["controls"])
                if isinstance(c[1], str):
                    raw = r.choice([1, 2, 3, -1, 0, -2, 2.5, -1.5, None] + (["missing"] if c[1] == "kw" else []))
                    if c[0] == "set" and r.random() < 0.5 and cfg["goal"] is not None:
                        raw = cfg["goal"]
                    ops.append(["ctl", c[0], c[1], raw])
                else:
                    ops.append([c[0], c[1]])
        elif x < 0.84:
            # a machine-wide block that starts enabled has no enable event (only restart enables it again)
            ops.append(["enable"] if has_enable else ["restart"])
        elif x < 0.89:
            ops.append(["disable"])
        elif x < 0.93:
            ops.append(["reset"])
        elif x < 0.96:
            ops.append(["restart"])
        elif where in ("mode", "game"):
            ops.append(["unload"] if loaded else ["load"])
            loaded = not loaded
            if not loaded and where == "mode" and r.random() < 0.7:
                ops.append(["adv", r.choice(edges)])
            if not loaded and (where == "game" or r.random() < 0.5):
                ops.append(["load"])
                loaded = True
    if where == "game" and not loaded:
        ops.append(["load"])
    return ops


# ---------------------------------------------------------------------------------------------------------------------
# one case
# ---------------------------------------------------------------------------------------------------------------------
def model_cfg_line(cfg):
    b = lambda x: "1" if x else "0"
    return "cfg %s %d %d %s %s %s %s %d %d %d %s %s %s" % (
        cfg["kind"], cfg["start"], cfg["interval"], b(cfg["down"]), "-" if cfg["goal"] is None else cfg["goal"],
        b(cfg["reset_on_complete"]), b(cfg["disable_on_complete"]), cfg["window"], cfg["timeout"], cfg["steps"],
        b(cfg["start_enabled"]), b(cfg.get("persist")), b(cfg["where"] == "machine"))


def hits_of(cfg, op):
    """the step hits one posted step event stands for, in handler order (sequence: higher step = higher priority
    first; accrual: registration order)"""
    if op[0] == "shared":
        ks = sorted(cfg["shared"][op[1]], reverse=cfg["kind"] == "sequence")
    else:
        ks = [op[1]]
    out = []
    for k in ks:
        out += [k, k] if (op[0] == "hit" and k in cfg.get("dups", [])) else [k]
    return out


class Env:
    """what the harness knows about the run so far (to translate ops): per-player start variable, current player"""

    def __init__(self, cfg):
        self.cur = 0
        self.pstart = {}
        self.cfg = cfg

    def start_of(self, p):
        return self.pstart.get(p, self.cfg["start"])


def expand(cfg, op, env, sched, choice, next_player):
    """a harness op as the list of (model line, reference op + arguments) it stands for"""
    name = op[0]
    ch = lambda c: "-" if c is None else str(c)
    if name in ("hit", "shared"):
        return [("hit %d" % k, (["hit", k], None, None)) for k in hits_of(cfg, op)]
    if name == "adv":
        lines = []
        for j in range(1, op[1] + 1):
            lines.append("clock")
            for off, kind, c in sched:
                if off == j:
                    lines.append({"W": "fireW", "T": "fireT"}.get(kind) or
                                 ("fireD advr %s" % ch(c) if kind == "D:advr" else "fireD " + kind[2:]))
        if any(not isinstance(off, int) or not 1 <= off <= op[1] for off, _, _ in sched):
            lines.append("off-grid-callback")
        return [(l, None) for l in lines[:-1]] + [(lines[-1], (op, sched, None))]
    if name == "advr":
        return [("advr %s" % ch(choice), (op, None, choice))]
    if name == "dpost":
        return [("dpost %s %d" % (op[1], cfg["delays"][op[1]]), (op, None, None))]
    if name == "setstart":
        if cfg["where"] == "game":
            env.pstart[env.cur] = op[1]
        return [("setstart %d" % py_int(op[1]), (["setstart", py_int(op[1])], None, None))]
    if name == "setgoal":
        return [("setgoal %d" % py_int(op[1]), (["setgoal", py_int(op[1])], None, None))]
    if name == "ctl":
        eff = None if op[3] is None or op[3] == "missing" else int(op[3])     # evaluate_or_none + int()
        if eff is None:
            return [("ctlnone", (["ctlnone"], None, None))]
        return [("%s %d" % (op[1], eff), ([op[1], eff], None, None))]
    if name == "drain":
        extra = len(op) > 1                                       # the player has an extra ball: he shoots again
        want_p = env.cur if extra else (env.cur + 1) % cfg.get("players", 1)   # the reference rotates by itself
        p = next_player if next_player is not None else want_p
        env.cur = p
        return [("stopmode", (["stopmode"], None, None)),
                ("setstart %d" % py_int(env.start_of(p)), (["setstart", py_int(env.start_of(want_p))], None, None)),
                ("startmode %d" % p, (["startmode", want_p], None, None))] + expand(cfg, ["adv", 1], env, sched, None, None)
    if name == "newgame":
        env.cur, env.pstart = 0, {}
        return [("stopmode", (["stopmode"], None, None)), ("newgame", (["newgame"], None, None)),
                ("setstart %d" % cfg["start"], (["setstart", cfg["start"]], None, None)),
                ("startmode 0", (["startmode", 0], None, None))] + expand(cfg, ["adv", 1], env, sched, None, None)
    if name == "unload":
        return [("stopmode", (["stopmode"], None, None))]
    if name == "load":
        return [("startmode %d" % env.cur, (["startmode", env.cur], None, None))]
    return [(" ".join(str(x) for x in op), (op, None, None))]


def merge(lines):
    """several observation lines of one posted event: last state, all events"""
    if len(lines) == 1:
        return lines[0]
    if any(l == "bad-op" or l.startswith("crash") or " |" not in l for l in lines):
        return " / ".join(lines)
    return lines[-1].split(" |")[0] + " |" + "".join(l.split(" |", 1)[1] for l in lines)


def mask_updates(line):
    """an accrual's `updated` events carry the value LIST by reference: when one posted event hits several steps, or
    two delay callbacks run at one instant, the handlers see the list as it is after all of them (events are
    dispatched later).  The property speaks about hit and completion events; the `updated` events of an accrual are
    therefore compared by number, position and enabled flag only (the value after the op is compared anyway)."""
    if " |" not in line:
        return line
    st, ev = line.split(" |", 1)
    return st + " |" + "".join(" " + ("U:*:" + e.rsplit(":", 1)[1] if e.startswith("U:") else e) for e in ev.split())


def classify(cfg, op, impl, want):
    """signature of an oracle failure: kind + first differing aspect"""
    k = cfg["kind"]
    if impl.startswith("crash"):
        where = "unloaded-" if want.startswith("unloaded") else ""
        return "%s:crash-%s%s:%s" % (k, where, op[0], impl.split(" ")[1])
    si, ei = impl.split(" |", 1)
    sw, ew = want.split(" |", 1)
    evi, evw = ei.split(), ew.split()
    sched_flags = [e for e in evw if e.startswith("!")]
    if sched_flags:
        return "%s:%s" % (k, sched_flags[0][1:].split(":")[0])
    if any(e.startswith("X") for e in evi):
        return "%s:configured-events-not-once-each" % k
    for tag, nm in (("C", "complete-events"), ("H", "hit-events"), ("S", "hit-events"), ("T", "timeout-events")):
        if [e for e in evi if e.startswith(tag)] != [e for e in evw if e.startswith(tag)]:
            return "%s:%s" % (k, nm)
    if si != sw:
        di = dict(x.split("=") for x in si.split() if "=" in x)
        dw = dict(x.split("=") for x in sw.split() if "=" in x)
        for key, nm in (("v", "value"), ("e", "enabled"), ("c", "completed"), ("s", "stored-state")):
            if di.get(key) != dw.get(key):
                return "%s:%s" % (k, nm)
        return "%s:state" % k
    if sorted(evi) != sorted(evw):
        return "%s:updated-events" % k
    return "%s:event-order" % k


class Ledger:
    """the value ledger of Props/C18 `counter_value`, recomputed from the events the REAL device posted: the base is
    the start template as it evaluated at the last reset, hits are the hit events since"""

    def __init__(self, cfg):
        self.c = cfg
        self.delta = -abs(cfg["interval"]) if cfg["down"] else abs(cfg["interval"])
        self.start = cfg["start"]
        self.base, self.hits = cfg["start"], 0
        self.cur = 0
        self.saved = {}
        self.pstart = {}

    def step(self, op, impl):
        name = op[0]
        if name == "ctl":
            if op[3] is None or op[3] == "missing":
                name, op = "ctlnone", ["ctlnone"]
            else:
                name, op = op[1], [op[1], int(op[3])]
        if name == "setstart":
            self.start = py_int(op[1])
            self.pstart[self.cur] = py_int(op[1])
        if impl.startswith("crash"):
            return None
        st, ev = impl.split(" |", 1)
        evs = ev.split()
        if name in ("unload", "drain", "newgame") and self.c.get("persist") and not getattr(self, "unloaded", False):
            self.saved[self.cur] = (self.base, self.hits)
        if name == "unload":
            self.unloaded = True
        if name == "drain":
            if len(op) == 1:
                self.cur = (self.cur + 1) % self.c.get("players", 1)
            self.start = self.pstart.get(self.cur, self.c["start"])
        if name == "newgame":
            self.cur, self.saved, self.pstart, self.start = 0, {}, {}, self.c["start"]
        if name in ("load", "drain", "newgame"):
            self.unloaded = False
            if self.c.get("persist") and self.cur in self.saved:
                self.base, self.hits = self.saved[self.cur]
            elif evs:
                self.base, self.hits = self.start, 0
        if impl.startswith("unloaded"):
            return None
        nh = sum(1 for e in evs if e.startswith("H"))
        if name == "add":
            self.base += op[1]
        elif name == "sub":
            self.base -= op[1]
        elif name == "set":
            self.base, self.hits = op[1], 0
        # a reset: the op itself, a timeout, a completion of a reset_on_complete block, a delayed reset / restart
        # (visible as an `updated` event showing the start value right after a non-hit) - events are scanned in order
        if name in ("reset", "restart") or (name == "load" and not self.c.get("persist")):
            self.base, self.hits = self.start, 0
        elif name in ("adv", "drain", "newgame") or nh or "C" in evs:
            self.scan(evs)
        return self.base + self.delta * self.hits

    def scan(self, evs):
        """walk the events of one op in posting order"""
        i = 0
        while i < len(evs):
            e = evs[i]
            if e.startswith("H"):
                self.hits += 1
            elif e == "T" or (e == "C" and self.c["reset_on_complete"]):
                self.base, self.hits = self.start, 0
            i += 1


def execute(cfg, ops, model=None, stop_at_first=True):
    """Run ops on a fresh real device, the reference and (optionally) the model.
    Returns (oracle_failure or None, comparisons [(op_index, impl, model)], branch flags)."""
    real = RealBlock(cfg)
    ref = RefBlock(cfg)
    env = Env(cfg)
    led = Ledger(cfg) if cfg["kind"] == "counter" and not cfg.get("delays") else None
    failure = None
    comps = []
    flags = set()
    try:
        if model is not None:
            a = model.ask(model_cfg_line(cfg))
            if not a.startswith("ok"):
                raise InfraError("model rejected cfg: %r -> %r" % (cfg, a))
        if cfg["where"] != "machine":
            ref.op(["unload"])          # a mode-owned block does not exist before its mode starts (model: boot flag)
            ref.store = {}
        if cfg["where"] == "game":
            # the block was created when the first ball started: a mode start for player 0
            ref.op(["startmode", 0])
            if model is not None:
                model.ask("startmode 0")
            for line, a in expand(cfg, ["adv", 1], env, real.init_sched, None, None):   # the tick after the start
                if a is not None:
                    ref.op(*a)
                if model is not None:
                    model.ask(line)
        if cfg["kind"] == "counter" and model is not None and ops:
            # hypothesis of counter_methods_refine_source, checked on the real object: hit_value = +-count_interval
            comps.append((0, "hit_value=%r" % (real.dev.hit_value,),
                          "hit_value=%d" % (-abs(cfg["interval"]) if cfg["down"] else abs(cfg["interval"]))))
        first = real.observe()
        want0 = ref.line()
        if first.split(" |")[0] != want0.split(" |")[0]:
            failure = ("%s:initial-state" % cfg["kind"], -1, first, want0)
        for i, op in enumerate(ops):
            impl = real.op(op)
            parts = expand(cfg, op, env, real.sched, real.choice, real.next_player)
            multi = cfg["kind"] == "accrual"
            want = merge([ref.op(*a) for _, a in parts if a is not None])
            if multi:
                impl, want = mask_updates(impl), mask_updates(want)
            if model is not None:
                mod = merge([model.ask(l) for l, _ in parts])
                comps.append((i, impl, mask_updates(mod) if multi else mod))
            evs = want.split(" |", 1)[1].split()
            if "C" in evs:
                flags.add("completion")
            if "T" in evs:
                flags.add("timeout")
            if op[0] in ("count", "hit", "shared") and not any(e[0] in "HS" for e in evs) and not want.startswith("unloaded"):
                flags.add("rejected-hit")
            if want.startswith("unloaded"):
                flags.add("unloaded")
            if op[0] == "adv":
                for _, kind, _ in real.sched:
                    flags.add("delayed-call-ran" if kind.startswith("D:") else "timer-ran")
                insts = [off for off, _, _ in real.sched]
                if len(set(insts)) < len(insts):
                    flags.add("same-instant-callbacks")
            if op[0] in ("unload", "drain", "newgame") and cfg.get("persist"):
                flags.add("state-stored")
            if op[0] == "newgame":
                flags.add("second-game")
            if op[0] == "drain" and len(op) > 1:
                flags.add("extra-ball")
            if op[0] == "ctl":
                flags.add("ctl-none" if op[3] in (None, "missing") else "ctl-float" if isinstance(op[3], float) else "ctl-int")
            if op[0] in ("load", "drain") and cfg.get("persist") and " U:" in want and want.count(" U:") == 1:
                flags.add("state-restored")
            if "state-restored" in flags and op[0] in ("load", "drain") and cfg["timeout"] and " e=1 c=0" in impl \
                    and want.count(" U:") == 1:
                flags.add("obs:restored_enabled_block_timeout_not_rearmed")
            for e in impl.split(" |", 1)[1].split() if " |" in impl else []:
                if e.startswith("H:") and e.count(":") == 3 and e.split(":")[2].startswith("-"):
                    flags.add("obs:hits_kwarg_negative")
            if impl != want and failure is None:
                failure = (classify(cfg, op, impl, want), i, impl, want)
            if led is not None and failure is None:
                lv = led.step(op, impl)
                if lv is not None and ("v=%d " % lv) not in impl:
                    failure = ("counter:value-ledger", i, impl, "ledger value %d" % lv)
            if impl.startswith("crash") or (failure is not None and stop_at_first):
                break
    finally:
        real.close()
    return failure, comps, flags


def run_case(ctx, model, cfg, ops, sample=True):
    case = {"cfg": cfg, "ops": ops}
    failure, comps, flags = execute(cfg, ops, model)
    ctx.evaluated(case, bool(flags & {"completion", "timeout", "rejected-hit", "delayed-call-ran", "state-restored"}),
                  sample=sample)
    for op in ops:
        ctx.count("op_" + op[0])
    for f in flags:
        ctx.count("observed_outside_property_" + f[4:] if f.startswith("obs:") else "branch_" + f)
    ctx.count("kind_" + cfg["kind"])
    ctx.count("where_" + cfg["where"])
    for key in ("delays", "ph_start", "ph_goal", "shared", "dups", "persist", "ev_hit", "ev_done"):
        if cfg.get(key):
            ctx.count("cfg_" + key)
    for i, impl, mod in comps:
        ctx.compare(dict(case, at=i, op=ops[i]), impl, mod)
    if failure is not None:
        sig = failure[0]

        def fails(sub):
            f, _, _ = execute(cfg, sub, None)
            return f is not None and f[0] == sig
        small = ddmin(ops[:failure[1] + 1], fails, max_tests=120) if failure[1] >= 0 else []
        f2, _, _ = execute(cfg, small, None)
        if f2 is None or f2[0] != sig:
            small, f2 = ops[:failure[1] + 1], failure
        ctx.fail(sig, {"cfg": cfg, "ops": small}, {"at_op": f2[1], "op": small[f2[1]] if f2[1] >= 0 else None,
                                                   "implementation": f2[2], "expected": f2[3]})
    return failure


D13_CFG = {"kind": "counter", "where": "mode", "start": 0, "interval": 1, "down": False, "goal": 3,
           "reset_on_complete": True, "disable_on_complete": True, "window": 0, "timeout": 8, "steps": 0,
           "start_enabled": True, "controls": [["add", 3]]}
CORPUS = [
    # D13: timeout pending when the mode stops
    (D13_CFG, [["load"], ["count"], ["unload"], ["adv", 8], ["load"], ["count"]]),
    # window pending when the mode stops: must be open again after the next start
    (dict(D13_CFG, timeout=0, window=4), [["load"], ["count"], ["unload"], ["adv", 1], ["load"], ["count"], ["adv", 4], ["count"]]),
    # control event of a mode counter while its mode is not running
    (D13_CFG, [["add", 3], ["load"], ["add", 3], ["unload"], ["add", 3], ["adv", 8]]),
    # hit exactly at the window edge and one tick before; timeout exactly at its instant
    ({"kind": "counter", "where": "machine", "start": 2, "interval": 1, "down": False, "goal": 4, "reset_on_complete": True,
      "disable_on_complete": True, "window": 2, "timeout": 8, "steps": 0, "start_enabled": False, "controls": []},
     [["enable"], ["count"], ["adv", 1], ["count"], ["adv", 1], ["count"], ["enable"], ["adv", 7], ["count"], ["adv", 1], ["adv", 8]]),
    # completed and still enabled counter keeps counting; completion only once
    ({"kind": "counter", "where": "machine", "start": 0, "interval": 2, "down": True, "goal": -4, "reset_on_complete": False,
      "disable_on_complete": False, "window": 0, "timeout": 0, "steps": 0, "start_enabled": True,
      "controls": [["set", 0], ["add", -6]]},
     [["count"], ["count"], ["count"], ["set", 0], ["add", -6], ["reset"], ["add", -6], ["add", -6]]),
    ({"kind": "accrual", "where": "machine", "start": 0, "interval": 1, "down": False, "goal": None, "reset_on_complete": True,
      "disable_on_complete": False, "window": 0, "timeout": 4, "steps": 3, "start_enabled": False},
     [["hit", 1], ["enable"], ["hit", 2], ["hit", 2], ["hit", 0], ["adv", 4], ["hit", 1], ["hit", 0], ["hit", 2], ["hit", 1]]),
    ({"kind": "sequence", "where": "machine", "start": 0, "interval": 1, "down": False, "goal": None, "reset_on_complete": False,
      "disable_on_complete": False, "window": 0, "timeout": 0, "steps": 3, "start_enabled": True, "shared": [[0, 1]]},
     [["hit", 1], ["shared", 0], ["shared", 0], ["hit", 0], ["hit", 2], ["hit", 2], ["reset"], ["hit", 0]]),
]


CORPUS += [
    # delayed count arrives inside the window (ignored), window end, timeout and delayed disable at one instant
    ({"kind": "counter", "where": "machine", "start": 0, "interval": 1, "down": False, "goal": 3, "reset_on_complete": True,
      "disable_on_complete": False, "window": 2, "timeout": 2, "steps": 0, "start_enabled": False, "controls": [],
      "delays": {"count": 2, "disable": 2, "enable": 1}},
     [["enable"], ["count"], ["dpost", "count"], ["dpost", "disable"], ["adv", 1], ["adv", 1], ["adv", 1], ["dpost", "enable"],
      ["adv", 1], ["count"]]),
    # delayed calls of a mode-owned block die with the mode; a new start does not revive them
    ({"kind": "counter", "where": "mode", "start": 0, "interval": 1, "down": False, "goal": 2, "reset_on_complete": False,
      "disable_on_complete": True, "window": 0, "timeout": 0, "steps": 0, "start_enabled": True, "controls": [],
      "delays": {"count": 2, "restart": 3}},
     [["load"], ["dpost", "count"], ["dpost", "restart"], ["unload"], ["adv", 1], ["load"], ["adv", 2], ["dpost", "count"],
      ["count"], ["adv", 2], ["dpost", "restart"], ["adv", 3]]),
    # delayed call pending when the block completes and is disabled: it still arrives (and is rejected / re-enables)
    ({"kind": "counter", "where": "machine", "start": 0, "interval": 1, "down": False, "goal": 1, "reset_on_complete": True,
      "disable_on_complete": True, "window": 0, "timeout": 0, "steps": 0, "start_enabled": False, "controls": [],
      "delays": {"count": 1, "enable": 2}},
     [["enable"], ["dpost", "count"], ["dpost", "count"], ["dpost", "enable"], ["count"], ["adv", 1], ["adv", 1], ["count"]]),
    # templates: start read at reset, goal read at every hit; `hits` argument against the start as it is now
    ({"kind": "counter", "where": "machine", "start": 5, "interval": 1, "down": False, "goal": 7, "reset_on_complete": True,
      "disable_on_complete": False, "window": 0, "timeout": 0, "steps": 0, "start_enabled": True, "controls": [["add", 2]],
      "ph_start": True, "ph_goal": True},
     [["count"], ["setstart", 2], ["count"], ["reset"], ["setgoal", 3], ["count"], ["setgoal", 1], ["add", 2], ["setstart", 0],
      ["count"]]),
    # counting down through zero to a negative completion value
    ({"kind": "counter", "where": "machine", "start": 1, "interval": 2, "down": True, "goal": -3, "reset_on_complete": False,
      "disable_on_complete": False, "window": 0, "timeout": 0, "steps": 0, "start_enabled": True, "controls": [["set", 0]]},
     [["count"], ["count"], ["count"], ["set", 0], ["reset"], ["count"], ["count"]]),
    # accrual: event in several steps, twice in one step, advance_random to completion and beyond
    ({"kind": "accrual", "where": "machine", "start": 0, "interval": 1, "down": False, "goal": None, "reset_on_complete": False,
      "disable_on_complete": False, "window": 0, "timeout": 0, "steps": 3, "start_enabled": True, "shared": [[0, 2], [0, 1, 2]],
      "dups": [1], "shuffle_seed": 3, "delays": {"advr": 1}},
     [["shared", 0], ["hit", 1], ["reset"], ["advr"], ["dpost", "advr"], ["advr"], ["adv", 1], ["advr"], ["reset"], ["shared", 1]]),
    # sequence: reset mid-sequence, event shared by steps 0 and 2 and listed twice in step 0
    ({"kind": "sequence", "where": "machine", "start": 0, "interval": 1, "down": False, "goal": None, "reset_on_complete": True,
      "disable_on_complete": False, "window": 0, "timeout": 0, "steps": 3, "start_enabled": True, "shared": [[0, 2]], "dups": [0]},
     [["hit", 0], ["hit", 1], ["reset"], ["hit", 2], ["shared", 0], ["hit", 1], ["shared", 0], ["hit", 0]]),
    # persist_state, two players: value / enabled / completed come back per player; a completed block stays completed
    ({"kind": "counter", "where": "game", "start": 1, "interval": 1, "down": False, "goal": 3, "reset_on_complete": False,
      "disable_on_complete": False, "window": 0, "timeout": 0, "steps": 0, "start_enabled": True, "controls": [],
      "persist": True, "players": 2, "ph_start": True},
     [["count"], ["count"], ["drain"], ["setstart", 7], ["count"], ["reset"], ["disable"], ["drain"], ["count"], ["unload"],
      ["load"], ["drain"], ["count"], ["enable"], ["count"]]),
    ({"kind": "accrual", "where": "game", "start": 0, "interval": 1, "down": False, "goal": None, "reset_on_complete": True,
      "disable_on_complete": True, "window": 0, "timeout": 0, "steps": 2, "start_enabled": False, "persist": True, "players": 3},
     [["hit", 0], ["enable"], ["hit", 1], ["drain"], ["enable"], ["hit", 0], ["drain"], ["drain"], ["hit", 0], ["drain"],
      ["hit", 1]]),
]


CORPUS += [
    # persist_state + timeout + window: the restored enabled block has no timeout running (observation), the fresh block of
    # player 1 times out in the tick after its start; extra ball; game end and a second game (everything fresh)
    ({"kind": "counter", "where": "game", "start": 0, "interval": 1, "down": False, "goal": 9, "reset_on_complete": False,
      "disable_on_complete": False, "window": 2, "timeout": 1, "steps": 0, "start_enabled": True, "controls": [],
      "persist": True, "players": 2, "delays": {"count": 1}},
     [["enable"], ["count"], ["count"], ["dpost", "count"], ["drain"], ["count"], ["adv", 2], ["drain"], ["adv", 4], ["count"],
      ["drain", "xb"], ["count"], ["enable"], ["adv", 1], ["newgame"], ["count"], ["drain"], ["count"]]),
    # value templates of add / subtract / jump: event kwarg (int, float, None, missing) and machine variable; overrides of
    # the hit and completion events (the same event twice in the hit list, two completion events)
    ({"kind": "counter", "where": "machine", "start": 1, "interval": -2, "down": False, "goal": 6, "reset_on_complete": True,
      "disable_on_complete": False, "window": 0, "timeout": 0, "steps": 0, "start_enabled": True,
      "controls": [["add", "kw"], ["sub", "mv"], ["set", "kw"], ["set", "mv"]], "ev_hit": ["my_hit", "my_hit2", "my_hit"],
      "ev_done": ["my_done", "my_done2"]},
     [["count"], ["ctl", "add", "kw", 2.5], ["ctl", "add", "kw", None], ["ctl", "add", "kw", "missing"], ["ctl", "sub", "mv", -1.5],
      ["ctl", "sub", "mv", None], ["ctl", "set", "kw", 6], ["count"], ["ctl", "set", "mv", 5], ["count"]]),
    # start / goal variables set to None (-> 0) and to a float (-> int()); `hits` of the hit event goes negative
    ({"kind": "counter", "where": "machine", "start": 2, "interval": 1, "down": False, "goal": 5, "reset_on_complete": True,
      "disable_on_complete": False, "window": 0, "timeout": 0, "steps": 0, "start_enabled": True, "controls": [],
      "ph_start": True, "ph_goal": True},
     [["count"], ["setstart", 7], ["count"], ["setgoal", None], ["count"], ["setgoal", 4.5], ["setstart", None], ["reset"],
      ["count"], ["setstart", -1.5], ["reset"], ["count"], ["count"]]),
]


def exhaustive(ctx, model):
    """thorough tier: every op sequence of length <= L over a small alphabet with 1- and 2-tick advances"""
    total = 0
    spaces = [
        ({"kind": "counter", "where": "machine", "start": 0, "interval": 1, "down": False, "goal": 2,
          "reset_on_complete": True, "disable_on_complete": False, "window": 2, "timeout": 3, "steps": 0,
          "start_enabled": False, "controls": []},
         [["count"], ["enable"], ["disable"], ["reset"], ["adv", 1], ["adv", 2]], 4),
        ({"kind": "counter", "where": "machine", "start": 3, "interval": 2, "down": True, "goal": 0,
          "reset_on_complete": False, "disable_on_complete": True, "window": 1, "timeout": 2, "steps": 0,
          "start_enabled": False, "controls": [["add", 2]]},
         [["count"], ["enable"], ["restart"], ["add", 2], ["adv", 1], ["adv", 2]], 4),
        ({"kind": "sequence", "where": "machine", "start": 0, "interval": 1, "down": False, "goal": None,
          "reset_on_complete": True, "disable_on_complete": True, "window": 0, "timeout": 2, "steps": 2,
          "start_enabled": False},
         [["hit", 0], ["hit", 1], ["enable"], ["reset"], ["adv", 1], ["adv", 2]], 4),
        ({"kind": "accrual", "where": "machine", "start": 0, "interval": 1, "down": False, "goal": None,
          "reset_on_complete": False, "disable_on_complete": False, "window": 0, "timeout": 2, "steps": 2,
          "start_enabled": False},
         [["hit", 0], ["hit", 1], ["enable"], ["disable"], ["adv", 1], ["adv", 2]], 4),
        # delayed count / disable against window and timeout: every coincidence of the four deadlines
        ({"kind": "counter", "where": "machine", "start": 0, "interval": 1, "down": False, "goal": 2,
          "reset_on_complete": True, "disable_on_complete": False, "window": 2, "timeout": 2, "steps": 0,
          "start_enabled": False, "controls": [], "delays": {"count": 2, "disable": 1}},
         [["count"], ["enable"], ["dpost", "count"], ["dpost", "disable"], ["adv", 1], ["adv", 2]], 4),
    ]
    for cfg, alpha, L in spaces:
        for n in range(1, L + 1):
            for seq in itertools.product(alpha, repeat=n):
                run_case(ctx, model, cfg, [list(o) for o in seq], sample=False)
                total += 1
    ctx.notes["exhaustive_subspace"] = ("all %d op sequences of length <= 4 over 6-symbol alphabets (1- and 2-tick "
                                        "advances) for 5 fixed configurations (3 counters - one with delayed count / disable events -, "
                                        "sequence, accrual)" % total)


def fine_case(ctx, r):
    """oracle only, 1 ms resolution around the two deadlines: one millisecond before the window edge a hit is still
    ignored and one after it is accepted; the timeout fires neither a millisecond early nor late"""
    cfg = {"kind": "counter", "where": "machine", "start": r.choice([0, 3]), "interval": r.choice([1, 2]),
           "down": r.random() < 0.3, "goal": None, "reset_on_complete": True, "disable_on_complete": False,
           "window": r.choice([1, 2, 3, 5]), "timeout": r.choice([0, 7, 8, 11]), "steps": 0, "start_enabled": False,
           "controls": []}
    case = {"fine": True, "cfg": cfg}
    ctx.evaluated(case, True, sample=False)
    ctx.count("fine_cases")
    real = RealBlock(cfg)
    try:
        vm, dev = real.vm, real.dev
        delta = -abs(cfg["interval"]) if cfg["down"] else abs(cfg["interval"])
        real.op(["enable"])
        real.op(["count"])
        v1 = dev.value
        vm.advance(cfg["window"] * TICK - 0.001)
        real.op(["count"])
        early = dev.value
        vm.advance(0.002)
        real.op(["count"])
        late = dev.value
        if v1 != cfg["start"] + delta or early != v1:
            ctx.fail("counter:window-early", case, {"after_first": v1, "1ms_before_edge": early})
        elif late != v1 + delta:
            ctx.fail("counter:window-late", case, {"1ms_after_edge": late, "expected": v1 + delta})
        if cfg["timeout"]:
            real.op(["restart"])
            real.observe()
            vm.advance(cfg["timeout"] * TICK - 0.001)
            before = real.observe()
            vm.advance(0.002)
            after = real.observe()
            if " T" in before:
                ctx.fail("counter:timeout-early", case, {"1ms_before": before})
            elif " T" not in after:
                ctx.fail("counter:timeout-late", case, {"1ms_after": after})
    except InfraError:
        raise
    except BaseException as e:
        ctx.fail("counter:crash-fine:%s" % type(e).__name__, case, {"error": repr(e)})
    finally:
        real.close()


def run(ctx):
    model = None if getattr(ctx, "model_unavailable", False) else leanproc.LeanProc(ID)
    try:
        for cfg, ops in CORPUS:
            run_case(ctx, model, cfg, ops)
        if ctx.tier == "thorough" and not ctx.search:
            exhaustive(ctx, model)
        for i in range(ctx.n(600, 4000)):
            r = ctx.rng("case", i)
            cfg = gen_cfg(r)
            ops = gen_ops(r, cfg, r.randint(6, 28))
            run_case(ctx, model, cfg, ops)
        for flavour, nq, nt in (("delay", 220, 1600), ("tmpl", 90, 900), ("ctl", 70, 500), ("steps", 90, 900), ("down", 50, 500)):
            for i in range(ctx.n(nq, nt)):
                r = ctx.rng(flavour, i)
                cfg = gen_cfg(r, None, flavour)
                ops = gen_ops(r, cfg, r.randint(6, 28))
                run_case(ctx, model, cfg, ops)
        for i in range(ctx.n(110, 900)):
            r = ctx.rng("game", i)
            cfg = gen_game_cfg(r)
            ops = gen_ops(r, cfg, r.randint(8, 24))
            run_case(ctx, model, cfg, ops)
        for i in range(ctx.n(40, 400)):
            fine_case(ctx, ctx.rng("fine", i))
        sm_c18.run(ctx, model, ctx.n(120, 1000))          # state machine devices: comparison + counters only
        for i in range(ctx.n(60, 800)):
            r = ctx.rng("mode", i)
            cfg = gen_cfg(r, "mode")
            ops = gen_ops(r, cfg, r.randint(6, 20))
            run_case(ctx, model, cfg, ops)
    finally:
        if model is not None:
            model.close()


def replay(ctx, rep):
    case = rep["case"]
    if case.get("fine"):
        class _R:
            def __init__(self, vals):
                self.vals = list(vals)
            def choice(self, xs):
                return self.vals.pop(0)
            def random(self):
                return self.vals.pop(0)
        c = case["cfg"]
        fine_case(ctx, _R([c["start"], c["interval"], 0.0 if c["down"] else 1.0, c["window"], c["timeout"]]))
        return
    cfg, ops = case["cfg"], case["ops"]
    failure, _, _ = execute(cfg, ops, None)
    if failure is not None:
        ctx.fail(failure[0], case, {"at_op": failure[1], "implementation": failure[2], "expected": failure[3]})
