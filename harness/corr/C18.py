"""C18 - logic blocks count, accrue and sequence exactly as specified.

Implementation side: real Counter / Accrual / Sequence devices on a real machine (machine-wide, or owned by a non-game
mode that is started and stopped), driven by their configured events on the 1/8 s grid.
Model side: MpfVerif.Model.LogicBlock through the compiled driver, one op per line.
Oracle (model independent): RefBlock below - the property statement as an executable reference (accepted hit = enabled
and outside the hit window; one hit event per accepted hit; completion once, at the step reaching the goal, then
reset / disable as configured; window and timeout as absolute deadlines) - plus the value ledger recomputed from the
events the real device posted.
"""
import itertools

from harness.common import leanproc
from harness.common.shrink import ddmin
from harness.common.util import InfraError

ID = "C18"
LEAN_MODULES = ["MpfVerif.Props.C18"]
PROPS_FILE = "MpfVerif/Props/C18.lean"
GEN = []
MANIFEST = {
  "text": "Proof on a Lean model of Counter / Accrual / Sequence (enabled, completed, value, hit-window deadline, timeout deadline; full configuration: direction, interval, start and completion value, reset/disable on complete, hit window, timeout; ops count, step hit, enable, disable, reset, restart, add, subtract, jump, clock tick, mode stop/start), for ALL configurations and ALL op sequences by induction: the counter value equals the ledger start + interval*direction*(accepted hits since the last reset) (+ explicit add/subtract/jump), a hit is accepted and posts exactly one hit event iff the block is enabled and outside its window, the completion event is posted exactly once per completion and exactly at the step that reaches the goal while not completed, after it the block is reset and/or disabled as configured, an accrual completes on any order of its steps and a sequence only on the strict order, and a hit window always reopens at its deadline. The model is tied to mpf/devices/logic_blocks.py by a correspondence run on real devices (machine-wide and inside a non-game mode) on the 1/8 s grid, comparing value/enabled/completed and every posted logicblock_*_hit/_complete/_updated/timeout event with its arguments after every op.",
  "note": "Trusted: Lean kernel + {propext, Classical.choice, Quot.sound}; the hand-written model Model/LogicBlock.lean (validated only by the differential run); DelayManager/clock (C13), event dispatch order (C01) and the mode lifecycle (C07) are used, not verified here. persist_state (player-stored state) and delayed control events (event|ms) are outside the model. Hits are not guarded by `completed` in the code (a completed, still enabled counter keeps counting): the statement follows the code and the property text (enabled and outside the window).",
  "technique": "Lean 4 theorems (case analysis per step + induction over the op list, trace ledger) on a hand model + differential correspondence with real devices and an independent Python reference oracle",
  "translated": False,
}
RULE = ("a case = one block configuration (kind, start, interval, direction, goal, reset/disable on complete, window, "
        "timeout in 1/8 s ticks, steps, machine-wide or mode-owned) + 6-28 ops (count / step hit / enable / disable / "
        "reset / restart / add / subtract / jump / advance n ticks / mode stop / mode start) biased to the window edge, "
        "the timeout instant and goals 1-4 hits away; non-trivial = at least one hit was rejected (disabled or inside "
        "the window), a completion happened, or a timeout fired; distinct = canonical JSON of (config, ops); plus an "
        "oracle-only stream probing both deadlines 1 ms early and 1 ms late")
TRUSTED = [
    "Model/LogicBlock.lean is hand-written; tied to mpf/devices/logic_blocks.py by correspondence on every run",
    "modelled, not verified: DelayManager + clock (deadline = now + ms/1000 on the dyadic grid), event queue order, "
    "mode start/stop (handlers removed, device_removed_from_mode called), template_int evaluation of constants",
]
ASSUMPTIONS = ["persist_state: false; control events without a delay; constant (non-placeholder) starting_count / "
               "count_complete_value / control values; times on the 1/8 s grid",
               "machine-wide blocks with a timeout are configured with enable_events (boot is not on the grid)"]

TICK = 0.125
NAME = "blk"


# ---------------------------------------------------------------------------------------------------------------------
# independent reference (the property statement, executable)
# ---------------------------------------------------------------------------------------------------------------------
class RefBlock:
    """Deadline-based reference: processes time by jumping from deadline to deadline (not tick by tick)."""

    def __init__(self, cfg):
        self.c = cfg
        k = cfg["kind"]
        self.n = cfg["steps"]
        iv = cfg["interval"]
        self.delta = -abs(iv) if cfg["down"] else abs(iv)
        self.now = 0
        self.loaded = True
        self.enabled = cfg["start_enabled"]
        self.completed = False
        self.value = self.fresh()
        self.window_end = None
        self.timeout_at = None
        self.ev = []
        self.kind = k

    def fresh(self):
        k = self.c["kind"]
        return self.c["start"] if k == "counter" else ([False] * self.c["steps"] if k == "accrual" else 0)

    def shown(self):
        return "".join("1" if b else "0" for b in self.value) if self.kind == "accrual" else str(self.value)

    def post_updated(self):
        self.ev.append("U:%s:%d" % (self.shown(), 1 if self.enabled else 0))

    def arm(self):
        if self.c["timeout"]:
            self.timeout_at = self.now + self.c["timeout"]

    def do_reset(self):
        self.completed = False
        self.value = self.fresh()
        self.post_updated()
        self.arm()

    def do_enable(self):
        self.enabled = True
        self.post_updated()
        self.arm()

    def do_disable(self):
        self.enabled = False
        self.post_updated()
        self.timeout_at = None

    def reached(self):
        g = self.c["goal"]
        if self.kind == "counter":
            if g is None:
                return False
            return self.value <= g if self.c["down"] else self.value >= g
        if self.kind == "accrual":
            return all(self.value)
        return self.value >= self.n

    def maybe_complete(self):
        if not self.reached() or self.completed:
            return
        self.completed = True
        self.timeout_at = None
        self.ev.append("C")
        if self.c["reset_on_complete"]:
            self.do_reset()
        if self.c["disable_on_complete"]:
            self.do_disable()

    def op(self, op):
        self.ev = []
        name = op[0]
        if name == "adv":
            self.advance(op[1])
        elif not self.loaded:
            if name == "load":
                self.loaded = True
                self.enabled = False
                self.completed = False
                self.value = self.fresh()
                self.window_end = self.timeout_at = None
                if self.c["start_enabled"]:
                    self.do_enable()
                self.post_updated()
        elif name == "count":
            accepted = self.enabled and self.window_end is None
            if accepted:
                self.value += self.delta
                self.post_updated()
                g = self.c["goal"]
                if g is None:
                    self.ev.append("H:%d" % self.value)
                else:
                    done = (self.c["start"] - self.value) if self.c["down"] else (self.value - self.c["start"])
                    left = (self.value - g) if self.c["down"] else (g - self.value)
                    self.ev.append("H:%d:%d:%d" % (self.value, done, left))
                self.maybe_complete()
                if self.c["window"]:
                    self.window_end = self.now + self.c["window"]
        elif name == "hit":
            k = op[1]
            if self.enabled:
                if self.kind == "accrual":
                    if not self.value[k]:
                        self.value = self.value[:k] + [True] + self.value[k + 1:]
                        self.post_updated()
                        self.ev.append("S:%d" % k)
                    self.maybe_complete()
                elif k == self.value:
                    self.value += 1
                    self.post_updated()
                    self.ev.append("S:%d" % self.value)
                    self.maybe_complete()
        elif name == "enable":
            self.do_enable()
        elif name == "disable":
            self.do_disable()
        elif name == "reset":
            self.do_reset()
        elif name == "restart":
            self.do_reset()
            self.do_enable()
        elif name in ("add", "sub", "set"):
            self.value = op[1] if name == "set" else (self.value + op[1] if name == "add" else self.value - op[1])
            self.post_updated()
            self.maybe_complete()
        elif name == "unload":
            self.loaded = False
            self.window_end = self.timeout_at = None
        elif name == "load":
            pass
        else:
            raise InfraError("unknown op %r" % (op,))
        return self.line()

    def advance(self, n):
        end = self.now + n
        while True:
            due = [d for d in (self.window_end, self.timeout_at) if d is not None and d <= end]
            if not due:
                break
            t = min(due)
            self.now = t
            if self.window_end == t:
                self.window_end = None
            if self.timeout_at == t:
                self.timeout_at = None
                self.ev.append("T")
                self.do_reset()
        self.now = end

    def line(self):
        if not self.loaded:
            return "unloaded |"
        return "v=%s e=%d c=%d |%s" % (self.shown(), 1 if self.enabled else 0, 1 if self.completed else 0,
                                       "".join(" " + e for e in self.ev))


# ---------------------------------------------------------------------------------------------------------------------
# real device
# ---------------------------------------------------------------------------------------------------------------------
def ms(ticks):
    return "%dms" % (ticks * 125)


def block_yaml(cfg):
    k = cfg["kind"]
    L = ["%s:" % {"counter": "counters", "accrual": "accruals", "sequence": "sequences"}[k], "  %s:" % NAME]
    if not cfg["start_enabled"] or cfg["where"] == "mode":
        L.append("    enable_events: %s_enable" % NAME)
    if cfg["where"] == "mode":
        L.append("    start_enabled: %s" % ("true" if cfg["start_enabled"] else "false"))
    L += ["    disable_events: %s_disable" % NAME, "    reset_events: %s_reset" % NAME,
          "    restart_events: %s_restart" % NAME,
          "    reset_on_complete: %s" % ("true" if cfg["reset_on_complete"] else "false"),
          "    disable_on_complete: %s" % ("true" if cfg["disable_on_complete"] else "false")]
    if cfg["timeout"]:
        L.append("    logic_block_timeout: %s" % ms(cfg["timeout"]))
    if k == "counter":
        L += ["    count_events: %s_count" % NAME, "    starting_count: %d" % cfg["start"],
              "    count_interval: %d" % cfg["interval"], "    direction: %s" % ("down" if cfg["down"] else "up")]
        if cfg["goal"] is not None:
            L.append("    count_complete_value: %d" % cfg["goal"])
        if cfg["window"]:
            L.append("    multiple_hit_window: %s" % ms(cfg["window"]))
        ctl = cfg.get("controls", [])
        if ctl:
            L.append("    control_events:")
            for act, v in ctl:
                L += ["      - action: %s" % {"add": "add", "sub": "subtract", "set": "jump"}[act],
                      "        event: %s" % ctl_event(act, v), "        value: %d" % v]
    else:
        L.append("    events:")
        for i in range(cfg["steps"]):
            evs = ["%s_s%d" % (NAME, i)]
            for j, grp in enumerate(cfg.get("shared", [])):
                if i in grp:
                    evs.append("%s_sh%d" % (NAME, j))
            L.append("      - %s" % ", ".join(evs))
    return "\n".join(L) + "\n"


def ctl_event(act, v):
    return "%s_%s_%s" % (NAME, act, ("m%d" % -v) if v < 0 else str(v))


class RealBlock:
    def __init__(self, cfg):
        from harness.common.vmachine import VMachine
        self.cfg = cfg
        body = block_yaml(cfg)
        if cfg["where"] == "mode":
            mode = "mode:\n  start_events: m1_start\n  stop_events: m1_stop\n  game_mode: false\n" + body
            self.vm = VMachine("modes:\n  - m1\n", modes={"m1": mode})
        else:
            self.vm = VMachine(body)
        from harness.common.vmachine import BootError
        for attempt in range(3):    # the test scaffolding has a wall-clock boot limit; a loaded host can trip it
            try:
                self.vm.start()
                break
            except BootError as e:
                if "Start took more than" not in str(e) or attempt == 2:
                    raise InfraError("boot failed: %s" % e)
                self.vm = VMachine("modes:\n  - m1\n", modes={"m1": mode}) if cfg["where"] == "mode" else VMachine(body)
        self.vm.align()
        self.log = []
        m = self.vm.machine
        self.dev = {"counter": m.counters, "accrual": m.accruals, "sequence": m.sequences}[cfg["kind"]][NAME]
        for ev, tag in (("logicblock_%s_updated" % NAME, "U"), ("logicblock_%s_hit" % NAME, "H"),
                        ("logicblock_%s_complete" % NAME, "C"), ("%s_timeout" % NAME, "T")):
            m.events.add_handler(ev, self._make(tag))

    def _make(self, tag):
        def handler(**kwargs):
            self.log.append((tag, kwargs))
        return handler

    def fmt_value(self, v):
        if isinstance(v, list):
            return "".join("1" if b else "0" for b in v)
        return str(v)

    def fmt_event(self, tag, kw):
        if tag == "U":
            return "U:%s:%d" % (self.fmt_value(kw.get("value")), 1 if kw.get("enabled") else 0)
        if tag == "H":
            if "step" in kw:
                return "S:%s" % kw["step"] + "".join(":?%s" % k for k in sorted(kw) if k != "step")
            s = "H:%s" % kw.get("count")
            if "hits" in kw or "remaining" in kw:
                s += ":%s:%s" % (kw.get("hits"), kw.get("remaining"))
            return s + "".join(":?%s" % k for k in sorted(kw) if k not in ("count", "hits", "remaining"))
        return tag + "".join(":?%s" % k for k in sorted(kw))

    def observe(self):
        d = self.dev
        evs = "".join(" " + self.fmt_event(t, kw) for t, kw in self.log)
        self.log = []
        if d._state is None:
            return "unloaded |" + evs
        return "v=%s e=%d c=%d |%s" % (self.fmt_value(d.value), 1 if d.enabled else 0, 1 if d.completed else 0, evs)

    def op(self, op):
        """apply one op on the real machine; returns the observation line or 'crash <Type>'"""
        vm = self.vm
        name = op[0]
        try:
            if name == "adv":
                vm.advance(op[1] * TICK)
            elif name == "hit":
                vm.post("%s_s%d" % (NAME, op[1]))
                vm.run()
            elif name == "shared":
                vm.post("%s_sh%d" % (NAME, op[1]))
                vm.run()
            elif name in ("add", "sub", "set"):
                vm.post(ctl_event(name, op[1]))
                vm.run()
            elif name == "load":
                vm.post("m1_start")
                vm.run()
                if self.cfg["where"] == "mode" and not vm.machine.modes["m1"].active:
                    raise InfraError("mode m1 did not start")
            elif name == "unload":
                vm.post("m1_stop")
                vm.run()
                if self.cfg["where"] == "mode" and vm.machine.modes["m1"].active:
                    raise InfraError("mode m1 did not stop")
            else:
                vm.post("%s_%s" % (NAME, name))
                vm.run()
        except InfraError:
            raise
        except BaseException as e:  # an exception escaping MPF is an observation
            cause = e
            while getattr(cause, "__cause__", None) is not None:
                cause = cause.__cause__
            self.log = []
            return "crash %s" % type(cause).__name__
        return self.observe()

    def close(self):
        self.vm.stop()


# ---------------------------------------------------------------------------------------------------------------------
# generators
# ---------------------------------------------------------------------------------------------------------------------
def gen_cfg(r, where=None):
    kind = r.choice(["counter", "counter", "counter", "accrual", "sequence"])
    where = where or ("mode" if r.random() < 0.12 else "machine")
    cfg = {"kind": kind, "where": where, "start": 0, "interval": 1, "down": False, "goal": None,
           "reset_on_complete": r.random() < 0.6, "disable_on_complete": r.random() < 0.5,
           "window": 0, "timeout": r.choice([0, 0, 0, 2, 3, 4, 8]), "steps": 0, "start_enabled": r.random() < 0.3}
    if kind == "counter":
        cfg["down"] = r.random() < 0.4
        cfg["interval"] = r.choice([1, 1, 1, 2, 3, -1, -2, 0])
        cfg["start"] = r.choice([0, 0, 1, 5, -3, 10])
        delta = -abs(cfg["interval"]) if cfg["down"] else abs(cfg["interval"])
        g = r.random()
        if g < 0.15:
            cfg["goal"] = None
        elif g < 0.8:
            cfg["goal"] = cfg["start"] + delta * r.choice([1, 2, 2, 3, 4]) + r.choice([0, 0, 0, 1, -1])
        elif g < 0.9:
            cfg["goal"] = cfg["start"]            # already met at the start value
        else:
            cfg["goal"] = cfg["start"] - delta * 2 - (1 if not cfg["down"] else -1)  # behind the start: met at once
        cfg["window"] = r.choice([0, 0, 1, 2, 3, 4])
        vals = sorted({r.choice([1, 2, 3, -1, -2, 0]) for _ in range(2)})
        cfg["controls"] = [["add", v] for v in vals] + [["sub", r.choice([1, 2, -1])]] + \
                          [["set", v] for v in sorted({cfg["start"], cfg["goal"] if cfg["goal"] is not None else 7,
                                                       (cfg["goal"] or 0) - delta})]
        if r.random() < 0.3:
            cfg["controls"] = []
    else:
        cfg["steps"] = r.choice([1, 2, 3, 3, 4])
        if kind == "sequence" and cfg["steps"] >= 2 and r.random() < 0.35:
            i = r.randrange(cfg["steps"] - 1)
            cfg["shared"] = [[i, i + 1]] if r.random() < 0.7 else [[0, cfg["steps"] - 1]]
    if where == "machine" and cfg["timeout"]:
        cfg["start_enabled"] = False
    return cfg


def gen_ops(r, cfg, n):
    kind = cfg["kind"]
    ops = []
    loaded = cfg["where"] != "mode"
    if not loaded:
        ops.append(["load"])
        loaded = True
    has_enable = cfg["where"] == "mode" or not cfg["start_enabled"]
    if not cfg["start_enabled"] and r.random() < 0.85:
        ops.append(["enable"])
    w, t = cfg["window"], cfg["timeout"]
    edges = [x for x in {w, w - 1, t, t - 1, max(t - w, 0), 1} if x > 0]
    while len(ops) < n:
        x = r.random()
        if x < 0.45:
            if kind == "counter":
                ops.append(["count"])
                if r.random() < 0.3:
                    ops.append(["count"])
            elif kind == "sequence" and cfg.get("shared") and r.random() < 0.3:
                ops.append(["shared", 0])
            else:
                # mostly the step a sequence waits for / an unset accrual step, sometimes any step
                ops.append(["hit", r.randrange(cfg["steps"])])
        elif x < 0.7:
            ops.append(["adv", r.choice(edges) if r.random() < 0.8 else r.randint(1, 9)])
        elif x < 0.78 and kind == "counter" and cfg.get("controls"):
            c = r.choice(cfg["controls"])
            ops.append([c[0], c[1]])
        elif x < 0.84:
            # a machine-wide block that starts enabled has no enable event (only restart enables it again)
            ops.append(["enable"] if has_enable else ["restart"])
        elif x < 0.89:
            ops.append(["disable"])
        elif x < 0.93:
            ops.append(["reset"])
        elif x < 0.96:
            ops.append(["restart"])
        elif cfg["where"] == "mode":
            ops.append(["unload"] if loaded else ["load"])
            loaded = not loaded
            if not loaded and r.random() < 0.7:
                ops.append(["adv", r.choice(edges)])
                if r.random() < 0.5:
                    ops.append(["load"])
                    loaded = True
    return ops


# ---------------------------------------------------------------------------------------------------------------------
# one case
# ---------------------------------------------------------------------------------------------------------------------
def model_cfg_line(cfg):
    b = lambda x: "1" if x else "0"
    return "cfg %s %d %d %s %s %s %s %d %d %d %s" % (
        cfg["kind"], cfg["start"], cfg["interval"], b(cfg["down"]), "-" if cfg["goal"] is None else cfg["goal"],
        b(cfg["reset_on_complete"]), b(cfg["disable_on_complete"]), cfg["window"], cfg["timeout"], cfg["steps"],
        b(cfg["start_enabled"]))


def expand(cfg, op):
    """a harness op as the list of model/reference ops it stands for"""
    if op[0] == "shared":
        return [["hit", k] for k in sorted(cfg["shared"][op[1]], reverse=True)]  # higher step = higher priority first
    return [op]


def merge(lines):
    """several observation lines of one posted event: last state, all events"""
    if len(lines) == 1:
        return lines[0]
    if any(l == "bad-op" or l.startswith("crash") for l in lines):
        return " / ".join(lines)
    return lines[-1].split(" |")[0] + " |" + "".join(l.split(" |", 1)[1] for l in lines)


def model_ask(model, cfg, op):
    out = []
    for o in expand(cfg, op):
        out.append(model.ask(" ".join(str(x) for x in o)))
    return merge(out)


def ref_ask(ref, cfg, op):
    return merge([ref.op(o) for o in expand(cfg, op)])


def classify(cfg, op, impl, want):
    """signature of an oracle failure: kind + first differing aspect"""
    k = cfg["kind"]
    if impl.startswith("crash"):
        where = "unloaded-" if want.startswith("unloaded") else ""
        return "%s:crash-%s%s:%s" % (k, where, op[0], impl.split(" ")[1])
    si, ei = impl.split(" |", 1)
    sw, ew = want.split(" |", 1)
    evi, evw = ei.split(), ew.split()
    for tag, nm in (("C", "complete-events"), ("H", "hit-events"), ("S", "hit-events"), ("T", "timeout-events")):
        if [e for e in evi if e.startswith(tag)] != [e for e in evw if e.startswith(tag)]:
            return "%s:%s" % (k, nm)
    if si != sw:
        di = dict(x.split("=") for x in si.split() if "=" in x)
        dw = dict(x.split("=") for x in sw.split() if "=" in x)
        for key, nm in (("v", "value"), ("e", "enabled"), ("c", "completed")):
            if di.get(key) != dw.get(key):
                return "%s:%s" % (k, nm)
        return "%s:state" % k
    if sorted(evi) != sorted(evw):
        return "%s:updated-events" % k
    return "%s:event-order" % k


class Ledger:
    """the value ledger of Props/C18 `counter_value`, recomputed from the events the REAL device posted"""

    def __init__(self, cfg):
        self.c = cfg
        self.delta = -abs(cfg["interval"]) if cfg["down"] else abs(cfg["interval"])
        self.base, self.hits = cfg["start"], 0

    def step(self, op, impl):
        if impl.startswith("crash") or impl.startswith("unloaded"):
            return None
        st, ev = impl.split(" |", 1)
        evs = ev.split()
        name = op[0]
        if name == "count":
            self.hits += sum(1 for e in evs if e.startswith("H"))
        elif name == "add":
            self.base += op[1]
        elif name == "sub":
            self.base -= op[1]
        elif name == "set":
            self.base, self.hits = op[1], 0
        if name in ("reset", "restart", "load") or "T" in evs or ("C" in evs and self.c["reset_on_complete"]):
            self.base, self.hits = self.c["start"], 0
        return self.base + self.delta * self.hits


def execute(cfg, ops, model=None, stop_at_first=True):
    """Run ops on a fresh real device, the reference and (optionally) the model.
    Returns (oracle_failure or None, comparisons [(op_index, impl, model)], branch flags)."""
    real = RealBlock(cfg)
    ref = RefBlock(cfg)
    led = Ledger(cfg) if cfg["kind"] == "counter" else None
    failure = None
    comps = []
    flags = set()
    try:
        if model is not None:
            a = model.ask(model_cfg_line(cfg))
            if not a.startswith("ok"):
                raise InfraError("model rejected cfg: %r -> %r" % (cfg, a))
        if cfg["where"] == "mode":
            ref.op(["unload"])
            if model is not None:
                model.ask("unload")
        first = real.observe()
        want0 = ref.line()
        if first.split(" |")[0] != want0.split(" |")[0]:
            failure = ("%s:initial-state" % cfg["kind"], -1, first, want0)
        for i, op in enumerate(ops):
            impl = real.op(op)
            want = ref_ask(ref, cfg, op)
            if model is not None:
                comps.append((i, impl, model_ask(model, cfg, op)))
            evs = want.split(" |", 1)[1].split()
            if "C" in evs:
                flags.add("completion")
            if "T" in evs:
                flags.add("timeout")
            if op[0] in ("count", "hit", "shared") and not any(e[0] in "HS" for e in evs) and not want.startswith("unloaded"):
                flags.add("rejected-hit")
            if want.startswith("unloaded"):
                flags.add("unloaded")
            if impl != want and failure is None:
                failure = (classify(cfg, op, impl, want), i, impl, want)
            if led is not None and failure is None:
                lv = led.step(op, impl)
                if lv is not None and ("v=%d " % lv) not in impl:
                    failure = ("counter:value-ledger", i, impl, "ledger value %d" % lv)
            if impl.startswith("crash") or (failure is not None and stop_at_first):
                break
    finally:
        real.close()
    return failure, comps, flags


def run_case(ctx, model, cfg, ops, sample=True):
    case = {"cfg": cfg, "ops": ops}
    failure, comps, flags = execute(cfg, ops, model)
    ctx.evaluated(case, bool(flags & {"completion", "timeout", "rejected-hit"}), sample=sample)
    for op in ops:
        ctx.count("op_" + op[0])
    for f in flags:
        ctx.count("branch_" + f)
    ctx.count("kind_" + cfg["kind"])
    ctx.count("where_" + cfg["where"])
    for i, impl, mod in comps:
        ctx.compare(dict(case, at=i, op=ops[i]), impl, mod)
    if failure is not None:
        sig = failure[0]

        def fails(sub):
            f, _, _ = execute(cfg, sub, None)
            return f is not None and f[0] == sig
        small = ddmin(ops[:failure[1] + 1], fails, max_tests=120) if failure[1] >= 0 else []
        f2, _, _ = execute(cfg, small, None)
        if f2 is None or f2[0] != sig:
            small, f2 = ops[:failure[1] + 1], failure
        ctx.fail(sig, {"cfg": cfg, "ops": small}, {"at_op": f2[1], "op": small[f2[1]] if f2[1] >= 0 else None,
                                                   "implementation": f2[2], "expected": f2[3]})
    return failure


D13_CFG = {"kind": "counter", "where": "mode", "start": 0, "interval": 1, "down": False, "goal": 3,
           "reset_on_complete": True, "disable_on_complete": True, "window": 0, "timeout": 8, "steps": 0,
           "start_enabled": True, "controls": [["add", 3]]}
CORPUS = [
    # D13: timeout pending when the mode stops
    (D13_CFG, [["load"], ["count"], ["unload"], ["adv", 8], ["load"], ["count"]]),
    # window pending when the mode stops: must be open again after the next start
    (dict(D13_CFG, timeout=0, window=4), [["load"], ["count"], ["unload"], ["adv", 1], ["load"], ["count"], ["adv", 4], ["count"]]),
    # control event of a mode counter while its mode is not running
    (D13_CFG, [["add", 3], ["load"], ["add", 3], ["unload"], ["add", 3], ["adv", 8]]),
    # hit exactly at the window edge and one tick before; timeout exactly at its instant
    ({"kind": "counter", "where": "machine", "start": 2, "interval": 1, "down": False, "goal": 4, "reset_on_complete": True,
      "disable_on_complete": True, "window": 2, "timeout": 8, "steps": 0, "start_enabled": False, "controls": []},
     [["enable"], ["count"], ["adv", 1], ["count"], ["adv", 1], ["count"], ["enable"], ["adv", 7], ["count"], ["adv", 1], ["adv", 8]]),
    # completed and still enabled counter keeps counting; completion only once
    ({"kind": "counter", "where": "machine", "start": 0, "interval": 2, "down": True, "goal": -4, "reset_on_complete": False,
      "disable_on_complete": False, "window": 0, "timeout": 0, "steps": 0, "start_enabled": True,
      "controls": [["set", 0], ["add", -6]]},
     [["count"], ["count"], ["count"], ["set", 0], ["add", -6], ["reset"], ["add", -6], ["add", -6]]),
    ({"kind": "accrual", "where": "machine", "start": 0, "interval": 1, "down": False, "goal": None, "reset_on_complete": True,
      "disable_on_complete": False, "window": 0, "timeout": 4, "steps": 3, "start_enabled": False},
     [["hit", 1], ["enable"], ["hit", 2], ["hit", 2], ["hit", 0], ["adv", 4], ["hit", 1], ["hit", 0], ["hit", 2], ["hit", 1]]),
    ({"kind": "sequence", "where": "machine", "start": 0, "interval": 1, "down": False, "goal": None, "reset_on_complete": False,
      "disable_on_complete": False, "window": 0, "timeout": 0, "steps": 3, "start_enabled": True, "shared": [[0, 1]]},
     [["hit", 1], ["shared", 0], ["shared", 0], ["hit", 0], ["hit", 2], ["hit", 2], ["reset"], ["hit", 0]]),
]


def exhaustive(ctx, model):
    """thorough tier: every op sequence of length <= L over a small alphabet with 1- and 2-tick advances"""
    total = 0
    spaces = [
        ({"kind": "counter", "where": "machine", "start": 0, "interval": 1, "down": False, "goal": 2,
          "reset_on_complete": True, "disable_on_complete": False, "window": 2, "timeout": 3, "steps": 0,
          "start_enabled": False, "controls": []},
         [["count"], ["enable"], ["disable"], ["reset"], ["adv", 1], ["adv", 2]], 4),
        ({"kind": "counter", "where": "machine", "start": 3, "interval": 2, "down": True, "goal": 0,
          "reset_on_complete": False, "disable_on_complete": True, "window": 1, "timeout": 2, "steps": 0,
          "start_enabled": False, "controls": [["add", 2]]},
         [["count"], ["enable"], ["restart"], ["add", 2], ["adv", 1], ["adv", 2]], 4),
        ({"kind": "sequence", "where": "machine", "start": 0, "interval": 1, "down": False, "goal": None,
          "reset_on_complete": True, "disable_on_complete": True, "window": 0, "timeout": 2, "steps": 2,
          "start_enabled": False},
         [["hit", 0], ["hit", 1], ["enable"], ["reset"], ["adv", 1], ["adv", 2]], 4),
        ({"kind": "accrual", "where": "machine", "start": 0, "interval": 1, "down": False, "goal": None,
          "reset_on_complete": False, "disable_on_complete": False, "window": 0, "timeout": 2, "steps": 2,
          "start_enabled": False},
         [["hit", 0], ["hit", 1], ["enable"], ["disable"], ["adv", 1], ["adv", 2]], 4),
    ]
    for cfg, alpha, L in spaces:
        for n in range(1, L + 1):
            for seq in itertools.product(alpha, repeat=n):
                run_case(ctx, model, cfg, [list(o) for o in seq], sample=False)
                total += 1
    ctx.notes["exhaustive_subspace"] = ("all %d op sequences of length <= 4 over 6-symbol alphabets (1- and 2-tick "
                                        "advances) for 4 fixed configurations (2 counters, sequence, accrual)" % total)


def fine_case(ctx, r):
    """oracle only, 1 ms resolution around the two deadlines: one millisecond before the window edge a hit is still
    ignored and one after it is accepted; the timeout fires neither a millisecond early nor late"""
    cfg = {"kind": "counter", "where": "machine", "start": r.choice([0, 3]), "interval": r.choice([1, 2]),
           "down": r.random() < 0.3, "goal": None, "reset_on_complete": True, "disable_on_complete": False,
           "window": r.choice([1, 2, 3, 5]), "timeout": r.choice([0, 7, 8, 11]), "steps": 0, "start_enabled": False,
           "controls": []}
    case = {"fine": True, "cfg": cfg}
    ctx.evaluated(case, True, sample=False)
    ctx.count("fine_cases")
    real = RealBlock(cfg)
    try:
        vm, dev = real.vm, real.dev
        delta = -abs(cfg["interval"]) if cfg["down"] else abs(cfg["interval"])
        real.op(["enable"])
        real.op(["count"])
        v1 = dev.value
        vm.advance(cfg["window"] * TICK - 0.001)
        real.op(["count"])
        early = dev.value
        vm.advance(0.002)
        real.op(["count"])
        late = dev.value
        if v1 != cfg["start"] + delta or early != v1:
            ctx.fail("counter:window-early", case, {"after_first": v1, "1ms_before_edge": early})
        elif late != v1 + delta:
            ctx.fail("counter:window-late", case, {"1ms_after_edge": late, "expected": v1 + delta})
        if cfg["timeout"]:
            real.op(["restart"])
            real.observe()
            vm.advance(cfg["timeout"] * TICK - 0.001)
            before = real.observe()
            vm.advance(0.002)
            after = real.observe()
            if " T" in before:
                ctx.fail("counter:timeout-early", case, {"1ms_before": before})
            elif " T" not in after:
                ctx.fail("counter:timeout-late", case, {"1ms_after": after})
    except InfraError:
        raise
    except BaseException as e:
        ctx.fail("counter:crash-fine:%s" % type(e).__name__, case, {"error": repr(e)})
    finally:
        real.close()


def run(ctx):
    model = None if getattr(ctx, "model_unavailable", False) else leanproc.LeanProc(ID)
    try:
        for cfg, ops in CORPUS:
            run_case(ctx, model, cfg, ops)
        if ctx.tier == "thorough" and not ctx.search:
            exhaustive(ctx, model)
        for i in range(ctx.n(900, 8000)):
            r = ctx.rng("case", i)
            cfg = gen_cfg(r)
            ops = gen_ops(r, cfg, r.randint(6, 28))
            run_case(ctx, model, cfg, ops)
        for i in range(ctx.n(40, 400)):
            fine_case(ctx, ctx.rng("fine", i))
        for i in range(ctx.n(60, 800)):
            r = ctx.rng("mode", i)
            cfg = gen_cfg(r, "mode")
            ops = gen_ops(r, cfg, r.randint(6, 20))
            run_case(ctx, model, cfg, ops)
    finally:
        if model is not None:
            model.close()


def replay(ctx, rep):
    case = rep["case"]
    if case.get("fine"):
        class _R:
            def __init__(self, vals):
                self.vals = list(vals)
            def choice(self, xs):
                return self.vals.pop(0)
            def random(self):
                return self.vals.pop(0)
        c = case["cfg"]
        fine_case(ctx, _R([c["start"], c["interval"], 0.0 if c["down"] else 1.0, c["window"], c["timeout"]]))
        return
    cfg, ops = case["cfg"], case["ops"]
    failure, _, _ = execute(cfg, ops, None)
    if failure is not None:
        ctx.fail(failure[0], case, {"at_op": failure[1], "implementation": failure[2], "expected": failure[3]})
