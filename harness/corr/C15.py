"""C15 - Persistent data is durable, never torn, survives write failures (DataManager writer thread + FileManager.save).

Implementation side: a real mpf.core.data_manager.DataManager whose REAL `_writing_thread` runs in a real thread
(started by the real __init__), saving through the real FileManager.save / YamlInterface.save / os.replace into a real
file.  Its blocking points -- time.sleep, thread_stopper.is_set, _dirty.wait/clear/is_set, copy.deepcopy, the YAML
interface's save, os.replace -- are patched *in the harness process* into rendezvous with a scheduler that plays a
generated interleaving of save_all / shutdown / thread steps, injects I/O errors (before or after a partial write of
the temp file, at the rename) and crashes (the thread is abandoned at that point), and parses the file after every step.
Model side: MpfVerif.Model.Writer (driver drv_c15).
Oracle (model independent): after every step the file parses and equals the start-up content or one saved value; after
shutdown and thread exit (no injected fault) it equals the last saved value; after injected failures a later save is on
disk within one writer cycle.
"""
import os
import tempfile
import threading
import time as real_time
import copy as real_copy
import os as real_os
from types import SimpleNamespace

from harness.common import leanproc, util
from harness.common.shrink import ddmin
from harness.common.util import InfraError

ID = "C15"
LEAN_MODULES = ["MpfVerif.Props.C15"]
PROPS_FILE = "MpfVerif/Props/C15.lean"
GEN = []
MANIFEST = {
  "text": "Proof on a Lean model of the data-manager writer thread (program counter over its blocking points: sleep, stop check, dirty wait, busy spin, clear, deep copy, temp-file write, rename, final flush) composed with an environment that calls save_all, requests shutdown, makes the temp-file write or the rename fail, or crashes the process at any point: (1) after every interleaving the file content is the start-up content or one of the values handed to save_all (temp file then atomic rename) - never torn; (2) in fault-free runs, whenever the thread has exited with the dirty flag clear the file equals the last saved value, and from every state reached before shutdown the thread exits within 12 of its own steps after shutdown with the file equal to the last saved value (final flush); (3) in every crash-free run FileManager.is_busy is clear whenever the thread is outside FileManager.save, and after any number of failed writes/renames a later save_all is on disk within 10 thread steps. The model is tied to mpf/core/data_manager.py + file_manager.py by running the real _writing_thread in a real thread under a scheduler that plays generated interleavings with injected I/O errors and crashes and parses the file after every step.",
  "note": "Trusted: Lean kernel + {propext, Classical.choice, Quot.sound}; the hand-written model Model/Writer.lean (validated only by differential runs); atomicity of os.replace; ruamel.yaml dump/load; the rendezvous patches (time.sleep, threading.Event methods, copy.deepcopy, the YAML interface's save, os.replace) that turn the real thread's blocking points into scheduler steps. Not covered: power loss without fsync, several data managers racing on the unsynchronised global is_busy flag, shutdown() not joining the thread, machine-variable expiry/reload; a failed write is not retried (its value stays unwritten until the next save_all).",
  "technique": "Lean 4 theorems (invariants over all interleavings by induction on the op list, bounded-progress by case analysis on the program counter) + differential correspondence with the real writer thread under a deterministic scheduler",
  "translated": False,
 }
RULE = ("cases: random interleavings of 6-30 ops over save_all(v) / thread step / injected failure at the temp-file write "
        "(before anything is written, or after half of the YAML text) or at the rename / shutdown / crash (thread "
        "abandoned at its current blocking point, incl. half-written temp file), followed by a wedge tail (fresh save + 10 "
        "thread steps) and a shutdown tail (shutdown + 12 thread steps) where applicable; payloads are nested dicts "
        "(str/int/float/bool/None/list) so a half-written file never equals a saved value. non-trivial = the thread "
        "completed at least one write or a fault was injected; distinct = the op list")
TRUSTED = [
    "Model/Writer.lean is hand-written; tied to mpf/core/data_manager.py (_writing_thread, save_all) and "
    "mpf/core/file_manager.py (save) by correspondence on every run",
    "modelled, not verified: os.replace is atomic; ruamel.yaml round-trips the generated payloads; threading.Event; "
    "the harness-process patches that make the real thread rendezvous with the scheduler at its blocking points",
    "a stub machine object (config paths, thread_stopper) around the real DataManager",
]
ASSUMPTIONS = [
    "one data manager / one writer thread (FileManager.is_busy is an unsynchronised global shared by all of them)",
    "crash = the process stops at a blocking point of the writer thread; torn sectors / missing fsync are out of scope",
    "Event.wait(1) returning False is modelled as a step taken while the flag is clear",
]


class Crash(BaseException):
    """the process dies here (never caught by the code under test)"""


class Sched:
    def __init__(self):
        self.cv = threading.Condition()
        self.gen = 0
        self.at = None
        self.cmd = None
        self.cmd_gen = -1
        self.tid = None
        self.exc = None

    # ---- writer-thread side
    def point(self, name):
        with self.cv:
            self.gen += 1
            g = self.gen
            self.at = name
            self.cv.notify_all()
            while self.cmd_gen != g:
                self.cv.wait()
            cmd = self.cmd
            self.at = None
        if cmd == "crash":
            raise Crash()
        return cmd

    def finish(self, how, exc=None):
        with self.cv:
            self.gen += 1
            self.at = how
            self.exc = exc
            self.cv.notify_all()

    # ---- scheduler side
    def parked(self, timeout=20):
        with self.cv:
            if not self.cv.wait_for(lambda: self.at is not None, timeout):
                raise InfraError("writer thread did not reach a blocking point")
            return self.at

    def release(self, cmd="go", timeout=20):
        with self.cv:
            g = self.gen
            self.cmd = cmd
            self.cmd_gen = g
            self.cv.notify_all()
            if not self.cv.wait_for(lambda: self.gen > g, timeout):
                raise InfraError("writer thread did not come back after %r" % cmd)
            return self.at


CUR = None
_installed = False


def _mine():
    s = CUR
    return s if s is not None and threading.get_ident() == s.tid else None


class TimeShim:
    def __getattr__(self, n):
        return getattr(real_time, n)

    def sleep(self, secs):
        s = _mine()
        if s is None:
            return real_time.sleep(secs)
        s.point("spin" if secs == 0.2 else "sleep")
        return None


class CopyShim:
    def __getattr__(self, n):
        return getattr(real_copy, n)

    def deepcopy(self, x, *a):
        return real_copy.deepcopy(x, *a)


class OsShim:
    def __getattr__(self, n):
        return getattr(real_os, n)

    def replace(self, a, b):
        s = _mine()
        if s is not None:
            cmd = s.point("ren")
            if cmd == "fail":
                raise OSError(5, "injected I/O error at rename")
        return real_os.replace(a, b)


class YamlShim:
    def __init__(self, real):
        self.real = real

    def __getattr__(self, n):
        return getattr(self.real, n)

    def save(self, filename, data):
        s = _mine()
        if s is None:
            return self.real.save(filename, data)
        cmd = s.point("wr")
        if cmd in ("fail-partial", "crash-partial"):
            tmp = filename + ".full"
            self.real.save(tmp, data)
            text = open(tmp, encoding="utf8").read()
            real_os.remove(tmp)
            with open(filename, "w", encoding="utf8") as f:
                f.write(text[:max(1, len(text) // 2)])
            if cmd == "crash-partial":
                raise Crash()
            raise OSError(28, "injected: no space left on device")
        if cmd == "fail":
            raise OSError(5, "injected I/O error at write")
        return self.real.save(filename, data)


class Stopper:
    def __init__(self):
        self.flag = False

    def is_set(self):
        s = _mine()
        if s is not None:
            s.point("chk")
        return self.flag

    def set(self):
        self.flag = True


class HookEvent:
    """stands in for DataManager._dirty; the real flag lives in `self.ev`"""

    def __init__(self):
        self.ev = threading.Event()

    def set(self):
        self.ev.set()

    def wait(self, timeout=None):
        s = _mine()
        if s is None:
            return self.ev.wait(timeout)
        s.point("wait")
        return self.ev.is_set()      # a wait that times out while the flag is clear

    def clear(self):
        s = _mine()
        if s is not None:
            s.point("clr")
        self.ev.clear()

    def is_set(self):
        s = _mine()
        if s is not None:
            s.point("isset")
        return self.ev.is_set()


def install():
    global _installed
    if _installed:
        return
    import mpf.core.data_manager as dmmod
    import mpf.core.file_manager as fmmod
    fmmod.FileManager.init()
    dmmod.time = TimeShim()
    dmmod.copy = CopyShim()
    fmmod.os = OsShim()
    fmmod.FileManager.file_interfaces[".yaml"] = YamlShim(fmmod.FileManager.file_interfaces[".yaml"])
    _installed = True


def payload(i):
    return {"id": i, "name": "value-%d" % i, "scores": [i, i * 2, {"k": "x" * (i % 7 + 1)}], "ratio": i / 4.0,
            "flag": i % 2 == 0, "nothing": None, "nested": {"a": {"b": [str(i)] * 3}}}


class Rig:
    """one real DataManager with its real writer thread parked at its first blocking point"""

    def __init__(self, initial_file=True):
        global CUR
        install()
        import mpf.core.data_manager as dmmod
        from mpf.core.file_manager import FileManager
        self.FileManager = FileManager
        FileManager.is_busy = False
        self.dir = tempfile.mkdtemp(prefix="dm-", dir=util.private_tmp())
        self.path = os.path.join(self.dir, "data", "vars.yaml")
        self.values = {0: payload(0) if initial_file else None}
        if initial_file:
            os.makedirs(os.path.dirname(self.path))
            import ruamel.yaml
            y = ruamel.yaml.YAML(typ="safe")
            with open(self.path, "w", encoding="utf8") as f:
                y.dump(self.values[0], f)
        self.sched = Sched()
        CUR = self.sched
        sched = self.sched
        self.stopper = Stopper()
        machine = SimpleNamespace(
            config={"logging": {"console": {"data_manager": "none"}, "file": {"data_manager": "none"}},
                    "mpf": {"paths": {"vars": self.path}}},
            machine_path=self.dir, thread_stopper=self.stopper, options={"production": False})

        slot = dmmod.DataManager.__dict__["data"]

        class DM(dmmod.DataManager):
            # the thread's read of self.data (the argument of copy.deepcopy) is a scheduling point
            def _get_data(self):
                s = _mine()
                if s is not None:
                    s.point("cpy")
                return slot.__get__(self, DM)

            def _set_data(self, v):
                slot.__set__(self, v)

            data = property(_get_data, _set_data)

            def _writing_thread(self):
                sched.tid = threading.get_ident()
                try:
                    super()._writing_thread()
                except Crash:
                    sched.finish("dead")
                except BaseException as e:     # an exception ends the real thread too
                    sched.finish("dead", repr(e))
                else:
                    sched.finish("done")

        self.dm = DM(machine, "vars", min_wait_secs=1)
        if self.sched.parked() != "sleep":
            raise InfraError("writer thread did not start at its initial sleep")
        self.dirty = HookEvent()
        self.dm._dirty = self.dirty        # the thread is parked before its first use of _dirty
        self.loaded = self.dm.data
        self.over = False
        self.parsed = {}

    def disk(self):
        """('absent',) | ('value', id) | ('torn', text)"""
        if not os.path.exists(self.path):
            return ("absent",)
        text = open(self.path, encoding="utf8").read()
        if text in self.parsed:
            return self.parsed[text]
        self.parsed[text] = r = self._classify(text)
        return r

    def _classify(self, text):
        import ruamel.yaml
        try:
            v = ruamel.yaml.YAML(typ="safe").load(text)
        except Exception as e:
            return ("torn", "unparseable: " + repr(e)[:80] + " / " + text[:60])
        for i, p in self.values.items():
            if p is not None and v == p:
                return ("value", i)
        return ("torn", "not a saved value: " + text[:80])

    def observe(self):
        d = self.disk()
        disk = "0" if d[0] == "absent" else str(d[1]) if d[0] == "value" else "torn"
        data = [i for i, p in self.values.items() if p == self.dm.data or (p is None and self.dm.data == {})]
        at = self.sched.at
        return "pc=%s disk=%s dirty=%d busy=%d data=%s" % (
            at, disk, 1 if self.dirty.ev.is_set() else 0, 1 if self.FileManager.is_busy else 0,
            str(max(data)) if data else "?")

    def apply(self, op):
        """returns the observation line, or 'not-enabled'"""
        k = op[0]
        at = self.sched.at
        if k == "save":
            self.values[op[1]] = payload(op[1])
            self.dm.save_all(payload(op[1]))
        elif k == "shutdown":
            self.stopper.set()
        elif k == "step":
            if at in ("done", "dead"):
                return "not-enabled"
            self.sched.release("go")
        elif k == "fail":
            if at not in ("wr", "ren"):
                return "not-enabled"
            self.sched.release("fail-partial" if (at == "wr" and op[1]) else "fail")
        elif k == "crash":
            if at in ("done", "dead"):
                return "not-enabled"
            self.over = True
            self.sched.release("crash-partial" if (at == "wr" and op[1]) else "crash")
        return self.observe()

    def close(self):
        global CUR
        # let the thread run off the end so that no thread is left behind
        self.stopper.set()
        for _ in range(60):
            if self.sched.at in ("done", "dead"):
                break
            self.sched.release("crash")
        CUR = None
        self.FileManager.is_busy = False
        import shutil
        shutil.rmtree(self.dir, ignore_errors=True)


# ----------------------------------------------------------------------------------------------- generator
def gen_ops(r):
    ops = []
    n = 0
    faults = r.random() < 0.6
    for _ in range(r.randint(6, 30)):
        k = r.random()
        if k < 0.22:
            n += 1
            ops.append(["save", n])
        elif k < 0.24:
            ops.append(["shutdown"])
        elif k < 0.25 and faults:
            ops.append(["crash", r.random() < 0.6])
            break
        elif k < 0.40 and faults:
            ops.append(["fail", r.random() < 0.5])
        else:
            ops.append(["step"])
    return ops


def run_case(ops, model=None, initial_file=True, tails=True):
    """plays the ops on the real thread; returns dict(obs=[...], verdicts=[(signature, detail)], cmp=[(op, impl, model)])"""
    rig = Rig(initial_file)
    out = {"obs": [], "verdicts": [], "cmp": [], "writes": 0, "faults": 0, "played": []}
    try:
        if model is not None:
            model.ask("reset")
        last_saved = 0
        stopped = False
        injected = False
        next_id = 1000

        def play(op):
            nonlocal last_saved, stopped, injected
            before = rig.sched.at
            line = rig.apply(op)
            mline = None
            if model is not None:
                mline = model.ask(" ".join([op[0]] + ([str(op[1])] if op[0] == "save" else [])))
            if line == "not-enabled":
                if mline is not None:
                    out["cmp"].append((op, line, mline))
                return
            out["played"].append(op)
            if op[0] == "save":
                last_saved = op[1]
            elif op[0] == "shutdown":
                stopped = True
            elif op[0] in ("fail", "crash"):
                injected = True
                out["faults"] += 1
            if op[0] == "step" and before == "ren":
                out["writes"] += 1
            out["obs"].append(line)
            d = rig.disk()
            if d[0] == "torn" or (d[0] == "absent" and initial_file):
                out["verdicts"].append(("disk-torn", {"after": op, "at": before, "disk": d[-1] if d[0] == "torn" else "absent"}))
            if rig.sched.at == "dead" and before != "dead" and rig.sched.exc and op[0] not in ("crash", "fail"):
                out["verdicts"].append(("writer-thread-died", {"after": op, "exception": rig.sched.exc}))
            if mline is not None and op[0] != "crash":
                out["cmp"].append((op, line, mline))
            elif mline is not None:
                out["cmp"].append((op, line.split(" ")[1], mline.split(" ")[1]))   # after a crash only the file matters

        for op in ops:
            if rig.over:
                break
            play(op)
        wedge_tail = False
        if tails and not rig.over and rig.sched.at != "dead":
            if not stopped and rig.sched.at != "done":
                wedge_tail = True
                play(["save", next_id])
                for _ in range(10):
                    play(["step"])
                d = rig.disk()
                if d != ("value", next_id):
                    out["verdicts"].append(("save-not-written-after-failure" if injected else "save-not-written",
                                            {"saved": next_id, "disk": d, "thread_at": rig.sched.at,
                                             "is_busy": rig.FileManager.is_busy}))
            play(["shutdown"])
            for _ in range(12):
                play(["step"])
            d = rig.disk()
            if rig.sched.at != "done":
                out["verdicts"].append(("thread-does-not-exit", {"thread_at": rig.sched.at, "exc": rig.sched.exc}))
            elif not injected or wedge_tail:
                want = ("value", last_saved) if (last_saved or initial_file) else ("absent",)
                if d != want and not rig.dirty.ev.is_set():
                    out["verdicts"].append(("not-flushed-on-shutdown", {"last_saved": last_saved, "disk": d}))
        return out
    finally:
        rig.close()


def one_case(ctx, model, ops, initial_file=True, tag=None):
    case = {"kind": "interleaving", "ops": ops, "initial_file": initial_file}
    out = run_case(ops, model, initial_file)
    ctx.evaluated(case, out["writes"] > 0 or out["faults"] > 0)
    for op in out["played"]:
        ctx.count("op_" + op[0])
    ctx.count("completed_writes", out["writes"])
    ctx.count("injected_faults", out["faults"])
    if out["verdicts"]:
        sig, detail = out["verdicts"][0]
        small = ops
        if sig not in SHRUNK:     # shrink the first failure of each class only
            SHRUNK.add(sig)
            small = ddmin(ops, lambda o: any(s == sig for s, _ in run_case(o, None, initial_file)["verdicts"]), max_tests=80)
        ctx.fail(sig, dict(case, shrunk=small), detail)
    for op, impl, mdl in out["cmp"]:
        if not ctx.compare(dict(case, what="after %r" % (op,)), impl, mdl):
            break


SHRUNK = set()
D9_HISTORY = [["save", 1]] + [["step"]] * 7 + [["save", 2]] + [["step"]] * 7 + [["save", 3], ["shutdown"]]
D8_HISTORY = [["save", 1], ["step"], ["step"], ["step"], ["step"], ["step"], ["fail", False], ["step"], ["save", 2]]


def run(ctx):
    SHRUNK.clear()
    model = None if getattr(ctx, "model_unavailable", False) else leanproc.LeanProc(ID)
    try:
        one_case(ctx, model, D9_HISTORY)
        one_case(ctx, model, D8_HISTORY)
        one_case(ctx, model, [["save", 1]] + [["step"]] * 5 + [["crash", True]])
        one_case(ctx, model, [["save", 1]] + [["step"]] * 6 + [["crash", False]])
        for i in range(ctx.n(500, 8000)):
            r = ctx.rng("il", i)
            one_case(ctx, model, gen_ops(r), initial_file=r.random() < 0.8)
    finally:
        if model is not None:
            model.close()


def replay(ctx, rep):
    case = rep["case"]
    out = run_case(case.get("shrunk") or case["ops"], None, case.get("initial_file", True))
    if not out["verdicts"]:
        out = run_case(case["ops"], None, case.get("initial_file", True))
    for sig, detail in out["verdicts"][:1]:
        ctx.fail(sig, case, detail)
