"""C15 - Persistent data is durable, never torn, survives write failures (DataManager writer thread + FileManager.save).

Implementation side: a real mpf.core.data_manager.DataManager whose REAL `_writing_thread` runs in a real thread
(started by the real __init__), saving through the real FileManager.save / YamlInterface.save / os.replace into a real
file.  Its blocking points -- time.sleep, thread_stopper.is_set, _dirty.wait/clear/is_set, copy.deepcopy, the YAML
interface's save, os.replace -- are patched *in the harness process* into rendezvous with a scheduler that plays a
generated interleaving of save_all / shutdown / thread steps, injects I/O errors (before or after a partial write of
the temp file, at the rename) and crashes (the thread is abandoned at that point), and parses the file after every step.
Model side: MpfVerif.Model.Writer (driver drv_c15).
Oracle (model independent): after every step the file parses and equals the start-up content or one saved value; after
shutdown and thread exit (no injected fault) it equals the last saved value; after injected failures a later save is on
disk within one writer cycle.
"""
import os
import tempfile
import threading
import time as real_time
import copy as real_copy
import os as real_os
from types import SimpleNamespace

from harness.common import leanproc, util
from harness.common.shrink import ddmin
from harness.common.util import InfraError

ID = "C15"
LEAN_MODULES = ["MpfVerif.Props.C15"]
PROPS_FILE = "MpfVerif/Props/C15.lean"
GEN = []
MANIFEST = {
  "text": "Proof on a Lean model of the data-manager writer thread (program counter over its blocking points: sleep, stop check, dirty wait, busy spin, clear, read of the data, temp-file write, rename, final flush) composed with an environment that calls save_all, requests shutdown, makes the temp-file write or the rename fail, or crashes the process at any point: (1) after every interleaving the file content is the start-up content or one of the values handed to save_all (temp file then atomic rename) - never torn; (2) in fault-free runs, whenever the thread has exited with the dirty flag clear the file equals the last saved value, and from every state reached before shutdown the thread exits within 12 of its own steps after shutdown with the file equal to the last saved value (final flush); (3) in every crash-free run FileManager.is_busy is clear whenever the thread is outside FileManager.save, and after any number of failed writes/renames a later save_all is on disk within 10 thread steps; (4) the (name, value) pairs reloaded at the next boot from the machine-variable file are exactly the variables marked persistent, unaltered, whose expiry time is unset or not before the boot time. The models are tied to mpf/core/data_manager.py + file_manager.py by running the real _writing_thread in a real thread under a scheduler that plays generated interleavings with injected I/O errors and crashes and parses the file after every step (plus a real reload by a fresh DataManager), and to machine_vars.py by differential runs of configure/set/remove/reboot histories through a real YAML file.",
  "note": "Trusted: Lean kernel + {propext, Classical.choice, Quot.sound}; the hand-written models Model/Writer.lean and Model/MachineVars.lean (validated only by differential runs); atomicity of os.replace; ruamel.yaml dump/load; the rendezvous patches (time.sleep, threading.Event methods, the read of DataManager.data, the YAML interface's save, os.replace) that turn the real thread's blocking points into scheduler steps. Not covered: power loss without fsync, several data managers racing on the unsynchronised global is_busy flag, shutdown() not joining the (daemon) writer thread, config-declared machine_vars sections; a failed write is not retried (its value stays unwritten until the next save_all); a reloaded variable loses its expiry until it is configured again.",
  "technique": "Lean 4 theorems (invariants over all interleavings by induction on the op list, bounded-progress by case analysis on the program counter) + differential correspondence with the real writer thread under a deterministic scheduler",
  "translated": False,
 }
RULE = ("cases: random interleavings of 6-30 ops over save_all(v) / thread step / injected failure at the temp-file write "
        "(before anything is written, or after half of the YAML text) or at the rename / shutdown / crash (thread "
        "abandoned at its current blocking point, incl. half-written temp file); a save hands over new content, content saved "
        "before (a retry) or a type variant of the last content (1 / True / 1.0: equal in Python, different on disk; all "
        "comparisons with the disk are type-strict); followed by a wedge tail (fresh save + 10 "
        "thread steps; after injected failures also once more with a retry of the SAME content) and a shutdown tail (shutdown + 12 thread steps) where applicable; payloads are nested dicts "
        "(str/int/float/bool/None/list) so a half-written file never equals a saved value; (b) machine-variable histories "
        "of 4-16 ops over configure(persist, expire_secs)/set(value incl. None)/remove/reboot at times chosen around the "
        "expiry instants (equal, +-1 s), every reboot going through a real YAML file. non-trivial = the thread completed "
        "at least one write or a fault was injected (a); a shutdown is either the bare thread_stopper or the machine's own stop "
        "sequence (the real MachineController._do_stop on a stub machine) whose 'shutdown' event handlers hand over further data "
        "(1-8 saves / thread steps) before the threads may be told to stop; injected write failures happen INSIDE the real YAML "
        "dump (the stream accepts half of the text and raises), an expiry or an intermediate reboot occurs (b); distinct = the "
        "op list")
TRUSTED = [
    "Model/Writer.lean is hand-written; tied to mpf/core/data_manager.py (_writing_thread, save_all) and "
    "mpf/core/file_manager.py (save) by correspondence on every run",
    "modelled, not verified: os.replace is atomic; ruamel.yaml round-trips the generated payloads; threading.Event; "
    "the harness-process patches that make the real thread rendezvous with the scheduler at its blocking points",
    "a stub machine object (config paths, thread_stopper, clock) around the real DataManager / MachineVariables",
    "Model/MachineVars.lean is hand-written; tied to mpf/core/machine_vars.py by correspondence on every run",
]
ASSUMPTIONS = [
    "one data manager / one writer thread (FileManager.is_busy is an unsynchronised global shared by all of them)",
    "crash = the process stops at a blocking point of the writer thread; torn sectors / missing fsync are out of scope",
    "Event.wait(1) returning False is modelled as a step taken while the flag is clear",
]


class Crash(BaseException):
    """the process dies here (never caught by the code under test)"""


class Sched:
    def __init__(self):
        self.cv = threading.Condition()
        self.gen = 0
        self.at = None
        self.cmd = None
        self.cmd_gen = -1
        self.tid = None
        self.exc = None

    # ---- writer-thread side
    def point(self, name):
        with self.cv:
            self.gen += 1
            g = self.gen
            self.at = name
            self.cv.notify_all()
            while self.cmd_gen != g:
                self.cv.wait()
            cmd = self.cmd
            self.at = None
        if cmd == "crash":
            raise Crash()
        return cmd

    def finish(self, how, exc=None):
        with self.cv:
            self.gen += 1
            self.at = how
            self.exc = exc
            self.cv.notify_all()

    # ---- scheduler side
    def parked(self, timeout=90):
        with self.cv:
            if not self.cv.wait_for(lambda: self.at is not None, timeout):
                raise InfraError("writer thread did not reach a blocking point")
            return self.at

    def release(self, cmd="go", timeout=90):
        with self.cv:
            g = self.gen
            self.cmd = cmd
            self.cmd_gen = g
            self.cv.notify_all()
            if not self.cv.wait_for(lambda: self.gen > g, timeout):
                raise InfraError("writer thread did not come back after %r" % cmd)
            return self.at


CUR = None
_installed = False


def _mine():
    s = CUR
    return s if s is not None and threading.get_ident() == s.tid else None


class TimeShim:
    def __getattr__(self, n):
        return getattr(real_time, n)

    def sleep(self, secs):
        s = _mine()
        if s is None:
            return real_time.sleep(secs)
        s.point("spin" if secs == 0.2 else "sleep")
        return None


class CopyShim:
    def __getattr__(self, n):
        return getattr(real_copy, n)

    def deepcopy(self, x, *a):
        return real_copy.deepcopy(x, *a)


class OsShim:
    def __getattr__(self, n):
        return getattr(real_os, n)

    def replace(self, a, b):
        s = _mine()
        if s is not None:
            cmd = s.point("ren")
            if cmd == "fail":
                raise OSError(5, "injected I/O error at rename")
        return real_os.replace(a, b)


class FailingStream:
    """a text stream that accepts `limit` characters and then raises on every further write"""

    def __init__(self, f, limit, exc):
        self.f, self.left, self.exc = f, limit, exc

    def write(self, text):
        if len(text) > self.left:
            if self.left > 0:
                self.f.write(text[:self.left])
                self.f.flush()
            self.left = 0
            raise self.exc
        self.left -= len(text)
        return self.f.write(text)

    def __getattr__(self, n):
        return getattr(self.f, n)

    def __enter__(self):
        return self

    def __exit__(self, *a):
        return self.f.__exit__(*a)


class FailingOpen:
    """`open` as seen by mpf.file_interfaces.yaml_interface: the armed file name gets a FailingStream"""
    armed = None

    @classmethod
    def arm(cls, filename, limit, exc):
        cls.armed = (filename, limit, exc)

    @classmethod
    def disarm(cls):
        cls.armed = None

    @classmethod
    def open(cls, file, mode="r", *a, **k):
        f = open(file, mode, *a, **k)
        if cls.armed and file == cls.armed[0] and "w" in mode:
            return FailingStream(f, cls.armed[1], cls.armed[2])
        return f


class YamlShim:
    def __init__(self, real):
        self.real = real

    def __getattr__(self, n):
        return getattr(self.real, n)

    def save(self, filename, data):
        s = _mine()
        if s is None:
            return self.real.save(filename, data)
        cmd = s.point("wr")
        if cmd in ("fail-partial", "crash-partial"):
            # the fault happens INSIDE the real YAML dump: the stream the interface opened accepts half of the text and
            # then raises (disk full) - what the interface and its (shared) dumper do with that is part of the code under test
            import io
            import ruamel.yaml
            buf = io.StringIO()
            y = ruamel.yaml.YAML(typ="safe")
            y.default_flow_style = False
            y.dump(data, buf)
            limit = max(1, len(buf.getvalue()) // 2)
            if cmd == "crash-partial":       # the process dies: what the dumper would do next does not matter
                with open(filename, "w", encoding="utf8") as f:
                    f.write(buf.getvalue()[:limit])
                raise Crash()
            FailingOpen.arm(filename, limit, OSError(28, "injected: no space left on device"))
            try:
                return self.real.save(filename, data)
            finally:
                FailingOpen.disarm()
        if cmd == "fail":
            raise OSError(5, "injected I/O error at write")
        return self.real.save(filename, data)


class Stopper:
    def __init__(self):
        self.flag = False

    def is_set(self):
        s = _mine()
        if s is not None:
            s.point("chk")
        return self.flag

    def set(self):
        self.flag = True


class HookEvent:
    """stands in for DataManager._dirty; the real flag lives in `self.ev`"""

    def __init__(self):
        self.ev = threading.Event()

    def set(self):
        self.ev.set()

    def wait(self, timeout=None):
        s = _mine()
        if s is None:
            return self.ev.wait(timeout)
        s.point("wait")
        return self.ev.is_set()      # a wait that times out while the flag is clear

    def clear(self):
        s = _mine()
        if s is not None:
            s.point("clr")
        self.ev.clear()

    def is_set(self):
        s = _mine()
        if s is not None:
            s.point("isset")
        return self.ev.is_set()


def install():
    global _installed
    if _installed:
        return
    import mpf.core.data_manager as dmmod
    import mpf.core.file_manager as fmmod
    fmmod.FileManager.init()
    dmmod.time = TimeShim()
    dmmod.copy = CopyShim()
    fmmod.os = OsShim()
    fmmod.FileManager.file_interfaces[".yaml"] = YamlShim(fmmod.FileManager.file_interfaces[".yaml"])
    import mpf.file_interfaces.yaml_interface as yimod
    yimod.open = FailingOpen.open          # the interface's `with open(...)` goes through the fault injector
    _installed = True


VARIANT = 500   # id i + VARIANT = the value of id i with the YAML TYPE of some leaves changed (== in Python, different on disk)


def payload(i):
    if i >= VARIANT:
        b = i - VARIANT
        p = payload(b)
        p["id"] = float(b)                       # 3 -> 3.0
        p["flag"] = 1 if p["flag"] else 0         # True -> 1
        p["scores"][0] = bool(b) if b in (0, 1) else float(b)
        return p
    return {"id": i, "name": "value-%d" % i, "scores": [i, i * 2, {"k": "x" * (i % 7 + 1)}], "ratio": i / 4.0,
            "flag": i % 2 == 0, "nothing": None, "nested": {"a": {"b": [str(i)] * 3}}}


def same(a, b):
    """equal as YAML values: same types all the way down (True != 1 != 1.0)"""
    if type(a) is not type(b):
        return False
    if isinstance(a, dict):
        return a.keys() == b.keys() and all(same(a[k], b[k]) for k in a)
    if isinstance(a, list):
        return len(a) == len(b) and all(same(x, y) for x, y in zip(a, b))
    return a == b


class Rig:
    """one real DataManager with its real writer thread parked at its first blocking point"""

    def __init__(self, initial_file=True):
        global CUR
        install()
        import mpf.core.data_manager as dmmod
        from mpf.core.file_manager import FileManager
        self.FileManager = FileManager
        FileManager.is_busy = False
        self.dir = tempfile.mkdtemp(prefix="dm-", dir=util.private_tmp())
        self.path = os.path.join(self.dir, "data", "vars.yaml")
        self.values = {0: payload(0) if initial_file else None}
        if initial_file:
            os.makedirs(os.path.dirname(self.path))
            import ruamel.yaml
            y = ruamel.yaml.YAML(typ="safe")
            with open(self.path, "w", encoding="utf8") as f:
                y.dump(self.values[0], f)
        self.sched = Sched()
        CUR = self.sched
        sched = self.sched
        self.stopper = Stopper()
        machine = SimpleNamespace(
            config={"logging": {"console": {"data_manager": "none"}, "file": {"data_manager": "none"}},
                    "mpf": {"paths": {"vars": self.path}}},
            machine_path=self.dir, thread_stopper=self.stopper, options={"production": False})

        slot = dmmod.DataManager.__dict__["data"]

        class DM(dmmod.DataManager):
            # the thread's read of self.data (the argument of copy.deepcopy) is a scheduling point
            def _get_data(self):
                s = _mine()
                if s is not None:
                    s.point("cpy")
                return slot.__get__(self, DM)

            def _set_data(self, v):
                slot.__set__(self, v)

            data = property(_get_data, _set_data)

            def _writing_thread(self):
                sched.tid = threading.get_ident()
                try:
                    super()._writing_thread()
                except Crash:
                    sched.finish("dead")
                except BaseException as e:     # an exception ends the real thread too
                    sched.finish("dead", repr(e))
                else:
                    sched.finish("done")

        self.dm = DM(machine, "vars", min_wait_secs=1)
        if self.sched.parked() != "sleep":
            raise InfraError("writer thread did not start at its initial sleep")
        self.dirty = HookEvent()
        self.dm._dirty = self.dirty        # the thread is parked before its first use of _dirty
        self.loaded = self.dm.data
        self.over = False
        self.parsed = {}

    def disk(self):
        """('absent',) | ('value', id) | ('torn', text)"""
        if not os.path.exists(self.path):
            return ("absent",)
        text = open(self.path, encoding="utf8").read()
        if text in self.parsed:
            return self.parsed[text]
        self.parsed[text] = r = self._classify(text)
        return r

    def _classify(self, text):
        import ruamel.yaml
        try:
            v = ruamel.yaml.YAML(typ="safe").load(text)
        except Exception as e:
            return ("torn", "unparseable: " + repr(e)[:80] + " / " + text[:60])
        for i, p in self.values.items():
            if p is not None and same(v, p):
                return ("value", i)
        return ("torn", "not a saved value: " + text[:80])

    def observe(self):
        d = self.disk()
        disk = "0" if d[0] == "absent" else str(d[1]) if d[0] == "value" else "torn"
        data = [i for i, p in self.values.items() if (p is not None and same(p, self.dm.data)) or (p is None and self.dm.data == {})]
        at = self.sched.at
        return "pc=%s disk=%s dirty=%d busy=%d data=%s" % (
            at, disk, 1 if self.dirty.ev.is_set() else 0, 1 if self.FileManager.is_busy else 0,
            str(max(data)) if data else "?")

    def apply(self, op, sub=None):
        """returns the observation line, or 'not-enabled'"""
        k = op[0]
        at = self.sched.at
        if k == "save":
            self.values[op[1]] = payload(op[1])
            self.dm.save_all(payload(op[1]))
        elif k == "shutdown":
            self.stopper.set()
        elif k == "mstop":
            # the machine's own stop sequence (the REAL MachineController._do_stop, run on a stub machine): the 'shutdown'
            # event is posted and processed - its handlers hand over data (the sub-ops, played through `sub`) - and only then
            # may the worker threads be told to stop
            from mpf.core.machine import MachineController
            import logging
            rig = self

            class Ev:
                def post(self, event, **kw):
                    pass

                def process_event_queue(self):
                    for o in op[1]:
                        sub(o)
            stub = SimpleNamespace(is_shutting_down=False, log=logging.getLogger("c15-stub"), events=Ev(),
                                   thread_stopper=self.stopper)
            # MachineController.shutdown itself (devices, platforms, sockets, loop) is outside C15: of it only the
            # thread_stopper.set() matters here
            stub.shutdown = lambda: rig.stopper.set()
            MachineController._do_stop(stub)
        elif k == "step":
            if at in ("done", "dead"):
                return "not-enabled"
            self.sched.release("go")
        elif k == "fail":
            if at not in ("wr", "ren"):
                return "not-enabled"
            self.sched.release("fail-partial" if (at == "wr" and op[1]) else "fail")
        elif k == "crash":
            if at in ("done", "dead"):
                return "not-enabled"
            self.over = True
            self.sched.release("crash-partial" if (at == "wr" and op[1]) else "crash")
        return self.observe()

    def close(self):
        global CUR
        # let the thread run off the end so that no thread is left behind
        self.stopper.set()
        for _ in range(60):
            if self.sched.at in ("done", "dead"):
                break
            self.sched.release("crash")
        CUR = None
        self.FileManager.is_busy = False
        import shutil
        shutil.rmtree(self.dir, ignore_errors=True)


def reboot_data(rig):
    """the next boot: a fresh real DataManager on the same path (real _load / FileManager.load / YamlInterface.load);
    its writer thread finds shutdown already requested and leaves at once"""
    import mpf.core.data_manager as dmmod
    st = Stopper()
    st.flag = True
    machine = SimpleNamespace(
        config={"logging": {"console": {"data_manager": "none"}, "file": {"data_manager": "none"}},
                "mpf": {"paths": {"vars": rig.path}}},
        machine_path=rig.dir, thread_stopper=st, options={"production": False})
    return dmmod.DataManager(machine, "vars", min_wait_secs=0).get_data()


# ----------------------------------------------------------------------------------------------- generator
def gen_ops(r):
    ops = []
    n = 0
    faults = r.random() < 0.6
    for _ in range(r.randint(6, 30)):
        k = r.random()
        if k < 0.22:
            x = r.random()
            if n and x < 0.12:
                ops.append(["save", r.randint(max(1, n - 2), n)])           # the same content again (e.g. a retry after a failed write)
            elif n and x < 0.22:
                ops.append(["save", n + VARIANT])                           # only the YAML type of some leaves changes
            else:
                n += 1
                ops.append(["save", n])
        elif k < 0.24:
            if r.random() < 0.5:
                ops.append(["shutdown"])
            else:
                # a machine stop whose 'shutdown' event handlers hand over data while the writer thread keeps running
                subs = []
                for _ in range(r.randint(1, 8)):
                    if r.random() < 0.35:
                        n += 1
                        subs.append(["save", n])
                    else:
                        subs.append(["step"])
                ops.append(["mstop", subs])
        elif k < 0.25 and faults:
            ops.append(["crash", r.random() < 0.6])
            break
        elif k < 0.45 and faults:
            ops.append(["fail", r.random() < 0.5])
        else:
            ops.append(["step"])
    return ops


def run_case(ops, model=None, initial_file=True, tails=True, tail_same=False):
    """plays the ops on the real thread; returns dict(obs=[...], verdicts=[(signature, detail)], cmp=[(op, impl, model)])"""
    rig = Rig(initial_file)
    out = {"obs": [], "verdicts": [], "cmp": [], "writes": 0, "faults": 0, "played": []}
    try:
        if model is not None:
            model.ask("reset")
        last_saved = 0
        stopped = False
        injected = False
        next_id = 1000

        def play(op):
            nonlocal last_saved, stopped, injected
            before = rig.sched.at
            line = rig.apply(op, play)
            mline = None
            if model is not None:
                mline = model.ask("shutdown" if op[0] == "mstop" else
                                  " ".join([op[0]] + ([str(op[1])] if op[0] == "save" else [])))
            if line == "not-enabled":
                if mline is not None:
                    out["cmp"].append((op, line, mline))
                return
            out["played"].append(op)
            if op[0] == "save":
                last_saved = op[1]
                if stopped:
                    out["save_after_stop"] = True
            elif op[0] in ("shutdown", "mstop"):
                stopped = True
            elif op[0] in ("fail", "crash"):
                injected = True
                out["faults"] += 1
            if op[0] == "step" and before == "ren":
                out["writes"] += 1
            out["obs"].append(line)
            d = rig.disk()
            if d[0] == "torn" or (d[0] == "absent" and initial_file):
                out["verdicts"].append(("disk-torn", {"after": op, "at": before, "disk": d[-1] if d[0] == "torn" else "absent"}))
            if rig.sched.at == "dead" and before != "dead" and rig.sched.exc and op[0] not in ("crash", "fail"):
                out["verdicts"].append(("writer-thread-died", {"after": op, "exception": rig.sched.exc}))
            if mline is not None and op[0] != "crash":
                out["cmp"].append((op, line, mline))
            elif mline is not None:
                il, ml = line.split(" "), mline.split(" ")   # after a crash only the file matters
                out["cmp"].append((op, il[1] if len(il) > 1 else line, ml[1] if len(ml) > 1 else mline))

        for op in ops:
            if rig.over:
                break
            play(op)
        wedge_tail = False
        if tails and not rig.over and rig.sched.at != "dead":
            if not stopped and rig.sched.at != "done":
                wedge_tail = True
                # tail_same: hand over the content saved last once more (a retry after a failed write) instead of new content
                tid = last_saved if (tail_same and last_saved) else next_id
                play(["save", tid])
                for _ in range(10):
                    play(["step"])
                d = rig.disk()
                if d != ("value", tid):
                    out["verdicts"].append(("save-not-written-after-failure" if injected else "save-not-written",
                                            {"saved": tid, "same_content_again": tid != next_id, "disk": d,
                                             "thread_at": rig.sched.at, "is_busy": rig.FileManager.is_busy}))
            play(["shutdown"])
            for _ in range(12):
                play(["step"])
            d = rig.disk()
            if rig.sched.at != "done":
                out["verdicts"].append(("thread-does-not-exit", {"thread_at": rig.sched.at, "exc": rig.sched.exc}))
            elif not injected or wedge_tail:
                want = ("value", last_saved) if (last_saved or initial_file) else ("absent",)
                if d != want and not out.get("save_after_stop"):
                    out["verdicts"].append(("not-flushed-on-shutdown", {"last_saved": last_saved, "disk": d}))
                elif not out.get("save_after_stop"):
                    back = reboot_data(rig)
                    if not same(back, rig.values.get(last_saved) or {}):
                        out["verdicts"].append(("reboot-loads-different-data", {"last_saved": last_saved,
                                                                                "loaded": repr(back)[:200]}))
        if rig.over:
            # after a crash the next boot must load the start-up content or one complete saved value
            back = reboot_data(rig)
            if not any(same(back, p or {}) for p in rig.values.values()):
                out["verdicts"].append(("reboot-after-crash-loads-torn-data", {"loaded": repr(back)[:200]}))
        return out
    finally:
        rig.close()


def one_case(ctx, model, ops, initial_file=True, tag=None):
    case = {"kind": "interleaving", "ops": ops, "initial_file": initial_file}
    out = run_case(ops, model, initial_file)
    ctx.evaluated(case, out["writes"] > 0 or out["faults"] > 0)
    for op in out["played"]:
        ctx.count("op_" + op[0])
    ctx.count("completed_writes", out["writes"])
    ctx.count("injected_faults", out["faults"])
    if out["verdicts"]:
        sig, detail = out["verdicts"][0]
        small = ops
        if sig not in SHRUNK:     # shrink the first failure of each class only
            SHRUNK.add(sig)
            small = ddmin(ops, lambda o: any(s == sig for s, _ in run_case(o, None, initial_file)["verdicts"]), max_tests=80)
        ctx.fail(sig, dict(case, shrunk=small), detail)
    for op, impl, mdl in out["cmp"]:
        if not ctx.compare(dict(case, what="after %r" % (op,)), impl, mdl):
            break
    if out["faults"] and not out["verdicts"]:
        # the same history once more, ending with a retry of the SAME content after the failure(s)
        out2 = run_case(ops, None, initial_file, tail_same=True)
        ctx.count("retry_same_content_tails")
        if out2["verdicts"]:
            sig, detail = out2["verdicts"][0]
            ctx.fail(sig, dict(case, tail_same=True), detail)


# ----------------------------------------------------------------------------------------------- machine variables
class CapDM:
    """stands in for the data manager between MachineVariables and the file: keeps what save_all was given"""

    def __init__(self, data=None):
        self.data = data or {}
        self.writes = 0

    def save_all(self, data):
        self.data = data
        self.writes += 1

    def get_data(self, section=None):
        return real_copy.copy(self.data)


class MvRig:
    def __init__(self):
        install()
        self.now = 0
        self.dir = tempfile.mkdtemp(prefix="mv-", dir=util.private_tmp())
        self.dm = CapDM()
        self.mv = self._new(self.dm, 0)

    def _new(self, dm, t):
        from mpf.core.machine_vars import MachineVariables
        rig = self
        clock = SimpleNamespace(get_datetime=lambda: SimpleNamespace(timestamp=lambda: float(rig.now)))
        machine = SimpleNamespace(
            config={"logging": {"console": {"machine_vars": "none"}, "file": {"machine_vars": "none"}},
                    "mpf": {"save_machine_vars_to_disk": True}},
            clock=clock, events=SimpleNamespace(post=lambda *a, **k: None), monitors={"machine_vars": []},
            options={"production": False})
        mv = MachineVariables(machine)
        mv.load_machine_vars(dm, float(t))
        return mv

    def observe(self):
        def oi(v):
            return "N" if v is None else str(int(v))
        vs = ["%s=%s:%d:%d:%s" % (n[1:], oi(v["value"]), 1 if v["persist"] else 0, v["expire_secs"] or 0, oi(v["timeout"]))
              for n, v in self.mv.machine_vars.items() if n[0] == "v" and n[1:].isdigit()]
        fl = ["%s=%s:%s" % (n[1:], oi(e["value"]), oi(e["expire"])) for n, e in self.dm.data.items()]
        return "vars" + "".join(" " + x for x in vs) + " file" + "".join(" " + x for x in fl)

    def apply(self, op, verdicts):
        k = op[0]
        w0 = self.dm.writes
        if k == "cfg":
            self.now = op[1]
            self.mv.configure_machine_var("v%d" % op[2], bool(op[3]), op[4] or None)
        elif k == "set":
            self.now = op[1]
            self.mv.set_machine_var("v%d" % op[2], op[3], bool(op[4]))
        elif k == "rm":
            self.mv.remove_machine_var("v%d" % op[1])
        elif k == "boot":
            from mpf.core.file_manager import FileManager
            path = os.path.join(self.dir, "machine_vars.yaml")
            FileManager.save(path, self.dm.data)
            data = FileManager.load(path, halt_on_error=False)
            if data != self.dm.data:
                verdicts.append(("machine-vars-yaml-roundtrip", {"written": repr(self.dm.data)[:200], "read": repr(data)[:200]}))
            before = {n: dict(e) for n, e in data.items()}
            self.now = op[1]
            self.dm = CapDM(data)
            self.mv = self._new(self.dm, op[1])
            for n, e in before.items():
                gone = bool(e.get("expire")) and e["expire"] < op[1]
                have = self.mv.is_machine_var(n)
                if gone == have or (have and (self.mv.get_machine_var(n) != e["value"]
                                              or type(self.mv.get_machine_var(n)) is not type(e["value"]))):
                    verdicts.append(("machine-var-not-reloaded", {"name": n, "entry": e, "boot_time": op[1],
                                                                  "present": have, "value": self.mv.get_machine_var(n)}))
            extra = [n for n in self.mv.machine_vars if n[0] == "v" and n[1:].isdigit() and n not in before]
            if extra:
                verdicts.append(("machine-var-not-reloaded", {"unexpected": extra}))
        if self.dm.writes > w0:
            want = {n: v["value"] for n, v in self.mv.machine_vars.items() if v["persist"]}
            got = {n: e["value"] for n, e in self.dm.data.items()}
            if want != got:
                verdicts.append(("machine-vars-file-not-persisted-subset", {"want": want, "got": got, "after": op}))
        return self.observe()

    def close(self):
        import shutil
        shutil.rmtree(self.dir, ignore_errors=True)


def gen_mv_ops(r):
    ops = []
    now = 100
    for _ in range(r.randint(4, 16)):
        now += r.choice([0, 1, 5, 10, 50])
        k = r.random()
        n = r.randint(1, 4)
        if k < 0.2:
            ops.append(["cfg", now, n, r.random() < 0.7, r.choice([0, 0, 10, 100])])
        elif k < 0.75:
            ops.append(["set", now, n, r.choice([None, 0, 1, 5, 5, -3, r.randint(-1000, 1000)]), r.random() < 0.5])
        elif k < 0.8:
            ops.append(["rm", n])
        else:
            now += r.choice([0, 5, 10, 11, 100, 101, 1000])
            ops.append(["boot", now])
    if r.random() < 0.35:
        # directed tail: a persistent variable whose expiry has passed while the machine kept running gets a NEW value (the
        # expiry restarts at that moment), nothing else is written afterwards, and the machine reboots shortly before /
        # at / after the restarted expiry - what is on disk must carry the restarted expiry, not the old one
        n, e = r.randint(1, 4), r.choice([10, 100])
        ops.append(["cfg", now, n, True, e])
        now += e + r.choice([1, 5, 50])
        ops.append(["set", now, n, r.randint(2000, 3000), False])
        now += e + r.choice([-5, -1, 0, 1])
        ops.append(["boot", now])
        return ops
    now += r.choice([0, 9, 10, 11, 100, 101])
    ops.append(["boot", now])
    return ops


def mv_line(op):
    def oi(v):
        return "N" if v is None else str(v)
    if op[0] == "cfg":
        return "cfg %d %d %d %d" % (op[1], op[2], 1 if op[3] else 0, op[4])
    if op[0] == "set":
        return "set %d %d %s %d" % (op[1], op[2], oi(op[3]), 1 if op[4] else 0)
    if op[0] == "rm":
        return "rm %d" % op[1]
    return "boot %d" % op[1]


def mv_canon(line):
    """machine_vars is a dict and the YAML dump sorts its keys: order carries no meaning"""
    if not line.startswith("vars"):
        return line
    a, b = line[4:].split(" file", 1)
    key = lambda tok: int(tok.split("=")[0])
    return "vars " + " ".join(sorted(a.split(), key=key)) + " file " + " ".join(sorted(b.split(), key=key))


def mv_run(ops, model=None):
    rig = MvRig()
    verdicts, cmp_ = [], []
    try:
        if model is not None:
            model.ask("mvreset")
        for op in ops:
            try:
                line = rig.apply(op, verdicts)
            except Exception as e:
                verdicts.append(("machine-vars-crash", {"after": op, "error": repr(e)}))
                break
            if model is not None:
                cmp_.append((op, mv_canon(line), mv_canon(model.ask(mv_line(op)))))
        # model-independent oracle for the directed tail [cfg(n, persistent, e) at C; set(n, NEW value) at T; boot at B]:
        # the set restarts the expiry, so on a boot before T + e the variable reloads with the value last set
        if len(ops) >= 3 and ops[-1][0] == "boot" and ops[-2][0] == "set" and ops[-3][0] == "cfg" \
                and ops[-3][2] == ops[-2][2] and ops[-3][3] and ops[-3][4] and not verdicts:
            n, e, t_set, v, b = ops[-2][2], ops[-3][4], ops[-2][1], ops[-2][3], ops[-1][1]
            if b < t_set + e:
                got = rig.mv.machine_vars.get("v%d" % n, {}).get("value", "<absent>")
                if got != v:
                    verdicts.append(("persistent-var-lost-before-expiry",
                                     {"var": n, "set_at": t_set, "value": v, "expire_secs": e, "boot_at": b, "reloaded": repr(got)}))
        return verdicts, cmp_
    finally:
        rig.close()


def mv_case(ctx, model, ops):
    case = {"kind": "machine-vars", "ops": ops}
    ctx.evaluated(case, any(o[0] == "boot" for o in ops[:-1]) or any(o[0] == "cfg" and o[4] for o in ops))
    for o in ops:
        ctx.count("mv_" + o[0])
    verdicts, cmp_ = mv_run(ops, model)
    if verdicts:
        sig = verdicts[0][0]
        small = ddmin(ops, lambda o: any(s == sig for s, _ in mv_run(o)[0]), max_tests=80)
        ctx.fail(sig, dict(case, shrunk=small), verdicts[0][1])
    for op, impl, mdl in cmp_:
        if not ctx.compare(dict(case, what="after %r" % (op,)), impl, mdl):
            break


SHRUNK = set()
D9_HISTORY = [["save", 1]] + [["step"]] * 7 + [["save", 2]] + [["step"]] * 7 + [["save", 3], ["shutdown"]]
D8_HISTORY = [["save", 1], ["step"], ["step"], ["step"], ["step"], ["step"], ["fail", False], ["step"], ["save", 2]]


def run(ctx):
    SHRUNK.clear()
    model = None if getattr(ctx, "model_unavailable", False) else leanproc.LeanProc(ID)
    try:
        one_case(ctx, model, D9_HISTORY)
        one_case(ctx, model, D8_HISTORY)
        one_case(ctx, model, [["save", 1]] + [["step"]] * 5 + [["crash", True]])
        one_case(ctx, model, [["save", 1]] + [["step"]] * 6 + [["crash", False]])
        for i in range(ctx.n(1200, 12000)):
            r = ctx.rng("il", i)
            one_case(ctx, model, gen_ops(r), initial_file=r.random() < 0.8)
        mv_case(ctx, model, [["cfg", 100, 1, True, 3600], ["set", 100, 1, 5, False], ["set", 100, 2, 9, False],
                             ["boot", 3700], ["boot", 3701]])
        for i in range(ctx.n(400, 6000)):
            mv_case(ctx, model, gen_mv_ops(ctx.rng("mv", i)))
    finally:
        if model is not None:
            model.close()


def replay(ctx, rep):
    case = rep["case"]
    if case["kind"] == "machine-vars":
        verdicts, _ = mv_run(case.get("shrunk") or case["ops"])
        for sig, detail in verdicts[:1]:
            ctx.fail(sig, case, detail)
        return
    ts = bool(case.get("tail_same"))
    out = run_case(case.get("shrunk") or case["ops"], None, case.get("initial_file", True), tail_same=ts)
    if not out["verdicts"]:
        out = run_case(case["ops"], None, case.get("initial_file", True), tail_same=ts)
    for sig, detail in out["verdicts"][:1]:
        ctx.fail(sig, case, detail)
