"""C01 - event dispatch is complete, priority-ordered and serial.

Implementation side: generated handler programs (data) are run through the public API (add_handler,
remove_handler_by_key, remove_all_handlers_for_event, post, post_boolean, post_relay) of the real EventManager on a
real machine (VMachine), started from four contexts: boot (direct call, drained by call_soon), a DelayManager
callback, an untimed switch handler, a timed switch handler (the last three exercise the "callers drain the queue"
sites of delays.py / switch_controller.py); posting from inside handlers and callbacks happens in every tree.
Model side: MpfVerif.Model.EventBus (literal stack-of-deques loop) through the compiled driver.
Oracle (model independent): a recursive reference interpreter (depth-first pre-order recursion over the posting tree,
callbacks LIFO when nothing is pending, stable descending priority, snapshot per dispatch, handler kwargs win, blocking
facilities, monitor reports, wait futures; it ends at the first exception) plus trace monitors (no nesting, dispatches
contiguous, every callback at most once, boolean stops, relay folds).  What the property does not state (what is lost
after an exception, futures, suffixed replace_handler keeping the old entry) is counted and compared with the model only.
Session 3: blocking_facility/_min_priority, raising handlers, 'ev.N' / 'ev{cond}' strings in add/replace_handler,
functools.partial callbacks, monitor_events, wait_for_any_event, translator tie Gen/EventFacts.lean.
"""
import json

from harness.common import leanproc
from harness.common.shrink import ddmin
from harness.common.util import InfraError

ID = "C01"
LEAN_MODULES = ["MpfVerif.Props.C01"]
PROPS_FILE = "MpfVerif/Props/C01.lean"


def _gen_event_facts():
    from translate import event_facts
    return event_facts.generate()


GEN = [_gen_event_facts]
MANIFEST = {
  "text": "Proof on a Lean model of the event bus (registry with add_handler / remove_handler_by_key / remove_all_handlers_for_event / replace_handler / remove_handler(method) / remove_handler_by_event, callbacks identified by their equality class (bound methods equal by value, functools.partial only equal to itself), _post incl. its fast path, the event monitor and the call_soon bookkeeping, _run_handlers with snapshot / blocking_facility and _min_priority / kwargs merge / conditions / boolean and relay handling / exceptions, _process_event, and process_event_queue transcribed one loop iteration at a time with its stack of deques and with what an exception does to it): for ALL handler programs (handlers and callbacks that post, add, replace and remove handlers - also themselves and their peers while their own event is being dispatched - return _min_priority blocks, raise, resolve futures; any priorities, facilities, conditions, kwargs) and any history, every handler list stays sorted by descending priority with registration order among equals; the loop refines a single depth-first agenda for any number of iterations (events posted during a dispatch go before everything already waiting; the loop never ends with events or callbacks left), callbacks run only when nothing is pending, last-registered first, each at most once; each dispatch (plain, boolean, relay) in which nobody raises calls exactly the handlers of the snapshot taken when it begins that are not blocked by a _min_priority returned earlier in the same dispatch and whose condition holds on the merged kwargs, in list order, whatever the handlers do to the registry meanwhile; if a handler raises, what was delivered is a prefix of that list, the event's callback is not queued and the invocation of process_event_queue ends with its waiting events dropped, event_queue holding what the interrupted dispatch posted and callback_queue untouched (the model follows the code; MPF shuts down on such an exception); _min_priority never suppresses a handler without blocking facility and suppresses one with a facility only below the limit of 'all' or of its facility; with the event monitor on every post is queued and reported once; a wait_for_event future is resolved at most once. Translator tie: Gen/EventFacts.lean is regenerated from the AST of mpf/core/events.py on every check (sort key/direction and append in add_handler, copy iteration in _run_handlers, which end _post / _process_event / process_event_queue push and pop); the model driver runs with these facts and source_facts_canonical proves they are the ones the theorems are stated for, so a change of any of them in the source breaks a proof. Correspondence on every check: generated programs are executed on the real EventManager of a real machine from boot, a delay callback, an untimed and a timed switch handler, and the observation sequences (handler id, event, ordered merged kwargs; callback id, post serial, kwargs; monitor reports; resolved futures; invocations ended by an exception; what is left queued) are compared with the model driver's; an independent recursive reference interpreter and trace monitors check the property on the implementation trace (up to the first exception; after it only the safety monitors and the model comparison apply).",
  "note": "Trusted: Lean kernel + {propext, Classical.choice, Quot.sound}; the hand-written model Model/EventBus.lean (tied by the generated facts for sort order, copy iteration and deque ends, otherwise validated by the differential runs); translate/event_facts.py (AST pattern matching; anything it does not recognise breaks the tie instead of being skipped); asyncio call_soon eventually running process_event_queue; BoolTemplate condition evaluation is modelled as key == int. Re-entrant calls of process_event_queue from a handler are generated (15% of extended cases; the model has the guarded behaviour of fix 059c2d2: nothing happens). Not modelled: a _min_priority dict without 'all' (KeyError in the code), _silent posts, cancelled futures, add_async_handler, EventManager.stop, post from another thread, queue events (C02).",
  "technique": "Lean 4 theorems (simulation of the deque stack by one agenda with a loop-head invariant, induction over steps/op lists/handler lists) on a hand model parameterised by facts translated from the source AST + differential correspondence with the real EventManager + independent reference interpreter",
  "translated": True,
 }
RULE = ("a case = program table (handler/callback programs as data: posts of plain/boolean/relay events with/without "
        "callback and kwargs, add handler (optionally with blocking facility, 'ev.N' priority suffix, '{cond}', a "
        "functools.partial as callback), remove by key, remove all, replace_handler (also with a suffixed event string or a "
        "fresh partial), remove_handler(method), remove_handler_by_event, raise, return of a _min_priority block; 30% of the "
        "registered handlers call a registry mutator on their own event while it is being dispatched, aimed at "
        "themselves / a peer / an absent callback; 25% of registrations share a callback) + 1-5 stimuli, each a list of "
        "actions (posts, registry actions, wait_for_any_event on 1-3 event strings, event monitor on/off) run from a "
        "context (boot, delay, switch, timed_switch) followed by a drain; each feature (blocking 45%, exceptions 30%, "
        "suffixes 45%, partials 40%, waits 35%, monitor 20%) is switched on per case so that it also occurs alone; events "
        "are levelled so every program terminates; priorities -3..3 with ties, 30% conditions, handler kwargs colliding "
        "with posted ones. non-trivial = at least one handler invocation posted a further event or changed the registry "
        "during a dispatch, a boolean/relay result changed the flow, a handler was blocked, raised, a future resolved, a "
        "post was monitored or a suffixed replace ran; distinct = canonical JSON of the case")
TRUSTED = [
    "modelled, not verified: asyncio call_soon/call_at eventually run process_event_queue; BoolTemplate evaluation of "
    "'k==v' conditions (modelled as: key present and equal to the int); Python dict insertion order and list.sort stability; "
    "functools.partial / bound-method equality (equality class `fn` of a callback object)",
    "Model/EventBus.lean is hand-written; tied to mpf/core/events.py by Gen/EventFacts.lean (sort key/direction, copy "
    "iteration, deque ends: translate/event_facts.py reads them from the AST on every check) and, with the drain sites in "
    "delays.py / switch_controller.py, by correspondence on every run",
    "an exception leaving process_event_queue is caught by the harness where the asyncio loop / DelayManager / "
    "SwitchController would receive it; what MPF does afterwards (shutdown) is not part of the model",
]
ASSUMPTIONS = [
               "a _min_priority dict always has the key 'all' (as every producer in mpf makes it); condition keys never "
               "hold bools; no _silent posts; futures are not cancelled",
               "queue events are covered by C02"]

EVR = 0      # key id of ev_result
MPK = 100    # key id of _min_priority (inside that dict: 0 = 'all', n = facility 'f<n>')
CAP = 250    # handler invocations per case (generator discards bigger cases)
WPID = 50000  # program ids of the wait handlers of wait_for_any_event (WPID + wid)
# generate handlers that call process_event_queue() themselves (re-entrantly).  Off by default: on a tree without a
# re-entrancy guard in process_event_queue the dispatches nest and callbacks run early (signature nested-dispatch); the
# repair is commit `fix: make process_event_queue re-entrancy safe` on branch verif-C01-s3.  C01_REENTER=1 turns it on.
import os
REENTER = os.environ.get("C01_REENTER", "1") == "1"     # on since the guard (fix 059c2d2) is in /repo


# a handler record is [key, base priority, kwargs, condition, pid] or [..., ext] with
# ext = {"fn": equality class of the callback object (default pid; anything else = an object that only equals itself,
#        a functools.partial), "fac": blocking facility n or None, "psuf": N of an 'ev.N' priority suffix or None}
def hext(h):
    return h[5] if len(h) > 5 and h[5] else {}


def hfn(h):
    return hext(h).get("fn", h[4])


def hfac(h):
    return hext(h).get("fac")


def hpsuf(h):
    return hext(h).get("psuf")


def hprio(h):
    """priority the entry is registered with: add_handler adds the '.N' of the event string"""
    return h[1] + (hpsuf(h) or 0)


def is_raw(h):
    """replace_handler called with 'ev{cond}' / 'ev.N': the unsplit string is looked up, nothing is removed"""
    return h[3] is not None or hpsuf(h) is not None


def ev_string(ev, h):
    name = "ev%d" % ev
    if hpsuf(h) is not None:
        name += ".%d" % hpsuf(h)
    if h[3] is not None:
        name += "{%s==%d}" % (kname(h[3][0]), h[3][1])
    return name


def wait_entries(a):
    """["W", wid, [[ev, key, cond, psuf], ...]] -> the handler records wait_for_any_event registers (priority 1)"""
    out = []
    for ev, key, cond, psuf in a[2]:
        out.append((ev, [key, 1, [], cond, WPID + a[1], {"fn": 20000 + key, "psuf": psuf}]))
    return out


# ---------------------------------------------------------------------------------------------------------------------
# generator
# ---------------------------------------------------------------------------------------------------------------------
class Gen:
    def __init__(self, r, nev=None, queue_types=False, extended=True):
        self.r = r
        self.nev = nev or r.randint(2, 7)
        self.progs = {}
        self.next_pid = 1
        self.next_key = 1
        self.next_wid = 1
        self.key_ev = {}
        self.budget = 60
        self.types = ["n", "n", "n", "b", "r"]
        self.prog_level = {}     # handler programs: the event level they were generated for (posts go strictly higher)
        self.regs = []           # (ev, key, pid, kw, fn) of every generated registration
        self.ext = extended
        # the features of this case (most cases have a few of them, so that each also occurs alone)
        x = r.random() if extended else 1.0
        self.f_block = extended and r.random() < 0.45
        self.f_raise = extended and r.random() < 0.3
        self.f_suffix = extended and r.random() < 0.45
        self.f_partial = extended and r.random() < 0.4
        self.f_wait = extended and r.random() < 0.35
        self.f_monitor = extended and x < 0.2
        self.f_reenter = extended and REENTER and r.random() < 0.15

    def kw(self, maxn=2):
        r = self.r
        out = []
        for _ in range(r.choice([0, 0, 1, 1, 2][:maxn + 3])):
            k = r.randint(1, 4)
            if all(k != x[0] for x in out):
                out.append([k, r.randint(-1, 2)])
        return out

    def ret(self):
        r = self.r
        if self.f_block and r.random() < 0.3:
            mp = [[0, r.choice([-4, -1, 0, 0, 1, 2, 4])]]
            for f in (1, 2):
                if r.random() < 0.6:
                    mp.append([f, r.randint(-3, 4)])
            r.shuffle(mp)
            return ["B", mp]
        x = r.random()
        if x < 0.4:
            return ["N"]
        if x < 0.55:
            return ["F"]
        if x < 0.65:
            return ["T"]
        if x < 0.87:
            return ["D", self.kw(2) or [[r.randint(1, 4), r.randint(-1, 2)]]] if r.random() < 0.9 else ["D", []]
        return ["I", r.choice([0, 3, -1])]

    def new_prog(self, level, is_cb=False):
        """program of a handler registered for event `level` (posts only higher levels => termination)"""
        r = self.r
        pid = self.next_pid
        self.next_pid += 1
        self.progs[pid] = None
        acts = []
        self.budget -= 1
        n = 0
        if level < self.nev and self.budget > 0:
            n = r.choice([0, 0, 1, 1, 1, 2, 2, 3]) if not is_cb else r.choice([0, 0, 0, 1])
        for _ in range(n):
            if r.random() < 0.78:
                acts.append(self.post(level))
            else:
                acts.append(self.regop(level))
        if self.f_raise and r.random() < (0.12 if not is_cb else 0.06):
            acts.insert(r.randint(0, len(acts)), ["Z"])
        if self.f_reenter and not is_cb and r.random() < 0.15:
            acts.insert(r.randint(0, len(acts)), ["Q"])
        self.progs[pid] = {"acts": acts, "ret": self.ret() if not is_cb else ["N"]}
        if not is_cb:
            self.prog_level[pid] = level
        return pid

    def post(self, level):
        r = self.r
        ev = r.randint(level + 1, self.nev) if level < self.nev else self.nev
        cb = None
        if r.random() < 0.45:
            cb = self.new_prog(ev if r.random() < 0.8 else level, is_cb=True) if self.budget > 0 else None
        return ["P", ev, r.choice(self.types), cb, self.kw()]

    def handler(self, ev):
        r = self.r
        key = self.next_key
        self.next_key += 1
        self.key_ev[key] = ev
        cond = [r.randint(1, 4), r.randint(-1, 2)] if r.random() < 0.3 else None
        # the same callback registered several times / for several events (bound methods compare equal by value)
        shared = [p for p, lv in self.prog_level.items() if lv >= ev and self.progs[p] is not None]
        pid = r.choice(shared) if shared and r.random() < 0.25 else self.new_prog(ev)
        kw = self.kw()
        ext = {}
        if self.f_partial and r.random() < 0.3:
            ext["fn"] = 10000 + key          # a functools.partial: equal to nothing but itself
        if self.f_block and r.random() < 0.45:
            ext["fac"] = r.choice([1, 1, 2])
        if self.f_suffix and r.random() < 0.3:
            ext["psuf"] = r.choice([-2, -1, 1, 2, 3])
        self.regs.append((ev, key, pid, kw, ext.get("fn", pid)))
        h = [key, r.randint(-3, 3) if r.random() < 0.85 else r.choice([-3, 3, 0]), kw, cond, pid]
        return h + [ext] if ext else h

    def absent_pid(self):
        pid = self.next_pid
        self.next_pid += 1
        self.progs[pid] = {"acts": [], "ret": ["N"]}
        self.prog_level[pid] = self.nev
        return pid

    def mutator(self, ev, self_pid):
        """replace_handler / remove_handler / remove_handler_by_event / remove_handler_by_key aimed at event `ev`:
        target = the caller itself, a peer registered for the same event (earlier or later in the list), or absent.
        A target is a callback object: the value-comparable one of a program, or one particular partial."""
        r = self.r
        peers = [g for g in self.regs if g[0] == ev]
        x = r.random()
        mine = [g for g in peers if g[2] == self_pid]
        if x < 0.4 and self_pid is not None:
            tgt, fn = self_pid, (r.choice(mine)[4] if mine else self_pid)
        elif x < 0.85 and peers:
            g = r.choice(peers)
            tgt, fn = g[2], g[4]
        else:
            tgt = self.absent_pid()
            fn = tgt
        y = r.random()
        if y < 0.5:
            key = self.next_key
            self.next_key += 1
            self.key_ev[key] = ev
            z = r.random()
            kws = [g[3] for g in self.regs if g[2] == tgt and g[3]]
            kw = [] if z < 0.55 else (list(reversed(r.choice(kws))) if kws and z < 0.9 else self.kw())
            ext = {}
            cond = None
            if fn != tgt:
                # `replace_handler(ev, partial(...))` builds a new partial every time: it never equals the old one
                ext["fn"] = 10000 + key
            if self.f_suffix and r.random() < 0.35:
                if r.random() < 0.5:
                    ext["psuf"] = r.choice([-1, 1, 2])
                else:
                    cond = [r.randint(1, 4), r.randint(-1, 2)]
            self.regs.append((ev, key, tgt, kw, ext.get("fn", tgt)))
            h = [key, r.randint(-3, 3), kw, cond, tgt]
            return ["H", ev, h + [ext] if ext else h]
        if y < 0.7:
            return ["E", ev, fn]
        if y < 0.85:
            return ["M", fn]
        ks = [g[1] for g in peers if g[2] == tgt]
        return ["R", ev, r.choice(ks)] if ks else ["E", ev, fn]

    def wait(self):
        r = self.r
        wid = self.next_wid
        self.next_wid += 1
        names = []
        evs = [r.randint(1, self.nev) for _ in range(r.choice([1, 1, 2, 3]))]
        if r.random() < 0.12:
            evs.append(evs[0])       # two names for one event ('ev3' and 'ev3.1' / 'ev3{..}'): both handlers see one post
        seen = set()
        for ev in evs:
            key = self.next_key       # names the registration in the trace; the caller of wait_for_any_event has no key
            self.next_key += 1
            cond = [r.randint(1, 4), r.randint(-1, 2)] if r.random() < 0.2 else None
            psuf = r.choice([-1, 1, 2]) if (self.f_suffix and r.random() < 0.25) else None
            while (ev, None if cond is None else tuple(cond), psuf) in seen:      # the event strings must differ
                psuf = (psuf or 0) + 1
            seen.add((ev, None if cond is None else tuple(cond), psuf))
            names.append([ev, key, cond, psuf])
        return ["W", wid, names]

    def regop(self, level, top=False):
        r = self.r
        x = r.random()
        # a wait is made by top-level code only: a program can run many times, the future of one wait id is one object
        if top and self.f_wait and r.random() < 0.3:
            return self.wait()
        if x < 0.35 or not self.key_ev:
            ev = r.randint(1, self.nev)
            return ["A", ev, self.handler(ev)]
        if x < 0.6 and self.regs:
            g = r.choice(self.regs)
            return self.mutator(g[0], None)
        if x < 0.92:
            key = r.choice(list(self.key_ev))
            return ["R", self.key_ev[key], key]
        return ["X", r.randint(1, self.nev)]

    def case(self):
        r = self.r
        stimuli = []
        boot = []
        for ev in range(1, self.nev + 1):
            for _ in range(r.choice([0, 1, 1, 2, 2, 3, 4])):
                boot.append(["A", ev, self.handler(ev)])
        if self.f_wait:
            for _ in range(r.choice([1, 1, 2])):
                boot.append(self.wait())
        r.shuffle(boot)
        stimuli.append({"ctx": "boot", "acts": boot})
        # handlers that call a registry mutator while their own event is being dispatched
        for ev, key, pid, _, _ in list(self.regs):
            if r.random() < 0.3 and self.progs.get(pid) is not None:
                acts = self.progs[pid]["acts"]
                acts.insert(r.randint(0, len(acts)), self.mutator(ev, pid))
        n = r.randint(1, 4)
        mon_at = r.randint(0, n - 1) if self.f_monitor else None
        mon = False
        for i in range(n):
            acts = []
            if mon_at == i:
                acts.append(["O", 1])
                mon = True
            elif mon and r.random() < 0.3:
                acts.append(["O", 0])
                mon = False
            for _ in range(r.choice([1, 1, 2, 3])):
                x = r.random()
                acts.append(self.post(r.choice([0, 0, 0, 1, 2])) if x < 0.8 else self.regop(0, top=True))
            # with the monitor on, the machine's own posts (switch events) are queued as well: keep those contexts apart
            ctxs = ["boot", "boot", "delay"] if (mon or mon_at == i or (acts and acts[0] == ["O", 0])) else \
                ["boot", "boot", "delay", "switch", "timed_switch"]
            stimuli.append({"ctx": r.choice(ctxs), "acts": acts})
        return {"progs": {str(k): v for k, v in self.progs.items()}, "stimuli": stimuli}


# ---------------------------------------------------------------------------------------------------------------------
# reference interpreter (the oracle's semantics; independent of the Lean model and shaped differently from the code:
# plain recursion over the posting tree).  It says nothing about what happens after an exception: it stops there.
# ---------------------------------------------------------------------------------------------------------------------
class TooBig(Exception):
    pass


class RefStop(Exception):
    """a handler or callback raised: the reference ends here"""


class Ref:
    def __init__(self, progs):
        self.progs = progs
        self.reg = {}      # ev -> list of handler records in call order
        self.trace = []
        self.sn = 0
        self.cbs = []
        self.calls = 0
        self.flags = set()
        self.current = None
        self.mon = False
        self.resolved = set()
        self.waits = {}    # wid -> [(ev, key)]

    def insert(self, ev, h):
        lst = self.reg.setdefault(ev, [])
        i = len(lst)
        # after every handler of priority >= the new one: descending, registration order among equals
        while i > 0 and hprio(lst[i - 1]) < hprio(h):
            i -= 1
        lst.insert(i, h)

    def act(self, a, children, in_dispatch):
        if a[0] == "P":
            sn = self.sn
            self.sn += 1
            _, ev, ty, cb, kw = a
            if cb is None and not self.mon and not self.reg.get(ev):
                return
            if self.mon:
                self.trace.append(["m", ev, sn, [list(x) for x in kw]])
                self.flags.add("monitored-post")
                if cb is None and not self.reg.get(ev):
                    self.flags.add("monitor-keeps-handlerless-post")
            children.append((ev, ty, cb, kw, sn))
            if in_dispatch:
                self.flags.add("post-in-dispatch")
        elif a[0] == "A":
            _, ev, h = a
            self.insert(ev, h)
            if hpsuf(h) is not None:
                self.flags.add("priority-suffix")
            if hfn(h) != h[4]:
                self.flags.add("partial-callback")
            if in_dispatch:
                self.flags.add("reg-in-dispatch")
        elif a[0] == "R":
            _, ev, key = a
            self.reg[ev] = [h for h in self.reg.get(ev, []) if h[0] != key]
            if in_dispatch:
                self.flags.add("reg-in-dispatch")
        elif a[0] == "X":
            self.reg[a[1]] = []
            if in_dispatch:
                self.flags.add("reg-in-dispatch")
        elif a[0] == "H":
            _, ev, h = a
            if is_raw(h):
                # what the code does (the unsplit event string is never a key of registered_handlers): nothing goes
                if any(hfn(g) == hfn(h) for g in self.reg.get(ev, [])):
                    self.flags.add("replace-with-suffix-keeps-old-entry")
                self.flags.add("replace-with-suffix")
            else:
                want = dict((k, v) for k, v in h[2])
                self.reg[ev] = [g for g in self.reg.get(ev, [])
                                if not (hfn(g) == hfn(h) and (not want or dict((k, v) for k, v in g[2]) == want))]
            self.insert(ev, h)
            if in_dispatch:
                self.flags.add("mutator-in-dispatch")
                if self.current is not None and self.current == ev:
                    self.flags.add("mutator-own-event")
        elif a[0] in ("M", "E"):
            fn = a[-1]
            for ev in (list(self.reg) if a[0] == "M" else [a[1]]):
                self.reg[ev] = [g for g in self.reg.get(ev, []) if hfn(g) != fn]
            if in_dispatch:
                self.flags.add("mutator-in-dispatch")
                if self.current is not None and (a[0] == "M" or self.current == a[1]):
                    self.flags.add("mutator-own-event")
        elif a[0] == "W":
            self.waits[a[1]] = [(ev, h[0]) for ev, h in wait_entries(a)]
            for ev, h in wait_entries(a):
                self.insert(ev, h)
            self.flags.add("wait-registered")
        elif a[0] == "O":
            self.mon = bool(a[1])
        elif a[0] == "Z":
            self.flags.add("raise")
            self.trace.append(["x"])
            raise RefStop()
        elif a[0] == "Q":
            self.flags.add("reenter")      # a re-entrant process_event_queue() must not change anything
        else:
            raise InfraError("bad act %r" % (a,))

    def dispatch(self, e):
        ev, ty, cb, kw, sn = e
        kwargs = dict((k, v) for k, v in kw)
        result = None
        children = []
        for h in list(self.reg.get(ev, [])):
            key, _, hkw, cond, pid = h[:5]
            mp = kwargs.get(MPK)
            if mp is not None and hfac(h) is not None:
                lim = dict((k, v) for k, v in mp["d"])
                if lim.get(0, 0) > hprio(h) or (hfac(h) in lim and lim[hfac(h)] > hprio(h)):
                    self.flags.add("blocked")
                    continue
            merged = dict(kwargs)
            for k, v in hkw:
                merged[k] = v
            if cond is not None and not (cond[0] in merged and type(merged[cond[0]]) is int and merged[cond[0]] == cond[1]):
                continue
            self.calls += 1
            if self.calls > CAP:
                raise TooBig()
            self.trace.append(["c", key, ev, list(map(list, merged.items()))])
            if pid >= WPID:
                wid = pid - WPID
                for wev, wkey in self.waits[wid]:
                    self.reg[wev] = [g for g in self.reg.get(wev, []) if g[0] != wkey]
                if wid in self.resolved:
                    # `if _future.done(): return` (fix 7ae9e07; set_result raised InvalidStateError before)
                    self.flags.add("future-resolved-twice")
                    result = None
                    continue
                self.resolved.add(wid)
                self.trace.append(["f", wid])
                self.flags.add("future-resolved")
                result = None
                continue
            p = self.progs[str(pid)]
            self.current = ev
            for a in p["acts"]:
                self.act(a, children, True)
            self.current = None
            rt = p["ret"]
            result = {"N": None, "F": False, "T": True}.get(rt[0], None)
            if rt[0] == "I":
                result = rt[1]
            if rt[0] == "D":
                result = dict((k, v) for k, v in rt[1])
            if rt[0] == "B":
                result = {MPK: {"d": [list(x) for x in rt[1]]}}
                self.flags.add("block-result")
            if ty == "b" and result is False:
                kwargs[EVR] = False
                self.flags.add("boolean-stop")
                break
            if ty == "r" and isinstance(result, dict):
                if result:
                    self.flags.add("relay-update")
                kwargs.update(result)
            elif isinstance(result, dict) and MPK in result:
                kwargs[MPK] = result[MPK]
        if cb is not None:
            if result:
                if isinstance(result, dict) and MPK in result:
                    kwargs[EVR] = {"b": result[MPK]["d"]}
                elif isinstance(result, dict):
                    kwargs[EVR] = {"d": [[k, v] for k, v in result.items()]}
                else:
                    kwargs[EVR] = result
            self.cbs.append((cb, sn, kwargs))
        for c in children:        # depth-first: the whole subtree of a child before its next sibling / anything older
            self.dispatch(c)

    def stimulus(self, acts):
        pending = []
        for a in acts:
            self.act(a, pending, False)
        while True:
            for e in pending:
                self.dispatch(e)
            pending = []
            if not self.cbs:
                break
            cb, sn, kwargs = self.cbs.pop()
            self.trace.append(["b", cb, sn, list(map(list, kwargs.items()))])
            for a in self.progs[str(cb)]["acts"]:
                self.act(a, pending, False)
                self.flags.add("post-in-callback")


def reference(case):
    """-> (per-stimulus expected traces, ref); after an exception (`ref.stopped` = index of that stimulus, its trace ends
    with ["x"]) the reference has no opinion: later stimuli are missing from the list"""
    ref = Ref(case["progs"])
    ref.stopped = None
    per = []
    for i, st in enumerate(case["stimuli"]):
        n = len(ref.trace)
        try:
            ref.stimulus(st["acts"])
        except RefStop:
            ref.stopped = i
            per.append(ref.trace[n:])
            break
        per.append(ref.trace[n:])
    return per, ref


# ---------------------------------------------------------------------------------------------------------------------
# the real thing
# ---------------------------------------------------------------------------------------------------------------------
def kname(k):
    return "ev_result" if k == EVR else ("_min_priority" if k == MPK else "k%d" % k)


def kid(name):
    return EVR if name == "ev_result" else (MPK if name == "_min_priority" else int(name[1:]))


def fname(f):
    return "all" if f == 0 else "f%d" % f


def fid(name):
    return 0 if name == "all" else int(name[1:])


def norm_val(v, key=None):
    if isinstance(v, dict):
        if key == "_min_priority":
            return {"d": [[fid(k), x] for k, x in v.items()]}
        if "_min_priority" in v and len(v) == 1:
            return {"b": [[fid(k), x] for k, x in v["_min_priority"].items()]}
        return {"d": [[kid(k), x] for k, x in v.items()]}
    return v


def norm_items(kwargs):
    return [[kid(k), norm_val(v, k)] for k, v in kwargs.items()]


class HandlerObj:
    """A handler callback.  Like bound methods (`obj.method == obj.method` although every access creates a new
    object) two of them are equal when they stand for the same callback (program id); each one knows the registration
    it was created for, so the trace can name it."""

    def __init__(self, real, key, ev, pid):
        self.real, self.key, self.ev, self.pid = real, key, ev, pid

    def __call__(self, **kwargs):
        return self.real.call_handler(self.key, self.ev, self.pid, kwargs)

    def __eq__(self, other):
        return isinstance(other, HandlerObj) and other.pid == self.pid

    def __ne__(self, other):
        return not self.__eq__(other)

    def __hash__(self):
        return hash(("HandlerObj", self.pid))


class HarnessRaise(Exception):
    """raised by a generated handler / callback (action Z)"""


class Real:
    """Runs a case on a real EventManager."""

    def __init__(self, vm, progs):
        self.vm = vm
        self.ev = vm.machine.events
        self.progs = progs
        self.trace = []
        self.sn = 0
        self.keys = {}
        self.depth = 0
        self.nested = False
        self.calls = 0
        self.side = []      # for the oracle only: dispatch begin/end, calls, registry actions, in real order
        self.partials = {}  # fn -> the one callback object of that equality class
        self.futures = {}   # wid -> (future, {event string: (ev, key)})
        self.fut_notes = []  # what the futures did beyond the property's text (counted, never a failure)

    def make_handler(self, key, ev, pid, fn=None):
        if fn is None or fn == pid:
            return HandlerObj(self, key, ev, pid)
        if fn in self.partials:       # the same action run again: the same stored object (`self._handler = partial(...)`)
            return self.partials[fn]
        import functools
        obj = functools.partial(self.call_handler_kw, key, ev, pid)     # equal to nothing but itself
        self.partials[fn] = obj
        return obj

    def target(self, fn):
        """the object a remove_handler / remove_handler_by_event call is given"""
        if fn in self.partials:
            return self.partials[fn]
        if fn >= 10000:
            import functools
            return functools.partial(self.call_handler_kw, None, None, fn)   # a fresh partial: never registered
        return HandlerObj(self, None, None, fn)

    def call_handler_kw(self, key, ev, pid, **kwargs):
        return self.call_handler(key, ev, pid, kwargs)

    def call_handler(self, key, ev, pid, kwargs):
        self.depth += 1
        if self.depth > 1:
            self.nested = True
        self.calls += 1
        if self.calls > 4 * CAP:
            raise RuntimeError("harness cap: too many handler calls")
        try:
            self.trace.append(["c", key, ev, norm_items(kwargs)])
            self.side.append(("c", key, ev, pid))
            p = self.progs[str(pid)]
            self.run_acts(p["acts"])
            rt = p["ret"]
            if rt[0] == "I":
                return rt[1]
            if rt[0] == "D":
                return {kname(k): v for k, v in rt[1]}
            if rt[0] == "B":
                return {"_min_priority": {fname(f): v for f, v in rt[1]}}
            return {"N": None, "F": False, "T": True}[rt[0]]
        finally:
            self.depth -= 1

    def make_cb(self, pid, sn):
        def callback(**kwargs):
            self.depth += 1
            if self.depth > 1:
                self.nested = True
            try:
                self.trace.append(["b", pid, sn, norm_items(kwargs)])
                self.run_acts(self.progs[str(pid)]["acts"])
            finally:
                self.depth -= 1
        return callback

    def wait_handler_called(self, orig, em, _future, _keys, **kwargs):
        """spy around EventManager._wait_handler"""
        wid = next((w for w, (f, _) in self.futures.items() if f is _future), None)
        if wid is None:
            return orig(em, _future=_future, _keys=_keys, **kwargs)
        ev, key = self.futures[wid][1].get(kwargs.get("event"), (None, None))
        self.depth += 1
        if self.depth > 1:
            self.nested = True
        try:
            self.trace.append(["c", key, ev, norm_items({k: v for k, v in kwargs.items() if k != "event"})])
            self.side.append(("c", key, ev, WPID + wid))
            was_done = _future.done()
            try:
                return orig(em, _future=_future, _keys=_keys, **kwargs)
            finally:
                self.side.append(("r", ["WR", wid]))
                if not was_done and _future.done():
                    self.trace.append(["f", wid])
                    if _future.cancelled() or _future.result() != kwargs:
                        self.fut_notes.append("future_result_differs_from_delivered_kwargs")
                left = [k for k in _keys if any(h.key == k.key for h in em.registered_handlers.get(k.event, []))]
                if left:
                    self.fut_notes.append("wait_handler_still_registered_after_resolution")
        finally:
            self.depth -= 1

    def run_acts(self, acts):
        for a in acts:
            if a[0] == "P":
                _, ev, ty, cb, kw = a
                sn = self.sn
                self.sn += 1
                self.cur_sn = sn
                f = {"n": self.ev.post, "b": self.ev.post_boolean, "r": self.ev.post_relay}[ty]
                f("ev%d" % ev, self.make_cb(cb, sn) if cb is not None else None, **{kname(k): v for k, v in kw})
            elif a[0] == "A":
                _, ev, h = a
                key, hkw, pid = h[0], h[2], h[4]
                extra = {"blocking_facility": fname(hfac(h))} if hfac(h) is not None else {}
                k = self.ev.add_handler(ev_string(ev, h), self.make_handler(key, ev, pid, hfn(h)), h[1],
                                        **extra, **{kname(k): v for k, v in hkw})
                self.keys.setdefault(key, []).append(k)
                self.side.append(("r", a))
            elif a[0] == "R":
                for k in self.keys.get(a[2], []):
                    self.ev.remove_handler_by_key(k)
                self.side.append(("r", a))
            elif a[0] == "X":
                self.ev.remove_all_handlers_for_event("ev%d" % a[1])
                self.side.append(("r", a))
            elif a[0] == "H":
                _, ev, h = a
                key, hkw, pid = h[0], h[2], h[4]
                k = self.ev.replace_handler(ev_string(ev, h), self.make_handler(key, ev, pid, hfn(h)), h[1],
                                            **{kname(k): v for k, v in hkw})
                self.keys.setdefault(key, []).append(k)
                self.side.append(("r", a))
            elif a[0] == "M":
                self.ev.remove_handler(self.target(a[1]))
                self.side.append(("r", a))
            elif a[0] == "E":
                self.ev.remove_handler_by_event("ev%d" % a[1], self.target(a[2]))
                self.side.append(("r", a))
            elif a[0] == "W":
                names = {}
                for ev, h in wait_entries(a):
                    names[ev_string(ev, h)] = (ev, h[0])
                self.side.append(("r", a))
                # the future must be known before the first handler can fire: registered below, never fires in between
                fut = self.ev.wait_for_any_event(list(names))
                self.futures[a[1]] = (fut, names)
            elif a[0] == "O":
                self.ev.monitor_events = bool(a[1])
            elif a[0] == "Z":
                raise HarnessRaise("Z")
            elif a[0] == "Q":
                self.ev.process_event_queue()
            else:
                raise InfraError("bad act %r" % (a,))

    def settle(self):
        """run the loop until nothing is ready any more: advance_time_and_run(0) runs a bounded number of loop iterations,
        but every invocation of process_event_queue can schedule the next one with call_soon (this matters only after an
        exception, when an invocation leaves something behind for the next one)"""
        loop = self.vm.tc.loop
        for _ in range(200):
            if not getattr(loop, "_ready", None):
                return
            self.vm.run()
        raise InfraError("the loop does not settle")

    def stimulus(self, st):
        vm, m = self.vm, self.vm.machine
        ctx, acts = st["ctx"], st["acts"]
        n = len(self.trace)
        if ctx == "boot":
            self.run_acts(acts)
            vm.run()
            self.settle()
        elif ctx == "delay":
            m.delay.add(ms=125, callback=lambda: self.run_acts(acts))
            vm.advance(0.25)
            self.settle()
        elif ctx in ("switch", "timed_switch"):
            ms = 0 if ctx == "switch" else 125
            fired = []

            def cb():
                fired.append(1)
                self.run_acts(acts)
            m.switch_controller.add_switch_handler("s_c01", cb, state=1, ms=ms)
            vm.hit_switch("s_c01", 1)
            vm.advance(0.25)
            self.settle()
            m.switch_controller.remove_switch_handler("s_c01", cb, state=1, ms=ms)
            vm.hit_switch("s_c01", 0)
            vm.advance(0.125)
            self.settle()
            if len(fired) != 1:
                raise InfraError("switch context did not fire exactly once: %r" % fired)
        else:
            raise InfraError("bad ctx %r" % ctx)
        return self.trace[n:]


CONFIG = "switches:\n  s_c01:\n    number: 1\n"


class Left(list):
    """[len(event_queue), len(callback_queue)] at the end; .side = the oracle's side log"""
    side = ()
    fut_notes = ()
    raised = 0
    too_big = False


def run_real(case):
    """-> (per-stimulus traces, crash text or None, nested flag, leftovers)"""
    from harness.common.vmachine import VMachine, BootError
    try:
        vm = VMachine(CONFIG).start()
    except BootError as e:     # the machine itself depends on the event bus: a broken bus may not even boot
        return [], "boot: " + str(e)[:200], False, [0, 0]
    from mpf.core.events import EventManager, EventHandlerException
    o_pe = EventManager._process_event
    o_pq = EventManager.process_event_queue
    o_wh = EventManager._wait_handler
    from mpf.core.bcp.bcp_interface import BcpInterface
    o_mon = BcpInterface.monitor_posted_event
    try:
        vm.align()
        real = Real(vm, case["progs"])
        raised = []

        def spy(em, event, ev_type, callback=None, **kwargs):
            mine = event.startswith("ev") and event[2:].isdigit()
            if mine:
                real.side.append(("d", int(event[2:]), ev_type))
            try:
                return o_pe(em, event, ev_type, callback, **kwargs)
            except BaseException:
                if mine:
                    real.side.append(("xd",))
                raise
            finally:
                if mine:
                    real.side.append(("e",))

        def spy_queue(em):
            # an exception that leaves process_event_queue is an observation ("x"); it is caught here, where the
            # asyncio loop / DelayManager / SwitchController would get it, so the run can go on
            try:
                return o_pq(em)
            except InfraError:
                raise
            except Exception as e:
                ours = isinstance(e, HarnessRaise) or (isinstance(e, EventHandlerException) and
                                                        isinstance(e.__cause__, (HarnessRaise, __import__("asyncio").InvalidStateError)))
                if not ours:
                    raise
                raised.append(type(e).__name__)
                real.trace.append(["x"])

        def spy_wait(em, _future, _keys, **kwargs):
            return real.wait_handler_called(o_wh, em, _future, _keys, **kwargs)

        def monitor(posted):
            ev = posted.event
            if ev.startswith("ev") and ev[2:].isdigit():
                real.trace.append(["m", int(ev[2:]), real.cur_sn, norm_items(posted.kwargs)])

        EventManager._process_event = spy
        EventManager.process_event_queue = spy_queue
        EventManager._wait_handler = spy_wait
        BcpInterface.monitor_posted_event = lambda _self, posted: monitor(posted)
        per = []
        crash = None
        too_big = False
        for st in case["stimuli"]:
            try:
                per.append(real.stimulus(st))
            except InfraError:
                raise
            except Exception as e:   # an exception escaping the real code is an observation
                if real.calls > 4 * CAP:
                    too_big = True      # the harness cap (programs that multiply after an exception): not an observation
                else:
                    crash = "%s: %s" % (type(e).__name__, str(e)[:200])
                break
        left = Left([len(vm.machine.events.event_queue), len(vm.machine.events.callback_queue)])
        left.side = list(real.side)
        left.fut_notes = list(real.fut_notes)
        left.raised = len(raised)
        left.too_big = too_big
        # what an exception left queued must not run during the shutdown of the machine (the spies are gone by then)
        vm.machine.events.monitor_events = False
        vm.machine.events.event_queue.clear()
        vm.machine.events.callback_queue.clear()
        return per, crash, real.nested, left
    finally:
        EventManager._process_event = o_pe
        EventManager.process_event_queue = o_pq
        EventManager._wait_handler = o_wh
        BcpInterface.monitor_posted_event = o_mon
        vm.stop()


# ---------------------------------------------------------------------------------------------------------------------
# model
# ---------------------------------------------------------------------------------------------------------------------
def enc_kw(kw):
    return ",".join("%d:%d" % (k, v) for k, v in kw) if kw else "-"


def enc_handler(h):
    return "%d/%d/%s/%s/%d/%d/%s" % (h[0], hprio(h), enc_kw(h[2]), "-" if h[3] is None else "%d=%d" % tuple(h[3]), h[4],
                                     hfn(h), "-" if hfac(h) is None else "%d" % hfac(h))


def enc_act(a):
    if a[0] == "P":
        return "P %d %s %s %s" % (a[1], a[2], "-" if a[3] is None else a[3], enc_kw(a[4]))
    if a[0] == "A":
        return "A %d %s" % (a[1], enc_handler(a[2]))
    if a[0] == "R":
        return "R %d %d" % (a[1], a[2])
    if a[0] == "H":
        return "%s %d %s" % ("HR" if is_raw(a[2]) else "H", a[1], enc_handler(a[2]))
    if a[0] == "M":
        return "M %d" % a[1]
    if a[0] == "E":
        return "E %d %d" % (a[1], a[2])
    if a[0] == "W":     # wait_for_any_event = one add_handler per name; the handler's program is wait_prog()
        return " | ".join("A %d %s" % (ev, enc_handler(h)) for ev, h in wait_entries(a))
    if a[0] == "O":
        return "O %d" % a[1]
    if a[0] == "Z":
        return "Z"
    if a[0] == "Q":
        return "Q"
    return "X %d" % a[1]


def wait_prog(a):
    """_wait_handler: remove every handler of this wait, then set the future's result"""
    return " | ".join(["R %d %d" % (ev, h[0]) for ev, h in wait_entries(a)] + ["F %d" % a[1]])


def enc_acts(acts):
    return " | ".join(enc_act(a) for a in acts)


def enc_ret(rt):
    if rt[0] == "I":
        return "I%d" % rt[1]
    if rt[0] == "D":
        return "D" + enc_kw(rt[1])
    if rt[0] == "B":
        return "B" + enc_kw(rt[1])
    return rt[0]


def show_d(d):
    return "{" + ";".join("%d:%d" % (k, x) for k, x in d) + "}"


def show_val(v):
    if v is True:
        return "T"
    if v is False:
        return "F"
    if isinstance(v, dict):
        return show_d(v["d"]) if "d" in v else "{%d:%s}" % (MPK, show_d(v["b"]))
    return "%d" % v


def show_items(items):
    return ",".join("%d:%s" % (k, show_val(v)) for k, v in items) if items else "-"


def show_trace(tr):
    """canonical observation line, the format of the Lean driver (the handler call carries no serial)"""
    out = []
    for o in tr:
        if o[0] == "c":
            out.append("c%d.%d.%s" % (o[1], o[2], show_items(o[3])))
        elif o[0] == "b":
            out.append("b%d.%d.%s" % (o[1], o[2], show_items(o[3])))
        elif o[0] == "m":
            out.append("m%d.%d.%s" % (o[1], o[2], show_items(o[3])))
        elif o[0] == "f":
            out.append("f%d" % o[1])
        else:
            out.append("x")
    return " ".join(out) if out else "ok"


def all_acts(case):
    for p in case["progs"].values():
        for a in p["acts"]:
            yield a
    for st in case["stimuli"]:
        for a in st["acts"]:
            yield a


# what runs process_event_queue in each context: the DelayManager and the timed-switch timer call it directly after the
# user callback; in every context `_post` schedules it with call_soon when it finds event_queue empty
CTX_OPS = {"boot": ["soon"], "switch": ["soon"], "delay": ["drain", "soon"], "timed_switch": ["drain", "soon"]}


def run_model(model, case, want_left=False):
    def ask(line):
        ans = model.ask(line)
        if ans == "bad-op":
            raise InfraError("model rejected %r" % line)
        return ans
    ask("reset")
    for pid, p in case["progs"].items():
        ask(("prog %s %s %s" % (pid, enc_ret(p["ret"]), enc_acts(p["acts"]))).rstrip())
    for a in all_acts(case):
        if a[0] == "W":
            ask("prog %d N %s" % (WPID + a[1], wait_prog(a)))
    per = []
    for st in case["stimuli"]:
        ask(("top " + enc_acts(st["acts"])).rstrip())
        outs = [ask(op) for op in CTX_OPS[st["ctx"]]]
        outs = [o for o in outs if o != "ok"]
        per.append(" ".join(outs) if outs else "ok")
    if want_left:
        per.append("left " + ask("left"))
    return per


# ---------------------------------------------------------------------------------------------------------------------
# oracle
# ---------------------------------------------------------------------------------------------------------------------
def first_diff(a, b):
    for i, (x, y) in enumerate(zip(a, b)):
        if x != y:
            return i, x, y
    if len(a) != len(b):
        i = min(len(a), len(b))
        return i, (a[i] if i < len(a) else None), (b[i] if i < len(b) else None)
    return None


def classify(got, exp):
    """signature class of a trace that differs from the reference semantics"""
    if got is None and exp is not None:
        return "missing-observation"
    if exp is None:
        return {"b": "extra-callback", "c": "extra-handler-call"}.get(got[0], "extra-observation")
    if got[0] != exp[0]:
        if "x" in (got[0], exp[0]):
            return "exception-mismatch"
        if "m" in (got[0], exp[0]):
            return "monitor-report-mismatch"
        if "f" in (got[0], exp[0]):
            return "future-mismatch"
        return "callback-before-pending-events" if got[0] == "b" else "event-after-callback-order"
    if got[0] == "b":
        return "callback-order" if got[1:3] != exp[1:3] else "callback-kwargs"
    if got[0] == "m":
        return "monitor-report-mismatch"
    if got[0] == "f":
        return "future-mismatch"
    if got[2] != exp[2]:
        return "dispatch-order"
    if got[1] != exp[1]:
        return "handler-order-or-set"
    return "handler-kwargs"


def delivery_monitor(case, side):
    """The property as worded, on the implementation's own sequence of events: for every dispatched event the called
    handlers are entries of the list as it was when the dispatch began (each at most once, in that = priority order),
    and every such entry that has no condition, no blocking facility, and was not removed before its turn IS called
    (boolean events: up to the first False; a dispatch ended by an exception: up to there).  The registry mirror is
    updated from the registry actions in the order the implementation ran them."""
    progs = case["progs"]
    reg = {}                       # ev -> [(key, prio, kw, cond-or-facility?, fn)] in call order
    waits = {}

    def put(ev, h):
        lst = reg.setdefault(ev, [])
        j = len(lst)
        while j > 0 and lst[j - 1][1] < hprio(h):
            j -= 1
        optional = h[3] is not None or hfac(h) is not None
        lst.insert(j, (h[0], hprio(h), tuple(map(tuple, h[2])), optional, hfn(h)))

    def apply(a):
        if a[0] == "A" or a[0] == "H":
            ev, h = a[1], a[2]
            if a[0] == "H" and not is_raw(h):
                want = dict(map(tuple, h[2]))
                reg[ev] = [g for g in reg.get(ev, []) if not (g[4] == hfn(h) and (not want or dict(map(tuple, g[2])) == want))]
            put(ev, h)
        elif a[0] == "W":
            waits[a[1]] = [(ev, h[0]) for ev, h in wait_entries(a)]
            for ev, h in wait_entries(a):
                put(ev, h)
        elif a[0] == "WR":
            for ev, key in waits.get(a[1], []):
                reg[ev] = [g for g in reg.get(ev, []) if g[0] != key]
        elif a[0] == "R":
            reg[a[1]] = [g for g in reg.get(a[1], []) if g[0] != a[2]]
        elif a[0] == "X":
            reg[a[1]] = []
        elif a[0] == "M":
            for ev in list(reg):
                reg[ev] = [g for g in reg[ev] if g[4] != a[1]]
        elif a[0] == "E":
            reg[a[1]] = [g for g in reg.get(a[1], []) if g[4] != a[2]]

    stack = []      # dispatches in progress (more than one only if process_event_queue is re-entered)
    cur = None
    for e in side:
        if e[0] == "r":
            apply(e[1])
        elif e[0] == "d":
            if cur is not None:
                stack.append(cur)
            cur = {"ev": e[1], "ty": e[2], "snap": list(reg.get(e[1], [])), "i": 0, "stopped": False, "called": []}
        elif e[0] == "xd":
            if cur is not None:
                cur["stopped"] = True
        elif e[0] == "c":
            if cur is None or cur["ev"] != e[2]:
                return "call-outside-dispatch", {"call": list(e)}
            snap, i = cur["snap"], cur["i"]
            j = i
            while j < len(snap) and snap[j][0] != e[1]:
                j += 1
            if j == len(snap) or cur["stopped"]:
                return "handler-not-in-snapshot-or-twice", {"event": cur["ev"], "called": cur["called"] + [e[1]],
                                                            "registered_at_begin": [g[0] for g in snap]}
            live = reg.get(cur["ev"], [])
            for g in snap[i:j]:
                if not g[3] and g in live:
                    return "handler-skipped", {"event": cur["ev"], "type": cur["ty"], "skipped": g[0],
                                               "called": cur["called"] + [e[1]],
                                               "registered_at_begin": [x[0] for x in snap]}
            cur["i"] = j + 1
            cur["called"].append(e[1])
            if cur["ty"] == "boolean" and e[3] < WPID and progs[str(e[3])]["ret"][0] == "F":
                cur["stopped"] = True
        elif e[0] == "e":
            if cur is not None and not cur["stopped"]:
                live = reg.get(cur["ev"], [])
                for g in cur["snap"][cur["i"]:]:
                    if not g[3] and g in live:
                        return "handler-skipped", {"event": cur["ev"], "type": cur["ty"], "skipped": g[0],
                                                   "called": cur["called"],
                                                   "registered_at_begin": [x[0] for x in cur["snap"]]}
            cur = stack.pop() if stack else None
    return None


def oracle(case, per_real, crash, nested, left):
    """-> None or (signature, detail)"""
    try:
        per_ref, ref = reference(case)
    except TooBig:
        return None
    if getattr(left, "too_big", False):
        return None
    if crash is not None:
        return "crash", {"error": crash}
    if nested:
        return "nested-dispatch", {"what": "a handler or callback ran while another one was running"}
    mon = delivery_monitor(case, getattr(left, "side", ()))
    if mon is not None:
        return mon
    flat = [o for tr in per_real for o in tr]
    seen = {}
    for o in flat:
        if o[0] == "b":
            seen[o[2]] = seen.get(o[2], 0) + 1
    dup = [sn for sn, n in seen.items() if n > 1]
    if dup:
        return "callback-twice", {"serials": dup}
    for i, (got, exp) in enumerate(zip(per_real, per_ref)):
        if ref.stopped == i:
            # the reference ends at the first exception: everything up to it must be as the property says
            cut = next((j for j, o in enumerate(got) if o[0] == "x"), None)
            got = got[:cut + 1] if cut is not None else got
        d = first_diff(got, exp)
        if d is not None:
            return classify(d[1], d[2]), {"stimulus": i, "index": d[0], "got": d[1], "expected": d[2],
                                          "ctx": case["stimuli"][i]["ctx"]}
    if ref.stopped is None and left != [0, 0]:
        return "queue-not-drained", {"left": left}
    return None


def check_case(case):
    per, crash, nested, left = run_real(case)
    return oracle(case, per, crash, nested, left), per


# ---------------------------------------------------------------------------------------------------------------------
# shrinking: units are stimuli and single actions of programs
# ---------------------------------------------------------------------------------------------------------------------
def units_of(case):
    u = [("s", i, j) for i, st in enumerate(case["stimuli"]) for j in range(len(st["acts"]))]
    u += [("p", pid, j) for pid, p in case["progs"].items() for j in range(len(p["acts"]))]
    return u


def restrict(case, units):
    keep = set(units)
    return {"progs": {pid: {"ret": p["ret"], "acts": [a for j, a in enumerate(p["acts"]) if ("p", pid, j) in keep]}
                      for pid, p in case["progs"].items()},
            "stimuli": [{"ctx": st["ctx"], "acts": [a for j, a in enumerate(st["acts"]) if ("s", i, j) in keep]}
                        for i, st in enumerate(case["stimuli"])]}


def prune(case):
    """drop programs nothing refers to"""
    used, todo = set(), [a for st in case["stimuli"] for a in st["acts"]]
    while todo:
        a = todo.pop()
        pid = a[3] if a[0] == "P" else (a[2][4] if a[0] in ("A", "H") else None)
        if pid is not None and str(pid) not in used:
            used.add(str(pid))
            todo += case["progs"][str(pid)]["acts"]
    return {"progs": {k: v for k, v in case["progs"].items() if k in used}, "stimuli": case["stimuli"]}


def shrink(case, sig):
    def fails(units):
        res, _ = check_case(restrict(case, units))
        return res is not None and res[0] == sig
    units = ddmin(units_of(case), fails, max_tests=150)
    small = prune(restrict(case, units))
    small["stimuli"] = [st for st in small["stimuli"] if st["acts"]] or small["stimuli"][:1]
    res, _ = check_case(small)
    return small if (res is not None and res[0] == sig) else restrict(case, units)


# ---------------------------------------------------------------------------------------------------------------------
# corpus: the shapes the mutants of DESIGN 5b differ on
# ---------------------------------------------------------------------------------------------------------------------
def corpus():
    H = lambda key, prio, pid, kw=None, cond=None: [key, prio, kw or [], cond, pid]
    cases = []
    # priorities with ties: registration order among equals, descending otherwise
    cases.append({"progs": {"1": {"acts": [], "ret": ["N"]}},
                  "stimuli": [{"ctx": "boot", "acts": [["A", 1, H(1, 0, 1)], ["A", 1, H(2, 2, 1)], ["A", 1, H(3, 0, 1)],
                                                       ["A", 1, H(4, -1, 1)], ["A", 1, H(5, 2, 1)]]},
                              {"ctx": "boot", "acts": [["P", 1, "n", None, [[1, 1]]]]}]})
    # depth-first: a posts b,c; b posts d; e was already waiting: a b d c e; callbacks LIFO after everything
    cases.append({"progs": {"1": {"acts": [["P", 2, "n", 9, []], ["P", 3, "n", 8, []]], "ret": ["N"]},
                            "2": {"acts": [["P", 4, "n", 7, []]], "ret": ["N"]},
                            "3": {"acts": [], "ret": ["N"]}, "7": {"acts": [], "ret": ["N"]},
                            "8": {"acts": [["P", 5, "n", None, []]], "ret": ["N"]}, "9": {"acts": [], "ret": ["N"]}},
                  "stimuli": [{"ctx": "boot", "acts": [["A", 1, H(1, 0, 1)], ["A", 2, H(2, 0, 2)], ["A", 3, H(3, 0, 3)],
                                                       ["A", 4, H(4, 0, 3)], ["A", 5, H(5, 0, 3)]]},
                              {"ctx": "delay", "acts": [["P", 1, "n", 9, []], ["P", 5, "n", 7, []]]}]})
    # snapshot: the first handler removes the second and adds a new one: the second still runs, the new one does not
    cases.append({"progs": {"1": {"acts": [["R", 1, 2], ["A", 1, H(4, 5, 3)]], "ret": ["N"]},
                            "3": {"acts": [], "ret": ["N"]}},
                  "stimuli": [{"ctx": "boot", "acts": [["A", 1, H(1, 3, 1)], ["A", 1, H(2, 2, 3)], ["A", 1, H(3, 1, 3)]]},
                              {"ctx": "switch", "acts": [["P", 1, "n", None, []], ["P", 1, "n", None, []]]}]})
    # kwargs: handler wins, order of keys; relay folds; boolean stops and reports
    cases.append({"progs": {"1": {"acts": [], "ret": ["D", [[1, 7], [3, 9]]]}, "2": {"acts": [], "ret": ["F"]},
                            "3": {"acts": [], "ret": ["T"]}, "9": {"acts": [], "ret": ["N"]}},
                  "stimuli": [{"ctx": "boot", "acts": [["A", 1, H(1, 2, 1, [[2, 5], [1, 0]])], ["A", 1, H(2, 1, 3, [[4, 4]])],
                                                       ["A", 2, H(3, 2, 3)], ["A", 2, H(4, 1, 2)], ["A", 2, H(5, 0, 3)]]},
                              {"ctx": "timed_switch", "acts": [["P", 1, "r", 9, [[1, 1], [2, 2]]], ["P", 2, "b", 9, [[1, 1]]],
                                                               ["P", 1, "n", 9, [[1, 1], [2, 2]]], ["P", 2, "n", 9, []]]}]})
    # conditions on merged kwargs; fast path: post without handler and callback is dropped even if a handler appears later
    cases.append({"progs": {"1": {"acts": [["P", 3, "n", None, []], ["A", 3, H(9, 0, 3)], ["P", 3, "n", None, []]], "ret": ["N"]},
                            "3": {"acts": [], "ret": ["I", 3]}},
                  "stimuli": [{"ctx": "boot", "acts": [["A", 1, H(1, 0, 1, None, [1, 1])], ["A", 1, H(2, 0, 3, [[1, 2]], [1, 2])]]},
                              {"ctx": "boot", "acts": [["P", 1, "n", None, [[1, 1]]], ["P", 1, "n", None, []]]}]})
    # the "make sure I am registered once" idiom: a handler replace_handler()s itself / an already served peer / a
    # waiting peer while its own event is dispatched; remove_handler(method) and remove_handler_by_event likewise.
    # the lower-priority handlers must still be called once each, in order, for plain, boolean and relay events
    for ty in ("n", "b", "r"):
        cases.append({"progs": {"1": {"acts": [["H", 1, H(21, 3, 1)]], "ret": ["N"]},
                                "2": {"acts": [["H", 1, H(22, 3, 1)], ["E", 1, 4]], "ret": ["T"]},
                                "3": {"acts": [], "ret": ["N"]}, "4": {"acts": [["M", 2]], "ret": ["N"]},
                                "9": {"acts": [], "ret": ["N"]}},
                      "stimuli": [{"ctx": "boot", "acts": [["A", 1, H(1, 3, 1)], ["A", 1, H(2, 2, 2)], ["A", 1, H(3, 1, 3)],
                                                           ["A", 1, H(4, 0, 4)], ["A", 1, H(5, 0, 3, [[1, 1]])]]},
                                  {"ctx": "boot", "acts": [["P", 1, ty, 9, []], ["P", 1, ty, 9, []]]},
                                  {"ctx": "delay", "acts": [["P", 1, ty, None, [[2, 2]]]]}]})
    X = lambda **kw: kw
    # blocking: 1 returns {_min_priority: {all: 0, f1: 4}}: 2 (f1, prio 3) is skipped, 3 (f1, prio 4) and 4 (no facility)
    # are called with the limit in their kwargs; the callback gets it as well; same for a relay event (update) and 'all'
    for ty in ("n", "r", "b"):
        cases.append({"progs": {"1": {"acts": [], "ret": ["B", [[0, 0], [1, 4]]]}, "2": {"acts": [], "ret": ["N"]},
                                "3": {"acts": [], "ret": ["B", [[0, 1]]]}, "9": {"acts": [], "ret": ["N"]}},
                      "stimuli": [{"ctx": "boot", "acts": [["A", 1, H(1, 5, 1)], ["A", 1, H(2, 3, 2) + [X(fac=1)]],
                                                           ["A", 1, H(3, 4, 3) + [X(fac=1)]], ["A", 1, H(4, 0, 2)],
                                                           ["A", 1, H(5, 0, 2) + [X(fac=2)]], ["A", 1, H(6, 1, 2) + [X(fac=2)]]]},
                                  {"ctx": "boot", "acts": [["P", 1, ty, 9, [[1, 1]]], ["P", 1, ty, None, []]]}]})
    # exception: 2 raises after posting: 3 is not called, callback 9 of that post never runs, the waiting event 2 is lost,
    # the event posted before the raise stays queued until the next invocation; callback 8 (queued earlier) survives
    cases.append({"progs": {"1": {"acts": [], "ret": ["N"]}, "2": {"acts": [["P", 3, "n", None, []], ["Z"], ["P", 3, "n", None, []]], "ret": ["N"]},
                            "8": {"acts": [], "ret": ["N"]}, "9": {"acts": [], "ret": ["N"]}},
                  "stimuli": [{"ctx": "boot", "acts": [["A", 1, H(1, 2, 1)], ["A", 1, H(2, 1, 2)], ["A", 1, H(3, 0, 1)],
                                                       ["A", 2, H(4, 0, 1)], ["A", 3, H(5, 0, 1)], ["A", 4, H(6, 0, 1)]]},
                              {"ctx": "boot", "acts": [["P", 4, "n", 8, []], ["P", 1, "n", 9, []], ["P", 2, "n", None, []]]},
                              {"ctx": "delay", "acts": [["P", 2, "n", None, []]]},
                              {"ctx": "timed_switch", "acts": [["P", 1, "n", 9, []]]}]})
    # event strings: 'ev1.2' adds 2 to the priority; replace_handler('ev1.1', ...) / ('ev1{k1==1}', ...) removes nothing;
    # a partial only equals itself: replace with a new partial keeps the old entry, remove with the stored one works
    cases.append({"progs": {"1": {"acts": [], "ret": ["N"]}, "2": {"acts": [], "ret": ["N"]}},
                  "stimuli": [{"ctx": "boot", "acts": [["A", 1, H(1, 0, 1) + [X(psuf=2)]], ["A", 1, H(2, 1, 1)],
                                                       ["A", 1, H(3, 0, 2) + [X(fn=10003)]], ["P", 1, "n", None, [[1, 1]]]]},
                              {"ctx": "boot", "acts": [["H", 1, H(4, 0, 1) + [X(psuf=1)]], ["H", 1, H(5, 0, 1, None, [1, 1])],
                                                       ["H", 1, H(6, 3, 2) + [X(fn=10006)]], ["P", 1, "n", None, [[1, 1]]]]},
                              {"ctx": "switch", "acts": [["E", 1, 10003], ["M", 10099], ["H", 1, H(7, -1, 1)],
                                                         ["P", 1, "n", None, [[1, 1]]]]}]})
    # monitor: every post is reported and queued, also the one nobody listens to; wait_for_any_event on two strings of one
    # event and one of another: the first post resolves (the second handler of the same snapshot finds the future done)
    cases.append({"progs": {"1": {"acts": [["P", 3, "n", None, [[2, 2]]]], "ret": ["N"]}, "9": {"acts": [], "ret": ["N"]}},
                  "stimuli": [{"ctx": "boot", "acts": [["A", 1, H(1, 0, 1)], ["W", 1, [[2, 2, None, None], [1, 3, [1, 1], None]]],
                                                       ["W", 2, [[2, 4, None, None], [2, 5, None, 1]]]]},
                              {"ctx": "boot", "acts": [["O", 1], ["P", 1, "n", 9, [[1, 1]]], ["P", 3, "b", None, []]]},
                              {"ctx": "delay", "acts": [["P", 1, "n", None, [[1, 1]]], ["O", 0], ["P", 3, "n", None, []]]},
                              {"ctx": "boot", "acts": [["P", 2, "r", 9, [[3, 3]]]]}]})
    return cases


def is_nontrivial(ref):
    return bool(ref.flags & {"post-in-dispatch", "reg-in-dispatch", "boolean-stop", "relay-update", "post-in-callback",
                             "mutator-in-dispatch", "blocked", "raise", "future-resolved", "monitored-post",
                             "replace-with-suffix", "future-resolved-twice"})


def one_case(ctx, model, case, sample=True):
    try:
        per_ref, ref = reference(case)
    except TooBig:
        ctx.count("skipped_too_big")
        return
    ctx.evaluated(case, is_nontrivial(ref), sample=sample)
    for f in ref.flags:
        ctx.count(f)
    ctx.count("handler_calls", ref.calls)
    ctx.count("callbacks", sum(1 for tr in per_ref for o in tr if o[0] == "b"))
    for st in case["stimuli"]:
        ctx.count("ctx_" + st["ctx"])
    per, crash, nested, left = run_real(case)
    res = oracle(case, per, crash, nested, left)
    if res is not None:
        small = shrink(case, res[0])
        r2, _ = check_case(small)
        ctx.fail(res[0], small, (r2 or res)[1])
        return
    if getattr(left, "too_big", False):
        ctx.count("skipped_too_big")
        return
    # observations beyond the property's text: counted, compared with the model, never a failure
    for note in getattr(left, "fut_notes", ()):
        ctx.count("obs_" + note)
    if getattr(left, "raised", 0):
        ctx.count("obs_invocations_ended_by_exception", left.raised)
        if left != [0, 0]:
            ctx.count("obs_events_or_callbacks_left_queued_after_exception")
    if model is not None:
        mper = run_model(model, case, want_left=True)
        ctx.compare(case, [show_trace(tr) for tr in per] + ["left %d %d" % (left[0], left[1])], mper)


def small_scope(ctx, model):
    """every case with one event chain a->b, <=2 handlers per event over priorities {0,1}, each handler program one of
    a fixed menu, both registration orders - enumerated completely"""
    import itertools
    menu = [{"acts": [], "ret": ["N"]}, {"acts": [["P", 2, "n", 9, []]], "ret": ["N"]},
            {"acts": [["P", 2, "n", None, []], ["P", 3, "n", 9, []]], "ret": ["F"]}, {"acts": [["R", 1, 2]], "ret": ["D", [[1, 5]]]}]
    n = 0
    for p1, p2 in itertools.product(range(len(menu)), repeat=2):
        for pr1, pr2 in itertools.product([0, 1], repeat=2):
            for ty in ["n", "b", "r"]:
                for first_cb in [None, 9]:
                    progs = {"1": menu[p1], "2": menu[p2], "3": {"acts": [], "ret": ["N"]}, "9": {"acts": [], "ret": ["N"]}}
                    case = {"progs": progs, "stimuli": [
                        {"ctx": "boot", "acts": [["A", 1, [1, pr1, [], None, 1]], ["A", 1, [2, pr2, [[1, 1]], None, 2]],
                                                 ["A", 2, [3, 0, [], None, 3]], ["A", 3, [4, 0, [], None, 3]]]},
                        {"ctx": "boot", "acts": [["P", 1, ty, first_cb, [[1, 0]]], ["P", 3, "n", 9, []]]}]}
                    one_case(ctx, model, case, sample=False)
                    n += 1
    ctx.notes["exhaustive_subspace"] = "%d cases: 2 handlers x 4 programs x 2 priorities each x 3 event types x callback yes/no" % n


def run(ctx):
    model = None if getattr(ctx, "model_unavailable", False) else leanproc.LeanProc(ID)
    try:
        for case in corpus():
            one_case(ctx, model, case)
        if ctx.tier == "thorough" and not ctx.search:
            small_scope(ctx, model)
        from harness.common import mpfleak
        for i in range(ctx.n(700, 9000)):
            r = ctx.rng("case", i)
            one_case(ctx, model, Gen(r).case())
            if i % 200 == 199:
                mpfleak.release()      # MPF's class-level caches keep every booted machine alive (0.8 MB each)
            if len(ctx.failures) >= 3:
                break
    finally:
        if model is not None:
            model.close()


def replay(ctx, rep):
    case = rep["case"]
    res, per = check_case(case)
    if res is not None:
        ctx.fail(res[0], case, res[1])
