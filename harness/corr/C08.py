"""C08 - coils are never driven beyond their configured safety limits.

Implementation side: real Driver devices on a real machine (virtual platform); the platform driver objects and the
platform's rule setters are wrapped *in the harness process* to log every command with its virtual time stamp.
Entry points: Driver.pulse/enable/timed_enable/disable (with and without max_wait_ms: PSU-delayed calls), control events
carrying arbitrary kwargs, coil_player, autofire hardware rules with coil overwrites, DualWoundCoil; second stream
(harness/common/entry_c08.py): ball-device ejectors, flippers, coil_player, DualWoundCoil, DigitalOutput, driver light.
Model side: Gen/DriverVerify.lean (translated from driver.py on every run) executed by the fixed interpreter
Model/PyExec.lean, plus Model/Driver.lean (command log + software timers).
"""
import math
import sys

from harness.common import leanproc
from harness.common.vmachine import VMachine, BootError

ID = "C08"
LEAN_MODULES = ["MpfVerif.Props.C08"]
PROPS_FILE = "MpfVerif/Props/C08.lean"


def _gen_driver_verify():
    from translate import driver_verify
    return driver_verify.generate()


def _gen_call_sites():
    from translate import driver_verify
    return driver_verify.generate_call_sites()


def _gen_driver_ops():
    from translate import driver_verify
    return driver_verify.generate_ops()


GEN = [_gen_driver_verify, _gen_driver_ops, _gen_call_sites]
MANIFEST = {
    "text": "Proof on a Lean model whose code is regenerated from mpf/devices/driver.py on every run as data for two fixed interpreters: the four get_and_verify_* limit functions (pure subset) and the request methods pulse / enable / timed_enable / disable / _pulse_now / _enable_now / _enable_limit_reached / _notify_psu_and_get_wait_ms / event_* (effectful subset: calls on the platform driver, the delay manager, the PSU and the service controller become a log of effects). Proved for every coil configuration and every argument (ints, floats, NaN, None, bool, str, negative, zero): each limit function either raises or returns a value inside [0, limit]; running the TRANSLATED source of a request - with or without max_wait_ms, whatever wait time the PSU answers - and folding its effects gives exactly the verdict, the platform commands (order, powers, durations), the timed_disable / enable_limit_reached deadlines and the PSU-delayed calls (callback, deadline, keyword arguments) of the hand model Model/Driver.lean (requests_refine_source; a refused request has touched neither the platform driver nor a timer nor the pending calls: refused_request_has_no_effect_in_source; the delayed callbacks _pulse_now / _enable_now equal the model's runPend: delayed_calls_refine_source; control events equal the methods; the hold-limit callback switches off and leaves no timer); about that model, by induction over ALL sequences of requests (immediate or PSU-delayed), clock advances and single timer firings in any order the event loop may choose among same-instant timers: every command - sent at once, by a software timer or by a delayed call - is within the limits (cmd_within_limits), a software-timed enable always has its timer registered and not missed and the timer switches the coil off (soft_pulse_always_has_timer, soft_timer_fires*), a coil held by _enable_now since t on a coil with max_hold_duration has its watchdog registered for exactly t + max_hold_duration, not missed, and firing it sends disable (limit_always_armed, limit_timer_disables; for an enable delayed by the PSU t is the moment it is switched ON: delayed_enable_limited_from_switch_on); the table of direct platform-driver call sites of the whole source tree (regenerated) contains only the modelled paths. The model is tied to the real Driver by correspondence on every run (the real event loop's choice among due timers is logged and replayed to the model as fire ops; the real PSU's answer is logged and passed in); the oracle checks every command that reaches the (wrapped) platform driver of a real machine, in a second stream also for ball-device ejectors (pulse / hold / enable: eject_one_ball with jam, retry and per-ball pulse times, ball_search), Flipper sw_flip / sw_release / enable / disable (rules), coil_player (all actions, max_wait_ms), DualWoundCoil, DigitalOutput, a light on a coil (driver-light platform) and autofire rules with coil overwrites.",
    "note": "Trusted: Lean kernel + standard axioms; translate/py2lean.py + translate/py2eff.py (Python ast -> St/Cd/Ex/ESt data) and the interpreters Model/PyExec.lean (~150 lines) and Model/PyEff.lean (~130 lines) giving that data Python's meaning; Model/DriverGen.lean applyEff (what a logged call on hw_driver / delay means for the two named timers and the nameless delayed calls); the refinement theorems assume ConfigSane (platform max_pulse is a number, validated max_hold_duration is None or a number: checked on the real coil of every generated case) and that collaborators answer rather than raise (a PSU that raises on an ill-typed max_wait_ms is driven by the oracle only); the PSU's wait time is an input of the model (logged from the real PowerSupplyUnit), its busy-time arithmetic is not modelled; floats are modelled as exact micro-units (generated parameters are decimal with <= 6 digits; only comparisons occur; waits are whole milliseconds); asyncio timers via the repo's TimeTravelLoop, the order among timers due at the same millisecond is taken from the real loop, never guessed. advance's fuel bound (2 x pending calls + 3) is not proved sufficient (out of fuel the model clock stops before the unfired timer, so the invariants hold regardless; the correspondence would show a shortfall). The entry points of the second stream (ejectors, flippers, coil_player, dual-wound, digital output, driver light, rules) are covered by the oracle on real traces and by the call-site closure theorem, not by Lean models of their own.",
    "technique": "translator (Python ast -> deep-embedded Lean programs, pure and effectful) + Hoare-style and refinement proofs (hand model = translated source) re-checked against current source + invariants by induction over all op sequences and timer schedules + differential correspondence (scheduler choices and PSU answers replayed) and command-log oracle on the real Driver and the devices that use it",
    "translated": True,
}
RULE = ("main stream: a case = one coil limit configuration (max/default pulse ms, pulse power, hold power, allow_enable, "
        "max_hold_duration) + 1-12 ops (api pulse/enable/timed_enable/disable with parameters from a boundary set incl. "
        "0, negatives, fractions, >1, NaN, bool, None; the same with max_wait_ms from {None, 0, 50..1000, -5, 2.5, True, str} "
        "behind a PSU kept busy by earlier requests, incl. directed coincidences of a delayed call with the hold-limit timer / "
        "timed_disable at the same millisecond and queues of delayed calls; control events with kwargs; coil_player entries; "
        "autofire rule overwrites; dual-wound ops; machine-variable defaults; time advances on the 1/8 s grid). second stream: "
        "limits for ten coils + device options (jam/retry/eject times, max wait, enable time, release time, player entries) + "
        "3-10 entry-point ops. non-trivial = at least one op carries a non-default parameter or is refused / any "
        "entry-point op; distinct = canonical JSON of the case")
TRUSTED = ["modelled, not verified: asyncio timers (TimeTravelLoop; same-instant order replayed from the real loop), the PSU's "
           "busy-time arithmetic (its answer is an input), hardware platforms' own handling of a command once it is within limits",
           "translate/py2lean.py + Model/PyExec.lean (Python subset semantics), differential-tested on every run"]
ASSUMPTIONS = ["float parameters are decimal values with at most 6 fractional digits (exact in the micro-unit model)",
               "a limit configured as 0/None counts as unset (the code's own truthiness rule)",
               "PSU wait times are whole milliseconds (integer pulse lengths and release_wait_ms on the ms grid)",
               "collaborator objects (PSU, delay manager, platform driver) answer rather than raise"]

NAN = float("nan")
MS_VALUES = [None, None, 0, 1, 5, 10, 20, 30, 50, 51, 100, 255, 256, 300, 1000, -1, -5, -100, True, 10.0, 2.5, "10"]
PW_VALUES = [None, None, 0, 0.0, 0.25, 0.5, 0.75, 1.0, 1, 1.5, 2, -0.5, -1, -0.000001, 1.000001, NAN, True, "0.5"]


def gen_cfg(r):
    """mostly consistent limit configurations (defaults within maxima); 10% unconstrained to hit config rejection"""
    c = {}
    wild = r.random() < 0.1
    if r.random() < 0.6:
        c["max_pulse_ms"] = r.choice([10, 30, 50, 100])
    if r.random() < 0.5:
        c["default_pulse_ms"] = r.choice([v for v in [5, 10, 20, 30] if wild or v <= c.get("max_pulse_ms", 999)])
    if r.random() < 0.5:
        c["max_pulse_power"] = r.choice([0.25, 0.5, 0.75, 1.0])
    if r.random() < 0.4 or (c.get("max_pulse_power", 1.0) < 1 and not wild):
        c["default_pulse_power"] = r.choice([v for v in [0.125, 0.25, 0.5, 1.0] if wild or v <= c.get("max_pulse_power", 1.0)])
    if r.random() < 0.4:
        c["max_hold_power"] = r.choice([0.25, 0.5, 1.0])
    if r.random() < 0.4:
        c["default_hold_power"] = r.choice([v for v in [0.125, 0.25, 0.5] if wild or v <= c.get("max_hold_power", 1.0)])
    if r.random() < 0.4:
        c["allow_enable"] = True
    if r.random() < 0.4:
        c["max_hold_duration"] = r.choice([0.25, 0.5, 1])
    if r.random() < 0.3:
        c["default_timed_enable_ms"] = r.choice([10, 50, 200]) if (wild or "max_hold_duration" not in c) else 0
    if r.random() < 0.1:
        c["pulse_with_timed_enable"] = True
    if r.random() < 0.25:
        c["default_pulse_ms"] = "machine.kick"      # operator-adjustable default: a template over a machine variable
    # the second coil (hold winding of the dual-wound coil) gets its own limits
    h = {}
    if r.random() < 0.5:
        h["max_pulse_ms"] = r.choice([10, 30, 100])
    if r.random() < 0.5:
        h["allow_enable"] = True
    if r.random() < 0.4:
        h["default_hold_power"] = r.choice([0.25, 0.5])
    if r.random() < 0.3:
        h["max_pulse_power"] = 1.0
        h["default_pulse_power"] = r.choice([0.5, 1.0])
    c["_hold_coil"] = h
    return c


def pick_ms(r):
    return r.choice([None, 5, 10, 20, 30]) if r.random() < 0.55 else r.choice(MS_VALUES)


def pick_pw(r):
    return r.choice([None, 0.125, 0.25]) if r.random() < 0.55 else r.choice(PW_VALUES)


MW_VALUES = [None, 0, 50, 100, 300, 500, 1000, 1000, 1000, -5, 2.5, True, "100"]


def gen_wait_op(r, mw=None):
    """a request with max_wait_ms (the PSU may delay it: it is busy after every accepted pulse / enable)"""
    mw = r.choice(MW_VALUES) if mw is None else mw
    k = r.random()
    if k < 0.45:
        return ["pulse_w", pick_ms(r), pick_pw(r), mw]
    if k < 0.85:
        return ["enable_w", pick_ms(r), pick_pw(r), pick_pw(r), mw]
    return ["timed_w", pick_ms(r), pick_pw(r), pick_ms(r), pick_pw(r), mw]


def gen_op(r):
    if r.random() < 0.12:
        return gen_wait_op(r)
    k = r.random()
    if k < 0.28:
        return ["pulse", r.choice(["api", "api", "event"]), pick_ms(r), pick_pw(r)]
    if k < 0.5:
        return ["enable", r.choice(["api", "api", "event"]), pick_ms(r), pick_pw(r), pick_pw(r)]
    if k < 0.62:
        return ["timed_enable", r.choice(["api", "event"]), pick_ms(r), pick_pw(r), pick_ms(r), pick_pw(r)]
    if k < 0.72:
        return ["disable", r.choice(["api", "event"])]
    if k < 0.8:
        return ["player", r.choice(["pulse", "enable", "disable"])]
    if k < 0.84:
        return ["autofire", r.choice(["enable", "disable"])]
    if k < 0.88:
        return ["setvar", r.choice([5, 10, 20, 40, 60, 120, 250, 300, -5, 0])]
    if k < 0.93:
        return ["dw", r.choice(["pulse", "pulse", "enable", "disable"]), pick_ms(r), pick_pw(r)]
    return ["advance", r.choice([1, 1, 2, 3, 8, 16])]     # eighths of a second


def yaml_val(v):
    if v is True:
        return "true"
    if v is False:
        return "false"
    return str(v)


def build_config(cfg, player, af):
    lines = ["machine_vars:", "  kick:", "    initial_value: 20", "    value_type: int", "    persist: false",
             "switches:", "  s_af:", "    number: 7", "coils:", "  c0:", "    number: 1"]
    for k, v in cfg.items():
        if not k.startswith("_"):
            lines.append("    %s: %s" % (k, yaml_val(v)))
    lines += ["    pulse_events: ev_pulse", "    enable_events: ev_enable", "    disable_events: ev_disable",
              "    timed_enable_events: ev_timed"]
    lines += ["  c1:", "    number: 2"]
    for k, v in (cfg.get("_hold_coil") or {}).items():
        lines.append("    %s: %s" % (k, yaml_val(v)))
    lines += ["dual_wound_coils:", "  dw:", "    main_coil: c0", "    hold_coil: c1",
              "digital_outputs:", "  do1:", "    number: 5", "    type: driver"]
    lines += ["coil_player:"]
    for ev, d in player.items():
        lines.append("  %s:" % ev)
        lines.append("    c0:")
        for k, v in d.items():
            lines.append("      %s: %s" % (k, yaml_val(v)))
    lines += ["autofire_coils:", "  af:", "    coil: c0", "    switch: s_af", "    enable_events: af_on",
              "    disable_events: af_off", "    ball_search_order: 0"]
    if af:
        lines.append("    coil_overwrite:")
        for k, v in af.items():
            lines.append("      %s: %s" % (k, yaml_val(v)))
    return "\n".join(lines) + "\n"


def gen_player(r):
    def pv(vals):
        v = r.choice(vals)
        return v if isinstance(v, (int, float)) and not isinstance(v, bool) and v == v else None
    p = {}
    d = {"action": "pulse"}
    v = pv(MS_VALUES)
    if v is not None:
        d["pulse_ms"] = int(v)
    v = pv(PW_VALUES)
    if v is not None:
        d["pulse_power"] = v
    p["play_pulse"] = d
    d = {"action": "enable"}
    v = pv(PW_VALUES)
    if v is not None:
        d["hold_power"] = v
    v = pv(PW_VALUES)
    if v is not None:
        d["pulse_power"] = v
    p["play_enable"] = d
    p["play_disable"] = {"action": "disable"}
    return p


def gen_af(r):
    af = {}
    if r.random() < 0.6:
        v = r.choice([5, 10, 10, 30, 60, 200, r.choice([-5, 5])])
        af["pulse_ms"] = v
    if r.random() < 0.5:
        af["pulse_power"] = r.choice([0.125, 0.25, 0.5, 1.0, 0.125, 0.25, r.choice([1.5, -0.5, 0.75])])
    return af


def num(v):
    """numeric view of a logged value; None if not a real number"""
    if isinstance(v, bool):
        return int(v)
    if isinstance(v, (int, float)):
        return v
    return None


def in_range(v, lo, hi):
    x = num(v)
    return x is not None and x == x and lo <= x and (hi is None or x <= hi)


def eff_limits(coil):
    c = coil.config
    return {"max_pulse_ms": c["max_pulse_ms"] or None,
            "max_pulse_power": c["max_pulse_power"] if c["max_pulse_power"] else (c["default_pulse_power"] or 0),
            "max_hold_power": (c["max_hold_power"] if c["max_hold_power"] else
                               (1.0 if c["allow_enable"] else (c["default_hold_power"] or 0))),
            "may_hold": bool(c["max_hold_power"] or c["allow_enable"] or c["default_hold_power"]),
            "max_hold_duration": c["max_hold_duration"] or None}


_CUR = None          # the Run whose coil's delay manager is being observed
_PATCHED = False


def _patch_delays():
    """observe (from the harness process) the real DelayManager: which nameless delays the coil adds (the PSU-delayed
    `_pulse_now` / `_enable_now` calls) and which delay callback the event loop runs, in the order it runs them"""
    global _PATCHED
    if _PATCHED:
        return
    from mpf.core.delays import DelayManager
    orig_add, orig_cb = DelayManager.add, DelayManager._process_delay_callback

    def add(self, ms, callback, name=None, **kwargs):
        res = orig_add(self, ms, callback, name, **kwargs)
        r = _CUR
        if r is not None and not name and self is getattr(r.coil, "delay", None):
            r.pend_names.append(res)
        return res

    def process(self, name, callback, **kwargs):
        r = _CUR
        if r is not None and self is getattr(r.coil, "delay", None):
            r.fired.append((round(r.vm.now() * 1000), name))
        return orig_cb(self, name, callback, **kwargs)
    DelayManager.add = add
    DelayManager._process_delay_callback = process
    _PATCHED = True


class Run:
    """one real machine + command log"""

    def __init__(self, cfg, player, af):
        self.vm = VMachine(build_config(cfg, player, af))
        self.log = []

    def start(self):
        self.vm.start()
        m = self.vm.machine
        self.coil = m.coils["c0"]
        self.coil1 = m.coils["c1"]
        self.log1 = []
        self.pend_names = []     # nameless delays of c0 still pending, in the order they were added (= the model's `pend`)
        self.fired = []          # (tick, delay name) of every delay callback of c0 the loop ran
        self.psu_answers = []    # what the real PSU answered to get_wait_time_for_pulse
        global _CUR
        _patch_delays()
        _CUR = self
        psu = self.coil.config["psu"]
        psu_cls = type(psu)
        if not getattr(psu_cls, "_c08_wrapped", False):
            orig_wait = psu_cls.get_wait_time_for_pulse

            def get_wait(self_, pulse_ms, max_wait_ms):
                w = orig_wait(self_, pulse_ms, max_wait_ms)
                if _CUR is not None and self_ is _CUR.coil.config["psu"]:
                    _CUR.psu_answers.append(w)
                return w
            psu_cls.get_wait_time_for_pulse = get_wait
            psu_cls._c08_wrapped = True
        vm = self.vm
        hw1 = self.coil1.hw_driver

        def wrap1(name, f):
            def g(*a, **k):
                caller = sys._getframe(1).f_code.co_name
                self.log1.append([name, round(vm.now() * 1000), [list(x) if isinstance(x, tuple) else x for x in a],
                                  "pulse" if caller == "_pulse_now" else "enable" if caller == "_enable_now" else self.cur])
                return f(*a, **k)
            return g
        for n in ("pulse", "enable", "timed_enable", "disable"):
            setattr(hw1, n, wrap1(n, getattr(hw1, n)))
        hw = self.coil.hw_driver
        log = self.log

        def wrap(name, f):
            def g(*a, **k):
                # the immediate caller tells a software-timed pulse (_pulse_now) from a permanent enable (_enable_now),
                # also when the call is a PSU-delayed callback running inside some later op
                caller = sys._getframe(1).f_code.co_name
                log.append([name, round(vm.now() * 1000), [list(x) if isinstance(x, tuple) else x for x in a],
                            "pulse" if caller == "_pulse_now" else self.cur if caller != "_enable_now" else "enable"])
                return f(*a, **k)
            return g
        for n in ("pulse", "enable", "timed_enable", "disable"):
            setattr(hw, n, wrap(n, getattr(hw, n)))
        plat = self.coil.platform
        for n in ("set_pulse_on_hit_rule", "set_pulse_on_hit_and_release_rule", "set_pulse_on_hit_and_enable_and_release_rule",
                  "set_delayed_pulse_on_hit_rule", "set_pulse_on_hit_and_release_and_disable_rule",
                  "set_pulse_on_hit_and_enable_and_release_and_disable_rule"):
            if hasattr(plat, n):
                def mk(n, f):
                    def g(*a, **k):
                        for x in a:
                            if hasattr(x, "pulse_settings"):
                                log.append(["rule", round(vm.now() * 1000), [list(x.pulse_settings) if x.pulse_settings else None,
                                                                          list(x.hold_settings) if x.hold_settings else None], self.cur])
                        return f(*a, **k)
                    return g
                setattr(plat, n, mk(n, getattr(plat, n)))
        self.vm.align()
        self.t0 = round(self.vm.now() * 1000)
        return self

    def do(self, op):
        """returns 'ok' | 'refused:<ExcName>'"""
        c = self.coil
        m = self.vm.machine
        kind = op[0]
        if kind != "advance":
            self.cur = kind + (":" + op[1] if kind == "player" else "")
        try:
            if kind == "advance":
                self.vm.advance(op[1] / 8.0)
            elif kind == "pulse":
                kw = {}
                if op[2] is not None:
                    kw["pulse_ms"] = op[2]
                if op[3] is not None:
                    kw["pulse_power"] = op[3]
                if op[1] == "api":
                    c.pulse(**kw)
                    self.vm.run()
                else:
                    m.events.post("ev_pulse", **kw)
                    self.vm.run()
            elif kind == "enable":
                kw = {}
                for k, v in (("pulse_ms", op[2]), ("pulse_power", op[3]), ("hold_power", op[4])):
                    if v is not None:
                        kw[k] = v
                if op[1] == "api":
                    c.enable(**kw)
                    self.vm.run()
                else:
                    m.events.post("ev_enable", **kw)
                    self.vm.run()
            elif kind == "timed_enable":
                kw = {}
                for k, v in (("timed_enable_ms", op[2]), ("hold_power", op[3]), ("pulse_ms", op[4]), ("pulse_power", op[5])):
                    if v is not None:
                        kw[k] = v
                if op[1] == "api":
                    c.timed_enable(**kw)
                    self.vm.run()
                else:
                    m.events.post("ev_timed", **kw)
                    self.vm.run()
            elif kind == "disable":
                if op[1] == "api":
                    c.disable()
                    self.vm.run()
                else:
                    m.events.post("ev_disable")
                    self.vm.run()
            elif kind == "player":
                m.events.post("play_" + op[1])
                self.vm.run()
            elif kind == "autofire":
                m.events.post("af_on" if op[1] == "enable" else "af_off")
                self.vm.run()
            elif kind in ("pulse_w", "enable_w", "timed_w"):
                names = {"pulse_w": ("pulse_ms", "pulse_power", "max_wait_ms"),
                         "enable_w": ("pulse_ms", "pulse_power", "hold_power", "max_wait_ms"),
                         "timed_w": ("timed_enable_ms", "hold_power", "pulse_ms", "pulse_power", "max_wait_ms")}[kind]
                kw = {k: v for k, v in zip(names, op[1:]) if v is not None}
                {"pulse_w": c.pulse, "enable_w": c.enable, "timed_w": c.timed_enable}[kind](**kw)
                self.vm.run()
            elif kind == "enable_wait":
                c.enable(max_wait_ms=op[1])          # PSU-delayed enable (same path as EnableCoilEjector)
                self.vm.run()
            elif kind == "pulse_wait":
                c.pulse(pulse_ms=op[1], max_wait_ms=op[2])
                self.vm.run()
            elif kind == "dw":
                d = m.dual_wound_coils["dw"]
                if op[1] == "pulse":
                    kw = {}
                    if op[2] is not None:
                        kw["milliseconds"] = op[2]
                    if op[3] is not None:
                        kw["power"] = op[3]
                    d.pulse(**kw)
                elif op[1] == "enable":
                    d.enable()
                else:
                    d.disable()
                self.vm.run()
            elif kind == "setvar":
                m.variables.set_machine_var("kick", op[1])
                for _ in range(4):      # the template's subscription future and its done-callback need a few loop turns
                    self.vm.run()
            return "ok"
        except BaseException as e:  # a refusal (or a crash) - the machine may be unusable afterwards
            self.dead = kind not in ("pulse", "enable", "timed_enable", "disable", "enable_wait", "pulse_wait", "dw",
                                     "pulse_w", "enable_w", "timed_w") or \
                (kind in ("pulse", "enable", "timed_enable", "disable") and op[1] != "api")
            if not self.dead:
                try:
                    self.vm.run()
                except BaseException:
                    self.dead = True
            return "refused:" + type(e).__name__

    dead = False
    cur = "boot"

    def stop(self):
        global _CUR
        _CUR = None
        self.vm.stop()


def check_log(ctx, case, coil, log, end_tick):
    """the oracle: every logged platform command against the coil's validated configuration"""
    L = eff_limits(coil)
    bad = []
    soft_until = None      # software-timed pulse: a disable is due at this tick
    hold_since = None      # coil held on since this tick (for max_hold_duration)
    for name, t, a, src in log:
        if name == "pulse":
            p, d = a[0]
            if not in_range(d, 0, L["max_pulse_ms"]):
                bad.append(("pulse-duration", name, t, a))
            if not in_range(p, 0, min(1, L["max_pulse_power"])):
                bad.append(("pulse-power", name, t, a))
        elif name in ("enable", "timed_enable"):
            (p, d), (hp, hd) = a[0], a[1]
            soft = name == "enable" and src in ("pulse", "player:pulse")   # _pulse_now's software-timed pulse
            if not in_range(d, 0, L["max_pulse_ms"]):
                bad.append(("pulse-duration", name, t, a))
            if not in_range(p, 0, min(1, L["max_pulse_power"])):
                bad.append(("pulse-power", name, t, a))
            if not soft:
                if not in_range(hp, 0, min(1, L["max_hold_power"])):
                    bad.append(("hold-power", name, t, a))
                if name == "enable" and not L["may_hold"]:
                    bad.append(("hold-not-allowed", name, t, a))
            if name == "timed_enable" and not in_range(hd, 0, None):
                bad.append(("hold-duration", name, t, a))
            if name == "enable" and not soft and hold_since is None:
                hold_since = t      # a permanent enable starts the max_hold_duration clock (software-timed pulses have their own timer)
        elif name == "disable":
            hold_since = None
        elif name == "rule":
            ps, hs = a
            if ps is not None:
                if not in_range(ps[1], 0, L["max_pulse_ms"]):
                    bad.append(("pulse-duration", name, t, a))
                if not in_range(ps[0], 0, min(1, L["max_pulse_power"])):
                    bad.append(("pulse-power", name, t, a))
            if hs is not None and not in_range(hs[0], 0, min(1, L["max_hold_power"])):
                bad.append(("hold-power", name, t, a))
        if hold_since is not None and L["max_hold_duration"] and t > hold_since + L["max_hold_duration"] * 1000 + 1e-6:
            bad.append(("held-past-max-hold-duration", name, t, a))
            hold_since = None
    if hold_since is not None and L["max_hold_duration"] and end_tick > hold_since + L["max_hold_duration"] * 1000 + 1e-6:
        bad.append(("held-past-max-hold-duration", "end", end_tick, hold_since))
    for b in bad[:1]:
        ctx.fail("limit:" + b[0], case, {"command": list(b[1:]), "limits": L, "log": log[-6:]})
    return not bad


def soft_pulse_check(ctx, case, log, ops_with_ticks):
    """every software-timed enable (from _pulse_now) is followed by a disable exactly pulse_ms after the last one"""
    pend = None
    for name, t, a, src in log:
        if name == "enable" and src in ("pulse", "player:pulse"):
            pend = t
        elif name == "disable":
            pend = None
    return pend


def verify_lines(cfg_vals, op):
    """line-protocol queries for the translated verify functions on this op's parameters"""
    return []


def pv(v):
    """PyVal token for the Lean driver"""
    if v is None:
        return "N"
    if v is True:
        return "T"
    if v is False:
        return "F"
    if isinstance(v, int):
        return "i%d" % v
    if isinstance(v, float):
        if v != v:
            return "nan"
        return "f%d" % round(v * 1000000)
    if isinstance(v, str):
        return "s" + v.encode().hex()
    raise ValueError(v)


def check_config_sane(ctx, case, coil):
    """the hypothesis `ConfigSane` of the refinement theorems (Props/C08.lean), checked on the real coil of every case:
    the platform's max_pulse feature is a number, the validated max_hold_duration is None or a number"""
    mp = coil.platform.features["max_pulse"]
    md = coil.config["max_hold_duration"]
    ctx.count("config_sane_checked")
    if not isinstance(mp, (int, float)) or not (md is None or isinstance(md, (int, float))):
        ctx.fail("assumption:config-sane", case, {"max_pulse": repr(mp), "max_hold_duration": repr(md)})


def cfg_tokens(coil):
    c = coil.config
    keys = ["default_pulse_power", "max_pulse_power", "default_hold_power", "max_hold_power", "allow_enable", "max_pulse_ms",
            "max_hold_duration", "pulse_with_timed_enable"]
    toks = [pv(c[k]) for k in keys]
    toks += [pv(coil._pulse_ms), pv(coil._timed_enable_ms), pv(coil.platform.features["max_pulse"])]
    return " ".join(toks)


FUNS = {"pulse_ms": "get_and_verify_pulse_ms", "pulse_power": "get_and_verify_pulse_power",
        "hold_power": "get_and_verify_hold_power", "timed_enable_ms": "get_and_verify_timed_enable_ms"}


def verify_corr(ctx, case, coil, model, r):
    """differential test of the translated functions: same argument to the real method and to the Lean interpreter"""
    model.ask("cfg " + cfg_tokens(coil))
    for fn, meth in FUNS.items():
        vals = MS_VALUES if fn.endswith("_ms") else PW_VALUES
        for v in r.sample(vals, 6):
            try:
                out = getattr(coil, meth)(v)
                impl = "ret " + pv(out)
            except BaseException as e:
                impl = "err " + type(e).__name__
            ans = model.ask("verify %s %s" % (fn, pv(v)))
            ctx.compare(dict(case, what="verify", fn=fn, arg=repr(v)), impl, ans)
            ctx.count("verify_" + ("ret" if impl.startswith("ret") else impl[4:]))


def unpv(t):
    if t == "N":
        return None
    if t == "T":
        return True
    if t == "F":
        return False
    if t == "nan":
        return NAN
    if t[0] == "i":
        return int(t[1:])
    if t[0] == "f":
        return int(t[1:]) / 1000000.0
    if t[0] == "s":
        return bytes.fromhex(t[1:]).decode()
    raise ValueError(t)


NOSRC = ("advance", "setvar", "enable_wait", "pulse_wait", "dw", "pulse_w", "enable_w", "timed_w")      # ops without an api/event source field


def tok_op(op):
    if op[0] == "dw":
        return ["dw", op[1]] + [pv(x) for x in op[2:]]
    return [op[0]] + [x if (i == 0 and op[0] not in NOSRC and isinstance(x, str)) else pv(x) for i, x in enumerate(op[1:])]


def untok_op(t):
    if t[0] == "dw":
        return ["dw", t[1]] + [unpv(x) for x in t[2:]]
    return [t[0]] + [x if (i == 0 and t[0] not in NOSRC) else unpv(x) for i, x in enumerate(t[1:])]


def model_line(op, answers):
    """the model's op line; a request with max_wait_ms carries what the real PSU answered (N: it was not asked / it raised)"""
    w = pv(answers[-1]) if answers else "N"
    k = op[0]
    if k == "pulse_w":
        return "op pulse_wait %s %s" % (" ".join(pv(x) for x in op[1:4]), w)
    if k == "enable_w":
        return "op enable_wait %s %s" % (" ".join(pv(x) for x in op[1:5]), w)
    if k == "timed_w":
        return "op timed_enable_wait %s" % " ".join(pv(x) for x in op[1:6])
    if k == "enable_wait":
        return "op enable_wait N N N %s %s" % (pv(op[1]), w)
    if k == "pulse_wait":
        return "op pulse_wait %s N %s %s" % (pv(op[1]), pv(op[2]), w)
    return "op " + " ".join(tok_op(op))


def run_case(ctx, cfg, player, af, ops, model, r, sample=True):
    case = {"cfg": cfg, "player": player, "af": af, "ops": [tok_op(o) for o in ops]}
    run = Run(cfg, player, af)
    try:
        run.start()
    except BootError as e:
        ctx.count("config_rejected")
        ctx.evaluated(case, False)
        return True
    ok = True
    try:
        results = []
        synced = True
        check_config_sane(ctx, case, run.coil)
        if model is not None:
            verify_corr(ctx, case, run.coil, model, r)
            model.ask("reset " + str(run.t0))
        for op in ops:
            n0, f0, a0 = len(run.log), len(run.fired), len(run.psu_answers)
            res = run.do(op)
            results.append(res)
            ctx.count("op_" + op[0])
            ctx.count("res_" + res.split(":")[0])
            if op[0] in ("pulse_w", "enable_w", "timed_w") and op[-1] is not None and num(op[-1]) is None:
                synced = False       # an ill-typed max_wait_ms makes the PSU itself raise: collaborators that raise are outside the effect model
                ctx.count("psu_raised_unsynced")
            if op[0] in ("player", "autofire", "dw"):
                synced = False       # coil_player / autofire / dual-wound glue is not in the Driver model: oracle only from here on
            if op[0] == "setvar":
                if model is not None and not run.dead:
                    model.ask("cfg " + cfg_tokens(run.coil))     # the templated default changed: new environment
                continue
            if model is not None and synced:
                cmds = "".join(" %s@%d:%s" % (n, t - run.t0, fmt_args(a)) for n, t, a, _ in run.log[n0:])
                if op[0] == "advance":
                    # the event loop chose the order of the timers it ran; the model is told which one ran (`fire`) and
                    # answers not-enabled if that timer could not run then; the final advance_to must find nothing left
                    answers = []
                    for t, name in run.fired[f0:]:
                        if name == "timed_disable":
                            which = "td"
                        elif name == "enable_limit_reached":
                            which = "lim"
                        elif name in run.pend_names:
                            which = "pend %d" % run.pend_names.index(name)
                            run.pend_names.remove(name)
                            ctx.count("fired_delayed_call")
                        else:
                            which = "unknown"
                        ctx.count("fired_" + which.split(" ")[0])
                        answers.append(model.ask("op fire " + which))
                    answers.append(model.ask("op advance_to %d" % (round(run.vm.now() * 1000) - run.t0)))
                    bad = [a for a in answers if not a.startswith("ok")]
                    ans = bad[0] if bad else "ok" + "".join(a[2:] for a in answers)
                    impl = "ok" + cmds     # an exception escaping a timer callback is not a refusal of anything: commands only
                else:
                    ans = model.ask(model_line(op, run.psu_answers[a0:]))
                    impl = res.split(":")[0] + cmds
                    for t, name in run.fired[f0:]:
                        if name in run.pend_names:       # a delayed call due at once: not expected (waits are >= 1 ms)
                            run.pend_names.remove(name)
                            ctx.count("delayed_call_fired_inside_request")
                    if run.psu_answers[a0:] and num(run.psu_answers[-1]) and run.psu_answers[-1] > 0:
                        ctx.count("psu_delayed_request")
                # two named software timers due at the same instant: the second disable may or may not be cancelled by the
                # first.  disable is idempotent: collapse repeats at one instant.
                ctx.compare(dict(case, what="op", op=op), dedupe(impl), dedupe(ans))
            if run.dead:
                break
        end = round(run.vm.now() * 1000)
        if not run.dead:
            try:
                run.vm.advance(4.0)   # let every software timer fire
            except BaseException:
                pass
            end = round(run.vm.now() * 1000)
        nontrivial = any(o[0] != "advance" and any(x is not None for x in o[2:]) for o in ops) or any(x != "ok" for x in results)
        ctx.evaluated(case, nontrivial, sample=sample)
        ok = check_log(ctx, case, run.coil, run.log, end)
        if run.log1:
            ctx.count("hold_coil_commands", len(run.log1))
            ok = check_log(ctx, dict(case, coil="c1"), run.coil1, run.log1, end) and ok
        pend = soft_pulse_check(ctx, case, run.log, None)
        if pend is not None and not run.dead:
            ctx.fail("soft-pulse-not-disabled", case, {"enabled_at_tick": pend, "log": run.log[-6:]})
            ok = False
    finally:
        run.stop()
    return ok


def dedupe(line):
    out = []
    for tok in line.split(" "):
        if tok.startswith("disable@") and out and out[-1] == tok:
            continue
        out.append(tok)
    return " ".join(out)


def fmt_args(a):
    out = []
    for x in a:
        if isinstance(x, list):
            out.append("/".join(pv(y) for y in x))
        else:
            out.append(pv(x))
    return ",".join(out) or "-"


def gen_timer_case(r):
    """directed stream: permissive limits so that holds and software-timed pulses succeed, mostly valid requests,
    short clock steps - overlapping timers (second request before the first deadline) are the point"""
    cfg = {"allow_enable": True}
    if r.random() < 0.7:
        cfg["max_hold_duration"] = r.choice([0.25, 0.5, 1])
    if r.random() < 0.3:
        cfg["default_hold_power"] = r.choice([0.25, 0.5])
    if r.random() < 0.2:
        cfg["max_pulse_ms"] = 1000
    if r.random() < 0.2:
        cfg["default_pulse_ms"] = "machine.kick"
        cfg["max_pulse_ms"] = r.choice([30, 100])
    ops = []
    for _ in range(r.randint(4, 12)):
        k = r.random()
        if k < 0.3:
            ops.append(["pulse", r.choice(["api", "event"]), r.choice([256, 300, 375, 500, 1000, 10, 255, 0]), r.choice([None, 0.5, 1.0])])
        elif k < 0.55:
            ops.append(["enable", r.choice(["api", "event"]), r.choice([None, 10]), r.choice([None, 0.5]), r.choice([None, 0.5, 1.0, 0])])
        elif k < 0.65:
            ops.append(["disable", r.choice(["api", "event"])])
        elif k < 0.7:
            ops.append(["timed_enable", "api", r.choice([10, 100]), None, None, None])
        elif k < 0.75 and "default_pulse_ms" in cfg:
            ops.append(["setvar", r.choice([5, 20, 40, 250, 500])])
        else:
            ops.append(["advance", r.choice([1, 1, 2, 2, 3, 4, 8])])
    k = r.random()
    if k < 0.3:
        # PSU scenario: a pulse makes the power supply busy, the next request is delayed by the PSU, something else
        # (a disable, another request) lands inside the wait
        i = r.randint(0, len(ops))
        ops[i:i] = [["pulse", "api", r.choice([50, 100, 200]), None],
                    r.choice([["enable_wait", r.choice([100, 300, 1000])], ["pulse_wait", r.choice([20, 300]), 500],
                              ["enable_w", r.choice([None, 10]), None, r.choice([None, 0.5]), 1000],
                              ["pulse_w", r.choice([10, 300, 0]), None, 1000]]),
                    r.choice([["disable", "api"], ["disable", "event"], ["advance", 1], ["enable", "api", None, None, None]])]
    elif k < 0.45:
        # coincidence: the delayed call becomes due at the very instant the hold-limit timer does (the loop picks the order)
        cfg["max_hold_duration"] = r.choice([0.25, 0.5])
        busy = int(cfg["max_hold_duration"] * 1000) - 10
        ops = [["enable", "api", None, None, None], ["pulse", "api", busy, None],
               r.choice([["enable_w", None, None, None, 1000], ["pulse_w", r.choice([10, 300]), None, 1000]]),
               r.choice([["disable", "api"], ["advance", 1], ["enable", "api", None, None, None]]),
               ["advance", r.choice([2, 4, 8])], r.choice([["disable", "api"], ["advance", 4]]), ["advance", 8]]
        cfg.pop("max_pulse_ms", None)
        if cfg.get("default_pulse_ms") == "machine.kick":
            cfg.pop("default_pulse_ms")
    elif k < 0.6:
        # coincidence: a delayed call and the timed_disable of a software-timed pulse due at the same millisecond
        ops = [["pulse", "api", 500, None], ["advance", 1],
               r.choice([["pulse_w", 10, None, 1000], ["enable_w", None, None, None, 1000], ["pulse_w", 300, None, 1000]]),
               ["pulse", "api", 385, None], r.choice([["advance", 2], ["advance", 4]]), ["advance", 8]]
        cfg.pop("max_pulse_ms", None)
        if cfg.get("default_pulse_ms") == "machine.kick":
            cfg.pop("default_pulse_ms")
    elif k < 0.75:
        # several requests queue up behind a busy PSU
        i = r.randint(0, len(ops))
        ops[i:i] = [["pulse", "api", r.choice([50, 100, 240]), None]] + \
                   [gen_wait_op(r, r.choice([300, 1000, 1000])) for _ in range(r.randint(1, 3))] + \
                   [r.choice([["disable", "api"], ["advance", 1], ["advance", 2]])]
    return cfg, gen_player(r), {}, ops


def gen_case(r):
    if r.random() < 0.4:
        return gen_timer_case(r)
    cfg = gen_cfg(r)
    return cfg, gen_player(r), gen_af(r), [gen_op(r) for _ in range(r.randint(1, 8))]


def run_entry_case(ctx, case, sample=True):
    """second stream (harness/common/entry_c08.py): ejectors, flippers, coil_player, dual-wound, digital output, driver
    light, hardware rules on one real machine; the oracle on the command log of EVERY coil"""
    from harness.common import entry_c08 as E
    run = E.EntryRun(case)
    full = dict(case, stream="entry")
    try:
        run.start()
    except BootError:
        ctx.count("entry_config_rejected")
        ctx.evaluated(full, False)
        return True
    ok = True
    try:
        results = []
        for op in case["ops"]:
            res = run.do(op)
            results.append(res)
            ctx.count("entry_op_" + op[0] + ("_" + str(op[1]) if op[0] in ("search", "flip", "player") else ""))
            ctx.count("entry_res_" + res.split(":")[0])
            if run.dead:
                break
        if not run.dead:
            try:
                run.vm.advance(4.0)
            except BaseException:
                pass
        end = round(run.vm.now() * 1000)
        ctx.evaluated(full, any(o[0] != "advance" for o in case["ops"]), sample=sample)
        m = run.vm.machine
        for name in E.COILS:
            log = run.logs[name]
            if not log:
                continue
            ctx.count("entry_cmds_" + name, len(log))
            ok = check_log(ctx, dict(full, coil=name), m.coils[name], log, end) and ok
            pend = soft_pulse_check(ctx, full, log, None)
            if pend is not None and not run.dead:
                ctx.fail("soft-pulse-not-disabled", dict(full, coil=name), {"enabled_at_tick": pend, "log": log[-6:]})
                ok = False
        ctx.count("entry_cmds_digital_output", len(run.do_log))
        # observation outside the property (not a failure): EnableCoilEjector arms its switch-off at request time; when the
        # PSU delays the enable past eject_coil_enable_time the disable comes first and the coil stays on
        log = run.logs["c_en"]
        if log and log[-1][0] == "enable" and any(o[0] == "eject_enable" for o in case["ops"]) and not run.dead \
                and not m.coils["c_en"].config["max_hold_duration"]:
            dis = [t for n, t, a, src in log if n == "disable"]
            if dis and dis[-1] < log[-1][1] and log[-1][3] == "enable":
                ctx.count("observed_outside_property_enable_ejector_left_on_after_psu_delay")
                ctx.notes.setdefault("observed_outside_property_enable_ejector_left_on_after_psu_delay", full)
    finally:
        run.stop()
    return ok


def run(ctx):
    model = None if getattr(ctx, "model_unavailable", False) else leanproc.LeanProc(ID)
    try:
        for i in range(ctx.n(350, 5000)):
            r = ctx.rng("case", i)
            cfg, player, af, ops = gen_case(r)
            run_case(ctx, cfg, player, af, ops, model, r)
        from harness.common import entry_c08
        for i in range(ctx.n(80, 1200)):
            run_entry_case(ctx, entry_c08.gen_entry_case(ctx.rng("entry", i)))
    finally:
        if model is not None:
            model.close()


def replay(ctx, rep):
    c = rep["case"]
    if c.get("stream") == "entry":
        run_entry_case(ctx, {k: c[k] for k in ("limits", "dev", "ops")})
        return
    run_case(ctx, c["cfg"], c["player"], c["af"], [untok_op(t) for t in c["ops"]], None, ctx.rng("replay"))
