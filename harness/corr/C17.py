"""C17 - Shows run on schedule without drift and clean up after themselves.

Implementation side: real shows (YAML files generated per case: duration / relative `time: +x` / absolute `time: x`
styles, 1-4 steps setting one or two real lights, optional fades) played through the real show_player / show
controller / RunningShow / light_player in a real machine (virtual time, model unit = 1/64 s), one or two concurrent
shows on the same lights, controlled by play/stop/pause/resume/advance/step_back/update(speed) events at generated
instants.  In some cases a show effect is made *slow* (it advances the loop clock by 1/64 s) so that step timers run
late: a schedule accumulated from "now" instead of absolutely then drifts and is caught.
Model side: MpfVerif.Model.Show.  Timer firings are taken from the run (which `_run_next_step` call came from a timer).
Session 3: times are exact rationals (whole numbers of 1/96000 s on both sides; the implementation's floats must be within
1 us of them), step times 100/125/170/250/330 ms and speeds 3, 0.3, 1.5 besides the dyadic ones, hold steps, start steps from
the end / 0 / beyond the end, `sync_ms` (dyadic and non-dyadic periods; the play request also exactly on a sync multiple),
show files written with show tokens (key, value, nested value + time string, two tokens in one string in a list), plays
with a missing / unknown token.
Session 3b: one log and one model state per show-player *key*, every entry tagged with the RunningShow instance that caused
it (show events are attributed to the instance and the request / timer callback that posted them); plays over an instance
of the same key that still runs or still waits for its sync point - the same show config several times in a row, or a
second show with another config under the same key -, without sync_ms (replaced at once) and with it (the replaced
instance runs on until the replacement starts or is stopped: the deferred stop, chains of them), followed by pause /
advance / step_back / resume / update / stop requests and the end of the mode that owns the show player, before and after
the sync point.
Session 3c: (0) repeated plays through show-player entries WITHOUT events_when_played / events_when_stopped / block_queue
(gen_rep_case): ShowController.replace_or_advance_show then compares the ShowConfig with the instance in the dict and keeps
it, advances it or replaces it - the same request again before the sync point, right after the start, one step later, at
the last step; start_step 1..n+1; another speed (also after update requests); another show-token value; paused,
manual_advance, hold-step and completed shows.  Starts and stops of such instances are observed at RunningShow._start_now /
stop (there is no event to observe).  (a) show-token substitution has a Lean model (Model/ShowToken.lean) compared with the
real Show.get_show_steps_with_token on generated nested step dicts (harness/common/tokens_c17.py).
Session 3d: base priorities.  Show-player entries in a mode with priority 100 played again and again (play, stop, play; the
same request while the show runs) and a child show played from the `shows:` section of a step of a looping parent show with
its own priority: every light-stack entry of a show carries entry priority + base priority on every play, and a competing
entry between the right and the doubled base priority stays visible (gen_prio_case, prio_oracle).
Oracle (model independent): effect start times follow the absolute schedule (exactly, in whole units), a synchronised
start is on the sync grid, not in the past and at most one period away, every start posts `played`, every step has the
token-substituted lights / colour / fade / step event, events once, nothing after stop, and at
the end the lights equal those of a twin machine in which no show was ever played; a replaced instance is stopped (clean-up
+ stopped event, once) in the very request / callback in which its replacement starts or is stopped, nothing else happens
to an instance nobody addressed, and at the end no RunningShow ever created under a stopped key is still running.
"""
from fractions import Fraction

from harness.common import leanproc
from harness.common import tokens_c17
from harness.common.shrink import ddmin
from harness.common.util import InfraError
from harness.common.vmachine import VMachine, BootError

ID = "C17"
LEAN_MODULES = ["MpfVerif.Props.C17"]
PROPS_FILE = "MpfVerif/Props/C17.lean"
GEN = []
MANIFEST = {
  "text": "Proof on a Lean model of RunningShow (mpf/assets/show.py) as driven by the show player, with exact rational times (integer numerators over one common denominator; the model never rounds: the driver refuses a unit that is too coarse for a speed, and kth_step_time_exact proves that for any rational speed num/den - 3, 3/10, 3/2 with 100 ms / 330 ms steps included - the k-th scheduled step starts at T with T*num = t0*num + (sum of the preceding durations)*den, the sum taken first and divided once): for every show (step durations incl. hold steps, speed, loop count, start step positive / negative from the end / 0 / beyond the end), every number of loops and every lateness of the loop's timer callbacks, the executed steps are a prefix of the absolute schedule anchored at the play time - or, with sync_ms, at the synchronised start time, which is proved to be a multiple of sync, strictly after the request, at most one period away and the least such multiple, nothing being played before it; for every sequence of play/stop/pause/resume/advance/step_back/update requests and timer firings a show instance posts played at most once (exactly once when it is played without sync_ms, with sync_ms exactly when it was started by its timer or by a request), stopped exactly once iff it ends up stopped, completed at most once and only in the stopping step (clean-up, stopped, the request's own events, completed - in this order), looped exactly once per consumed loop, nothing but pause acknowledgements after stopped; it never has more than one live timer (the one it can cancel), plays no step and keeps no timer once it is stopped or completed whatever requests arrive later, and has cleared its context in every player it used when it is stopped. On top of it Model/ShowKey.lean models one show-player key with every instance ever created under it: a play over an instance that still runs replaces it - at once without sync_ms, and with sync_ms by a replacement that waits for its sync point and holds the deferred stop of the old instance (start_callback; chains of waiting replacements included); for every sequence of plays, key requests (stop = also the end of the owning mode, pause, resume, advance, step_back, update) and timer callbacks of any instance it is proved that as soon as a replacement has started OR has been stopped (also before it ever started, e.g. after a pause cancelled its sync timer) every older instance is stopped and its stopped event occurs exactly once in the key's trace (replaced_show_stopped_exactly_once), that after a stop request no instance of the key runs (key_stopped_nothing_runs), that every instance's projection of the trace has stopped / played / completed once each (instance_events_once), that an instance holding a deferred stop has neither started nor stopped and names the instance created just before it (replaces_previous), and that every stopped instance - replaced ones included - has a clean context and no timer (context_removed_all). A play whose entry has no events_when_played / events_when_stopped / block_queue goes through the model of ShowController.replace_or_advance_show (KOp.playc, decision keep / advance / replace exactly as the code: replace unless the instance in the dict runs, has the identical ShowConfig - config id, loops, sync_ms and the current speed and manual_advance - and has played a step; keep when current_step_index + 1 == start_step, advance when current_step_index + 2 == start_step); all theorems above are proved for op sequences that contain such plays, and for every state it is proved that a repeated play never keeps, advances or starts an instance that still waits for its sync point - with sync_ms the request emits nothing and leaves the waiting instance, its sync timer and its start time on the grid untouched (repeated_play_keeps_sync) -, that a kept instance and every continuation of the run are unchanged (kept_instance_unchanged), and that the advance shortcut is exactly an advance request and is taken only one step before the requested start step with the identical config (advance_is_advance_request). Show-token substitution (Show.get_show_steps_with_token with _replace_token_values / _replace_token_keys incl. fix 4ec5a75) is modelled in Model/ShowToken.lean over flattened entries (path of keys, value) of segment lists produced by a scanner for the token syntax: it is total (tokens_total: all tokens supplied => no token left in any key or value at any depth), capture-free (tokens_capture_free: one token after the other through the values and then through the keys, as the code does it, equals the simultaneous substitution) and the identity without tokens / for tokens that do not occur (tokens_identity). The model is tied to the real show player / show controller / RunningShow / light player by a correspondence run on generated shows (dyadic and non-dyadic step times and speeds, sync_ms, start steps, hold steps, show files written with show tokens in keys, nested values, lists and time strings, one or two shows under one key, show player at machine level or in a mode) and control sequences on every check, with a model-independent oracle on effect timestamps (exact Fractions, tolerance 1 us), the sync grid, events per instance, deferred stops, token-substituted lights / colours / fades / step events and a twin machine without shows; repeated plays through entries without played/stopped events (decision of replace_or_advance_show compared with the model's on every such play; oracle: a waiting show is never started by a play request, a kept / advanced instance has the identical config and ends up at the requested start step); token substitution: the real get_show_steps_with_token on generated nested step dicts (tokens in keys at several depths, several tokens per key / value, tokens in list items and time strings, missing / extra / no tokens, `()` and unbalanced parentheses) against the model and against an independent regex substitution, incl. 'the show's own steps are not modified' and the step cache. Priorities (oracle only, no theorem): every light-stack entry a show creates must carry the priority of its show-player entry + the base priority (priority of the mode that owns the show player; for a show played from the `shows:` section of a step of a parent show the parent's priority, itself entry + mode) - on the first play and on every later play of the same entry (play, stop, play again; the same request again while it runs; every loop of an endless parent show) -, checked on every effect, on the light stacks after every request, and by a competing stack entry just above the right priorities (mode priority + 50, child priority + 3) that must stay the visible colour throughout.",
  "note": "Trusted: Lean kernel + {propext, Classical.choice, Quot.sound}; the hand-written model Model/Show.lean (validated only by differential runs); IEEE floats are outside the model: the implementation's float times are compared with the exact rational ones with a tolerance of 1 us, and a play request that falls (within float error) on a sync multiple is checked by the oracle only (start now or one period later are both accepted); the token model works on segment lists: token names containing '(' and replacement values containing parentheses are outside it (driver: bad-op / excluded by the generator), sibling keys that become equal after substitution are not compared, nested lists are not generated (mpf's _walk_show miscounts their indices: observation); RuntimeToken values and expand_config_entry of the players are not modelled (end-to-end oracle on the real machine only); the config id of a ShowConfig (show name, priority, show tokens, events_when_looped/... lists) is assigned by the harness; `start_step is None` (never produced by the show player) is not modelled; show queues / action queue / block_queue, show pools and players other than lights/events are outside the model and not exercised; the order of same-instant timer callbacks of two instances of one key is taken from the run; the clean-up of the light stacks themselves is checked by the oracle (twin machine) and by C09's model, not proved here; the priority with which a step's lights are set is not part of the Lean model (the config id of a play carries the entry's priority; base priorities are checked by the harness oracle only); a parent show and the child it plays from a step are run and checked by the oracle (priority, the child's absolute schedule per instance, stopped and off the stack when the parent stops) but are outside the per-key logs and the Lean model.",
  "technique": "Lean 4 theorems (invariants by induction over all request sequences; schedule as a prefix of the absolute schedule for all latenesses; exact rational schedule by divisibility; sync start as least multiple; chain invariant and per-instance event ledger over the list of instances of a key) on a hand model + differential correspondence with real shows + schedule/sync/token/clean-up oracle against a twin machine",
  "translated": False,
 }
RULE = ("a case = 1-2 generated show files (1-4 steps) + play settings + 3-12 control requests (pause, resume without pause, "
        "advance, step_back, speed update, stop, re-play) at gaps of 0..28 units of 1/32 s, biased to step boundaries, then stop "
        "of everything, 2-4 further requests for the stopped shows, and a quiet tail.  45% legacy cases: durations 1-6 ticks "
        "of 1/8 s written as duration / relative time / absolute time, speed 0.5/1/2/4, loops -1/0/1/2, start step 1..n, "
        "start_running, manual_advance, priority; in 4 of 7 cases the lights have a non-zero fade (125/250/500 ms), two "
        "shows use the same lights and their stops land inside each other's fade-out windows; afterwards the stacks must "
        "equal the twin's and a later low-priority fade must produce the twin's hardware fade commands.  55% extended "
        "cases: step times 100/125/170/250/330 ms, 20% with a hold step (duration -1), speeds 1/3/0.3/1.5/2/4/0.5 (also "
        "as update requests), 40% start steps from -1, -n, -n-1, 0, n+1, n+3, sync_ms from 0/125/250/500/1000/330/100, "
        "45% show files written with show tokens (light list as a key token, colours as value tokens, nested colour + fade "
        "time string, a step event with two tokens in one string inside a list), request gaps also odd multiples of 1/32 s.  "
        "35% of the cases play over instances that still run or wait: sync_ms 125..1000/330/100 in 3 of 4 shows, in 60% "
        "of the two-show cases show B is played under A's key, 30% of the requests for a live key are another play (same "
        "show config again, or the other show), request gaps 0..24 units incl. odd ones (before and after the sync "
        "point), 25% manual_advance; 20% of all cases have the show player in a mode and 60% of those end with the end "
        "of the mode instead of stop requests.  "
        "A third stream (gen_rep_case) plays through entries without events_when_played/stopped: 1-2 shows of 1-4 steps (85% such "
        "entries), sync_ms 0/125..1000/330/100, 30% manual_advance, 15% start_running false, 50% of the 4-14 requests are plays "
        "for a live key - the same request again (30%), the same entry with start_step 1..n+1 (52%), with another speed or another "
        "token value (18%) - at gaps 0,1,2,3,4,6,8,12,16,24 units (before the sync point, right after the start, a step later, "
        "at the last step), the rest pause/resume/advance/step_back/speed updates (to the same and to another speed)/stop.  "
        "A fourth stream substitutes tokens in generated nested step dicts (0-4 token names, 1-3 steps, dict depth <= 3, 1-4 "
        "parts per string, 10% list values, `()` / unbalanced parentheses, all / some / no / extra tokens supplied).  "
        "A fifth stream (gen_prio_case) takes a case of the first or third stream, puts the show player into mode m1 (priority "
        "100; 85%), gives every entry a priority 0/1/5, adds 1-3 `stop, play, play` / `play, play` groups for one show, a competing "
        "entry on l1/l2 at mode priority + 50, and in 75% a parent show (priority 3/7, steps 250+125 / 125+250 / 500+125 ms, endless) "
        "whose first step plays a child show (entry priority 0/2, 2/3/6 steps of 125 ms on l3, competing entry 3 above) through "
        "its `shows:` section; the parent loops at least twice more before its stop and is stopped and played again in 40%.  "
        "A separate stream plays tokenised shows with a missing / an unknown token.  30% of the cases run with slow effects "
        "(late timers).  non-trivial = at least one control request lands while the show runs or the show loops/completes; "
        "distinct = canonical JSON of the case")
TRUSTED = [
    "modelled, not verified: asyncio call_at / TimerHandle.cancel, the event queue's FIFO order for show events, the show "
    "loader's duration computation (its result is asserted against the generator's durations, tolerance 1e-9 s), light_player's "
    "color/remove calls per step; the regex of Show._check_token and str.replace (Model/ShowToken.lean has its own scanner, compared on every run)",
    "Model/Show.lean, Model/ShowKey.lean and Model/ShowToken.lean are hand-written; tied to mpf/assets/show.py, show_controller.py, show_player.py by correspondence on every run and by source pins (harness/pins/C17.json)",
    "instances of entries without events_when_played/stopped: start and stop are observed by wrapping RunningShow._start_now / stop; their order relative to events of other instances is not compared",
    "IEEE doubles: implementation times are accepted within 1 us of the exact rational time (harness units()); the clock at a "
    "request instant may be up to one clock resolution before the grid instant when non-dyadic timers are pending",
]
ASSUMPTIONS = ["all durations, sync periods and request instants are whole numbers of 1/96000 s and every duration/speed is too "
               "(checked by the Lean driver: bad-op otherwise)",
               "start_step of a play is an integer (the show player's template_int, default 1), never None",
               "token values contain no parentheses, token names no '(' ; a play request on an exact sync multiple is compared with the model only "
               "when clock and period are dyadic"]

# Times are exact rationals: integer numerators over the common denominator D (units per second).  D is a multiple of 64
# (request instants and the slow-effect bump are on the 1/64 s grid), of 1000 (durations and sync_ms are whole ms) and of
# 1000 * lcm(speed numerators) (so that every duration / speed is a whole number of units): the model never rounds.
D = 96000
UNIT = 1.0 / 64          # request gaps are given in 1/32 s = 2 * UNIT; a slow effect advances the clock by UNIT
SLOW = D // 64           # ... in model units
LATE = 8 * SLOW          # sanity bound on how late a timer callback may run (several slow effects of concurrent shows with
#                          non-dyadic timers can pile up before the test loop resets its clock); the property is about the
#                          step's start *time*, which must be the scheduled one however late the callback is, and never early
TPU = D // 8             # one legacy tick of 1/8 s
MS = D // 1000
TOL = Fraction(1, 1000000)   # 1 us: the largest deviation from the exact rational time that is accepted
LIGHTS = ["l1", "l2"]
MODE_PRIO = 100          # priority of mode m1: the base priority of every show its show player plays
COMP_COLOR = (1, 2, 250)     # colour of the competing stack entry (cases with "comp")
CHILD_MS = 125           # step time of the child show of a parent show (cases with "parent")
EVS = ["played", "stopped", "looped", "paused", "resumed", "advanced", "stepped_back", "completed"]
ACTIONS = {"stop": "stop", "pause": "pause", "resume": "resume", "advance": "advance", "back": "step_back"}
SPEEDS = {"0.5": (1, 2), "1": (1, 1), "2": (2, 1), "4": (4, 1), "3": (3, 1), "0.3": (3, 10), "1.5": (3, 2)}
DYADIC_SYNC = (125, 250, 500, 1000)     # ms values for which `t % (sync/1000.0)` is exact on the 1/64 s grid


def step_color(show, idx):
    return (10 * (idx + 1) + (0 if show == "A" else 5), 7 * idx + 1, 200 if show == "A" else 100)


def durs_ms(spec):
    """step durations in ms as written in the show file (-1 = hold for ever)"""
    return list(spec["ms"]) if "ms" in spec else [d * 125 for d in spec["durs"]]


def show_yaml(show, spec):
    """spec: {"durs": [ticks...] or "ms": [ms...], "style": duration|rel|abs, "lights": n, "fade": ticks or 0, "tok": bool}
    With "tok" the show file is written with show tokens: the lights as a *key* token `(lt)` (its value may be the list
    "l1, l2"), the colours as *value* tokens `(c<i>)`, nested one level down together with the fade as a *time string*
    token `(fd)`, and a step event `s(e)v_(nm)_<i>` as two tokens inside one string inside a list."""
    out = []
    t = 0
    durs = durs_ms(spec)
    tok = spec.get("tok")
    for i, d in enumerate(durs):
        lines = []
        if spec["style"] == "duration":
            lines.append("duration: %s" % ("-1" if d < 0 else "%dms" % d))
        elif spec["style"] == "rel":
            lines.append("time: %s" % ("0" if i == 0 else "+%dms" % durs[i - 1]))
        else:
            lines.append("time: %dms" % t if i else "time: 0")
        t += d
        lines.append("lights:")
        c = "%02x%02x%02x" % step_color(show, i)
        if tok:
            if spec["fade"] or i % 2:
                lines.append("  (lt):")
                lines.append("    color: (c%d)" % i)
                if spec["fade"]:
                    lines.append("    fade: (fd)")
            else:
                lines.append("  (lt): (c%d)" % i)
            lines.append("events:")
            lines.append("  - s(e)v_(nm)_%d" % i)          # two tokens in one key
            if spec.get("ztok"):
                lines.append("  - zz_(z)")                 # a token whose value changes nothing the oracle looks at
        else:
            for l in LIGHTS[:spec["lights"]]:
                lines.append("  %s: %s%s" % (l, c, "-f%dms" % (spec["fade"] * 125) if spec["fade"] else ""))
        out.append("- " + lines[0] + "\n" + "".join("  " + x + "\n" for x in lines[1:]))
    return "".join(out)


def show_tokens(show, spec, mode=None, z="za"):
    """the token values the play entry hands in (mode: None | "missing" | "extra")"""
    toks = {"lt": ", ".join(LIGHTS[:spec["lights"]]), "nm": show, "e": "e"}
    if spec.get("ztok"):
        toks["z"] = z
    for i in range(len(durs_ms(spec))):
        toks["c%d" % i] = "%02x%02x%02x" % step_color(show, i)
    if spec["fade"]:
        toks["fd"] = "%dms" % (spec["fade"] * 125)
    if mode == "missing":
        del toks["c0"]
    elif mode == "extra":
        toks["nosuchtoken"] = "x"
    return toks


def effective_durs(spec):
    """what the loader must compute (in ms; -1 = hold): with `time:` styles the last step gets the default of 1 s"""
    if spec["style"] == "duration":
        return durs_ms(spec)
    return durs_ms(spec)[:-1] + [1000]


def model_durs(spec):
    """... in model units (0 = hold)"""
    return [d * MS if d > 0 else 0 for d in effective_durs(spec)]


def first_idx(start, total):
    """the step a play starts with; None = beyond the end (the code treats it as `at the end of the show`)"""
    if start > total:
        return None
    return start - 1 if start > 0 else start % total if start < 0 else 0


def key_of(case, name):
    """the show-player key a show is played under (default: its own; "key": "A" = the key of show A)"""
    return case["shows"][name].get("key", name)


def other_speed(sp):
    return "2" if sp == "1" else "1"


def entry(case, name, act):
    """the settings of the show-player entry a play request `act` of show `name` uses: "play" = the base entry; in cases
    with repeated plays ("rep") also "play@<k>" = the same entry with start_step k, "playv" = with another speed, "playt" =
    with another value of show token z.  Returns the play dict (+ "z")"""
    p = dict(case["shows"][name]["play"], z="za")
    if act.startswith("play@"):
        p["start"] = int(act[5:])
    elif act == "playv":
        p["speed"] = other_speed(p["speed"])
    elif act == "playt":
        p["z"] = "zb"
    return p


def play_variants(case, name):
    sh = case["shows"][name]
    if not case.get("rep"):
        return ["play"]
    out = ["play"] + ["play@%d" % k for k in range(1, len(durs_ms(sh["spec"])) + 2)] + ["playv"]
    if sh["spec"].get("ztok"):
        out.append("playt")
    return out


def event_of(act, name):
    if act.startswith("play@"):
        return "play_%s_s%s" % (name, act[5:])
    return act.replace(".", "p") + "_" + name


def cfg_id(case, name, act):
    """the model's config id: what ShowConfig compares besides speed / loops / sync_ms / manual_advance"""
    return 2 * sorted(case["shows"]).index(name) + (1 if act == "playt" else 0)


def show_player_yaml(case):
    s = "show_player:\n"
    for name, sh in sorted(case["shows"].items()):
        key = key_of(case, name)
        for act in play_variants(case, name):
            p = entry(case, name, act)
            s += "  %s:\n    sh%s:\n      key: k%s\n      speed: %s\n      loops: %d\n      start_step: %d\n" % (
                event_of(act, name), name, key, p["speed"], p["loops"], p["start"])
            s += "      start_running: %s\n      manual_advance: %s\n      priority: %d\n" % (
                "true" if p["running"] else "false", "true" if p["manual"] else "false", p["prio"])
            if p.get("sync"):
                s += "      sync_ms: %d\n" % p["sync"]
            if sh["spec"].get("tok"):
                s += "      show_tokens:\n"
                for k, v in sorted(show_tokens(name, sh["spec"], sh["spec"].get("tokmode"), p["z"]).items()):
                    s += "        %s: \"%s\"\n" % (k, v)
            for e in EVS:
                # a *plain* entry has no events_when_played / events_when_stopped: ShowController.replace_or_advance_show
                # then compares the configs and may keep or advance the running instance instead of replacing it
                if not (sh.get("plain") and e in ("played", "stopped")):
                    s += "      events_when_%s: %s_%s\n" % (e, name, e)
        for a, act in ACTIONS.items():
            s += "  %s_%s:\n    sh%s:\n      key: k%s\n      action: %s\n" % (a, name, name, key, act)
        for sp in SPEEDS:
            s += "  speed%s_%s:\n    sh%s:\n      key: k%s\n      action: update\n      speed: %s\n" % (
                sp.replace(".", "p"), name, name, key, sp)
    if case.get("parent"):
        s += "  play_P:\n    shP:\n      priority: %d\n      loops: -1\n  stop_P:\n    shP: stop\n" % case["parent"]["prio"]
    return s


def base_prio(case):
    """what ShowPlayer.play adds to the priority of an entry: the priority of the mode the show player belongs to"""
    return MODE_PRIO if case.get("mode") else 0


def want_prio(case, name):
    """the priority every light-stack entry of show `name` must carry - the same on every play of the entry"""
    return case["shows"][name]["play"]["prio"] + base_prio(case)


def child_prio(case):
    """... of the child show played from the `shows:` section of the parent's first step: entry + parent's priority, and
    the parent's is its own entry + the mode's"""
    return case["parent"]["cprio"] + case["parent"]["prio"] + base_prio(case)


def comp_prio(case):
    """the competing entry on l1 / l2: above every right show priority, below every accumulated one (mode cases)"""
    return base_prio(case) + 50


def parent_shows(case):
    """shP: step 1 plays shC (endless, on l3) through its `shows:` section, step 2 is empty; shP loops for ever, so shC is
    requested again - through the same validated step config - every n1 + n2 ms"""
    pa = case["parent"]
    p = "- duration: %dms\n  shows:\n    shC:\n      priority: %d\n      loops: -1\n- duration: %dms\n" % (
        pa["ms"][0], pa["cprio"], pa["ms"][1])
    c = "".join("- duration: %dms\n  lights:\n    l3: %02x%02x%02x\n" % ((CHILD_MS,) + child_color(i)) for i in range(pa["csteps"]))
    return {"shP": p, "shC": c}


def child_color(i):
    return (20 + i, 40 + i, 60)


def config_yaml(case):
    lf = case.get("light_fade", 0)
    s = ""
    per_light = ""
    if lf and case.get("fade_style") == "default":
        s += "light_settings:\n  default_fade_ms: %d\n" % lf
    elif lf:
        per_light = ", fade_ms: %d" % lf
    s += "lights:\n  l1: {number: 1, subtype: led%s}\n  l2: {number: 2, subtype: led%s}\n" % (per_light, per_light)
    if case.get("parent"):
        s += "  l3: {number: 3, subtype: led}\n"
    if case.get("mode"):
        # the show player lives in a mode: the end of the mode stops every show of its context (clear_context)
        return s + "modes:\n  - m1\n"
    return s + show_player_yaml(case)


def mode_yaml(case):
    return ("mode:\n  start_events: start_m1\n  stop_events: stop_m1\n  game_mode: false\n  priority: 100\n" +
            show_player_yaml(case))


SYNCS = [125, 250, 500, 1000, 330, 330, 100]


def gen_case(r, over=None):
    """over: None = 35% of the cases have plays over a still-running instance of the same key (replacement: at once, or -
    with sync_ms - deferred to the new instance's sync point); False = never (the token-refusal stream)"""
    shows = {}
    ext = r.random() < 0.55
    if over is None:
        over = r.random() < 0.35
    # a non-zero light fade: every removal of a show's context then leaves a fade-out entry behind for that long
    light_fade = r.choice([0, 0, 0, 125, 250, 250, 500])
    for name in (["A", "B"] if r.random() < 0.5 or light_fade else ["A"]):
        n = r.randint(1, 4)
        spec = {"durs": [r.choice([1, 2, 2, 3, 4, 6]) for _ in range(n)], "style": r.choice(["duration", "duration", "rel", "abs"]),
                "lights": r.choice([1, 2]), "fade": r.choice([0, 0, 1, 2])}
        if n == 1:
            spec["style"] = "duration"
        if light_fade:
            spec["lights"] = 2          # both shows on the same lights
        play = {"speed": r.choice(["1", "1", "2", "4", "0.5"]), "loops": r.choice([-1, -1, 0, 1, 2]), "start": r.randint(1, n),
                "running": r.random() < 0.88, "manual": r.random() < 0.1, "prio": r.choice([0, 1, 1, 5])}
        if ext:
            # non-dyadic step times and speeds, hold steps, start steps from the end / beyond the end / 0, sync_ms, tokens
            spec["ms"] = [r.choice([100, 100, 330, 125, 250, 170]) for _ in range(n)]
            del spec["durs"]
            if r.random() < 0.2:
                spec["ms"][r.choice([n - 1, n - 1, r.randrange(n)])] = -1
                spec["style"] = "duration"
            spec["tok"] = r.random() < 0.45
            play["speed"] = r.choice(["1", "3", "0.3", "1.5", "3", "2", "4", "0.5"])
            if r.random() < 0.4:
                play["start"] = r.choice([-1, -1, -n, -n - 1, 0, n + 1, n + 3])
            play["sync"] = r.choice([0, 0, 0] + SYNCS)
        if over:
            # replacements wait for their sync point in 3 of 4 shows; more endless shows (something to replace)
            if r.random() < 0.75:
                play["sync"] = r.choice(SYNCS)
            else:
                play["sync"] = 0
            if r.random() < 0.5:
                play["loops"] = -1
            if r.random() < 0.25:
                play["manual"] = True
        shows[name] = {"spec": spec, "play": play}
    if over and len(shows) == 2 and r.random() < 0.6:
        shows["B"]["key"] = "A"             # a different show (and show config) replaces A under A's key
    case = {"shows": shows}
    keyof = {name: key_of(case, name) for name in shows}
    ops = []
    alive = set()
    for name in shows:
        ops.append([r.choice([0, 0, 2, 4, 3, 5] if ext else [0, 0, 2, 4]), name, "play"])
        alive.add(keyof[name])
    for _ in range(r.randint(3, 12) + (3 if over else 0)):
        name = r.choice(sorted(shows))
        gap = r.choice([0, 2, 2, 4, 4, 6, 8, 8, 12, 16, 24, 28])
        if over:
            gap = r.choice([0, 1, 2, 2, 3, 4, 4, 6, 8, 8, 12, 16, 24])      # more instants before the sync point
        k = r.random()
        if keyof[name] not in alive:
            act = "play" if k < 0.7 else r.choice(["resume", "advance", "back", "pause"])
        elif over and r.random() < 0.3:
            act = "play"                    # over the instance that still runs / still waits for its sync start
        elif k < 0.2:
            act = "pause"
        elif k < 0.45:
            act = "resume"
        elif k < 0.6:
            act = "advance"
        elif k < 0.75:
            act = "back"
        elif k < 0.87 and not shows[name]["play"]["manual"]:
            act = "speed" + r.choice(sorted(SPEEDS) if ext else ["0.5", "1", "2", "4"])
        else:
            act = "stop"
        if act == "play":
            alive.add(keyof[name])
        if act == "stop":
            alive.discard(keyof[name])
        ops.append([gap, name, act])
    n0 = len(ops)
    fu = light_fade * 32 // 1000         # the fade-out window in request-gap units (1/32 s)
    mode = r.random() < 0.2
    if mode and r.random() < 0.6:
        ops.append([r.choice([0, 2, 6, 40]), "*", "modeend"])      # the mode ends: every show of its show player is stopped
    else:
        for i, name in enumerate(sorted(shows)):
            # the stops land inside each other's fade-out windows, at the same instant, or exactly at a window's end
            gaps = [0, 2, 6, 40] if not fu or i == 0 else [0, 0, 1, 2, max(fu // 2, 1), max(fu - 1, 1), fu, fu + 2]
            ops.append([r.choice(gaps), name, "stop"])
    for _ in range(r.randint(2, 4)):
        ops.append([r.choice([0, 2, 8]), r.choice(sorted(shows)), r.choice(["resume", "advance", "back", "pause", "speed2"])])
    case.update({"ops": ops, "slow": r.random() < 0.3, "bg": r.random() < 0.6, "tail": 64, "keep": len(ops) - n0,
                 "light_fade": light_fade, "fade_style": r.choice(["light", "default"]), "mode": mode})
    return case


def gen_rep_case(r):
    """repeated plays under one key through entries WITHOUT events_when_played / events_when_stopped (and without
    block_queue): ShowController.replace_or_advance_show then compares the new ShowConfig with the instance in the dict
    and keeps it (same config, already at the requested start step), advances it (one step before it) or replaces it.
    The same request again at generated instants - before the sync point, right after the start, one step later, at the
    last step -, requests with every start_step 1..n+1, with another speed, with another show-token value, after update
    requests (the *current* speed counts), on paused / manual_advance / hold-step / completed shows."""
    shows = {}
    ext = r.random() < 0.5
    for name in (["A", "B"] if r.random() < 0.35 else ["A"]):
        n = r.choice([1, 2, 2, 3, 3, 4])
        spec = {"durs": [r.choice([1, 2, 2, 3, 4, 6]) for _ in range(n)], "style": r.choice(["duration", "duration", "rel", "abs"]),
                "lights": r.choice([1, 2]), "fade": r.choice([0, 0, 1])}
        if n == 1:
            spec["style"] = "duration"
        play = {"speed": r.choice(["1", "1", "2", "0.5"]), "loops": r.choice([-1, -1, -1, 0, 1, 2]), "start": r.randint(1, n),
                "running": r.random() < 0.85, "manual": r.random() < 0.3, "prio": r.choice([0, 1, 5]),
                "sync": r.choice([0, 0, 0, 125, 250, 500, 1000, 1000])}
        if ext:
            spec["ms"] = [r.choice([100, 100, 330, 125, 250, 170]) for _ in range(n)]
            del spec["durs"]
            if r.random() < 0.25:
                spec["ms"][r.choice([n - 1, r.randrange(n)])] = -1
                spec["style"] = "duration"
            spec["tok"] = r.random() < 0.5
            spec["ztok"] = spec["tok"]
            play["speed"] = r.choice(["1", "3", "0.3", "1.5", "2", "1"])
            play["sync"] = r.choice([0, 0] + SYNCS)
        shows[name] = {"spec": spec, "play": play, "plain": r.random() < 0.85}
    if len(shows) == 2 and r.random() < 0.5:
        shows["B"]["key"] = "A"
        if r.random() < 0.5:
            shows["B"]["plain"] = shows["A"]["plain"] = True
    case = {"shows": shows, "rep": True}
    keyof = {name: key_of(case, name) for name in shows}
    ops = []
    for name in shows:
        ops.append([r.choice([0, 0, 2, 3, 5]), name, "play"])
    for _ in range(r.randint(4, 14)):
        name = r.choice(sorted(shows))
        n = len(durs_ms(shows[name]["spec"]))
        gap = r.choice([0, 0, 1, 1, 2, 2, 3, 4, 4, 6, 8, 8, 12, 16, 24])
        k = r.random()
        if k < 0.5:
            k2 = r.random()
            variants = play_variants(case, name)
            if k2 < 0.3:
                act = "play"                                   # the very same request again
            elif k2 < 0.82:
                act = "play@%d" % r.randint(1, n + 1)          # ... with start_step at / one after / elsewhere
            elif k2 < 0.91 or "playt" not in variants:
                act = "playv"
            else:
                act = "playt"
        elif k < 0.58:
            act = "pause"
        elif k < 0.66:
            act = "resume"
        elif k < 0.76:
            act = "advance"
        elif k < 0.84:
            act = "back"
        elif k < 0.92:
            sp = shows[name]["play"]["speed"]
            act = "speed" + r.choice([sp, sp, other_speed(sp)] + (sorted(SPEEDS) if ext else ["0.5", "1", "2", "4"]))
        else:
            act = "stop"
        ops.append([gap, name, act])
    n0 = len(ops)
    mode = r.random() < 0.15
    if mode and r.random() < 0.6:
        ops.append([r.choice([0, 2, 6, 40]), "*", "modeend"])
    else:
        for name in sorted(shows):
            ops.append([r.choice([0, 2, 6, 40]), name, "stop"])
    for _ in range(r.randint(2, 3)):
        ops.append([r.choice([0, 2, 8]), r.choice(sorted(shows)), r.choice(["resume", "advance", "back", "pause", "speed2"])])
    case.update({"ops": ops, "slow": r.random() < 0.25, "bg": r.random() < 0.6, "tail": 64, "keep": len(ops) - n0,
                 "light_fade": 0, "fade_style": "light", "mode": mode})
    return case


def gen_prio_case(r):
    """base priorities: the show player lives in mode m1 (priority 100; 85%), every show entry has its own priority 0/1/5 and
    is triggered again and again (play, stop, play; re-posted while it runs), a competing entry sits on l1 / l2 at mode
    priority + 50 - above every show, below any priority to which the mode's was added twice -, and (75%) a parent show
    with priority 3/7 plays a child show (entry priority 0/2, on l3, competing entry 3 above it) from the `shows:` section
    of its first step and loops over it for ever: the child is requested again through the same step config in every loop;
    the parent itself is stopped and played again in 40% of these cases."""
    case = gen_rep_case(r) if r.random() < 0.5 else gen_case(r, over=r.random() < 0.5)
    for sh in case["shows"].values():
        sh["play"]["prio"] = r.choice([0, 1, 5, 5])
    case["mode"] = r.random() < 0.85
    case["comp"] = True
    nshow = len(case["shows"])
    ops, keep = case["ops"], case["keep"]
    if not case["mode"]:
        ops = [op for op in ops if op[2] != "modeend"] + [[0, n, "stop"] for n in sorted(case["shows"])]
    mid = ops[nshow:len(ops) - keep]
    # more of `stop, play again` and `the same request again`
    for _ in range(r.randint(1, 3)):
        name = r.choice(sorted(case["shows"]))
        at = r.randint(0, len(mid))
        mid[at:at] = [[r.choice([1, 2, 4, 8]), name, "stop"], [r.choice([0, 1, 2, 6]), name, "play"], [r.choice([0, 1, 3, 8]), name, "play"]][
            r.choice([0, 0, 1]):]
    tail = ops[len(ops) - keep:]
    if r.random() < 0.75:
        case["parent"] = {"prio": r.choice([3, 7]), "cprio": r.choice([0, 2, 2]), "ms": r.choice([[250, 125], [125, 250], [500, 125]]),
                          "csteps": r.choice([2, 3, 6])}
        mid.insert(r.randint(0, min(2, len(mid))), [0, "P", "play"])
        if r.random() < 0.4:
            at = r.randint(1, len(mid))
            mid[at:at] = [[r.choice([2, 12, 30]), "P", "stop"], [r.choice([0, 2, 5]), "P", "play"]]
        # at least two more loops of the parent before everything is stopped
        tail = [[r.choice([26, 33, 40]), "P", "stop"]] + tail
        keep += 1
    case["ops"] = ops[:nshow] + mid + tail
    case["keep"] = keep
    return case


def gen_token_refusal(r):
    """a play whose show_tokens miss a token of the show / carry one the show does not have, then ordinary requests"""
    case = gen_case(r, over=False)
    for name, sh in case["shows"].items():
        sh["spec"].update({"tok": True, "tokmode": r.choice(["missing", "extra"])})
        sh["play"].update({"start": 1, "sync": 0})
    return case


def is_nontrivial(case):
    return any(op[2] not in ("play", "stop") for op in case["ops"][:-3]) or \
        any(sh["play"]["loops"] >= 0 for sh in case["shows"].values())


# ---------------------------------------------------------------------------------------------------------------------
# implementation side
# ---------------------------------------------------------------------------------------------------------------------

OFFGRID = []


def units(t):
    """a float clock / start time as a whole number of model units; the exact rational value of the float must be within
    1 us of it (all exact schedule, sync and request times are whole units) - otherwise the time is recorded as off the
    exact schedule (an oracle failure, reported by execute_case)"""
    x = Fraction(t) * D
    n = round(x)
    if abs(x - n) > TOL * D:
        OFFGRID.append(float(t))
    return int(n)


class Run:
    def __init__(self, case, twin=False):
        self.case = case
        self.twin = twin
        self.keys = sorted({key_of(case, n) for n in case["shows"]})
        self.logs = {k: [] for k in self.keys}          # one log per show-player key; entries carry the instance serial "i"
        self.objs = {k: [] for k in self.keys}          # the RunningShow objects created under the key, in order
        self.inst_show = {k: [] for k in self.keys}     # ... and the show each of them plays
        self.fail = []
        self.ctx_of = {}        # show context ("show_3") -> (key, instance serial)
        self.pending_posts = {}  # event name -> (instance serial, segment) of the posts that are still in the event queue
        self.nseg = {k: 0 for k in self.keys}           # number of heads (requests / timer callbacks) logged per key
        self.bumped = True
        self.refused = []
        self.child_ctx = {}     # context of every instance of the child show shC -> serial
        self.child_objs = []
        self.child_log = []     # its light effects
        self.samples = []       # (time, what, {light: {"color": visible colour, "stack": [[key, priority], ...]}})

    def head(self, key, entry):
        """a request or a timer callback begins: what the instances do synchronously from now on, and the events they post
        (which are handled later, possibly after the next timer callback of the same instant), belong to it"""
        entry["seg"] = self.nseg[key]
        self.nseg[key] += 1
        self.logs[key].append(entry)

    def note(self, key, entry, seg=None):
        entry["seg"] = self.nseg[key] - 1 if seg is None else seg
        self.logs[key].append(entry)

    def install(self):
        from mpf.assets.show import RunningShow
        from mpf.devices.light import Light
        from mpf.core.events import EventManager
        run = self
        if not hasattr(EventManager, "_verif17_post"):
            EventManager._verif17_post = EventManager.post

        def ev_post(em, event, callback=None, **kwargs):
            r = RunningShow._verif17_run
            if r is not None and event.startswith("sev_"):
                name = event.split("_")[1]
                if name in r.case["shows"]:
                    r.pending_posts.setdefault(event, []).append((None, r.nseg[key_of(r.case, name)] - 1))
            return EventManager._verif17_post(em, event, callback, **kwargs)
        EventManager.post = ev_post
        for cls, attr in ((RunningShow, "_run_next_step"), (RunningShow, "_start_now"), (RunningShow, "_start_play"),
                          (RunningShow, "_post_events"), (RunningShow, "stop"), (Light, "color"),
                          (Light, "remove_from_stack_by_key")):
            if not hasattr(cls, "_verif17_" + attr):
                setattr(cls, "_verif17_" + attr, getattr(cls, attr))

        def start_play(show):
            # runs at the end of RunningShow.__init__: a new instance exists
            r = RunningShow._verif17_run
            if r is not None and show.show.name == "shC" and show.context not in r.child_ctx:
                r.child_ctx[show.context] = len(r.child_objs)
                r.child_objs.append(show)
            if r is not None and show.context not in r.ctx_of:
                name = show.show.name[2:]
                if name in r.case["shows"]:
                    key = key_of(r.case, name)
                    serial = len(r.objs[key])
                    r.objs[key].append(show)
                    r.inst_show[key].append(name)
                    r.ctx_of[show.context] = (key, serial)
                    holds = None
                    cb = show.start_callback
                    if cb is not None and getattr(cb, "__self__", None) is not None:
                        holds = r.ctx_of.get(getattr(cb.__self__, "context", None), (None, None))[1]
                    r.note(key, {"k": "new", "i": serial, "show": name, "holds": holds, "t": units(r.vm.now())})
            return RunningShow._verif17__start_play(show)

        def run_next(show, post_events=None, pause_after_step=False):
            r = RunningShow._verif17_run
            if r is not None and show.context in r.ctx_of:
                key, i = r.ctx_of[show.context]
                if post_events is None and not pause_after_step:
                    r.head(key, {"k": "fire", "i": i, "t": units(r.vm.now())})
                r.bumped = False
            return RunningShow._verif17__run_next_step(show, post_events, pause_after_step)

        def start_now(show):
            r = RunningShow._verif17_run
            if r is not None and show.show_config.sync_ms and show._delay_handler is not None and show.context in r.ctx_of:
                # the synchronised start: `_start_now` runs from its timer
                key, i = r.ctx_of[show.context]
                r.head(key, {"k": "fire", "i": i, "t": units(r.vm.now()), "start": True})
            res = RunningShow._verif17__start_now(show)
            if r is not None and show.context in r.ctx_of and not show.show_config.events_when_played:
                # an entry without events_when_played: the start itself is the observation (recorded when `_start_now`
                # is through: where the event would have been posted)
                key, i = r.ctx_of[show.context]
                r.note(key, {"k": "ev", "e": "played", "i": i, "show": r.inst_show[key][i], "t": units(r.vm.now()), "synth": True})
            return res

        def stop(show):
            r = RunningShow._verif17_run
            was = show._stopped
            res = RunningShow._verif17_stop(show)
            if r is not None and not was and show._stopped and show.context in r.ctx_of and \
                    not show.show_config.events_when_stopped:
                key, i = r.ctx_of[show.context]
                r.note(key, {"k": "ev", "e": "stopped", "i": i, "show": r.inst_show[key][i], "t": units(r.vm.now()), "synth": True})
            return res

        def post_events(show, events):
            r = RunningShow._verif17_run
            if r is not None and show.context in r.ctx_of:
                key, i = r.ctx_of[show.context]
                for ev in events:
                    r.pending_posts.setdefault(ev, []).append((i, r.nseg[key] - 1))
            return RunningShow._verif17__post_events(show, events)

        def color(light, color, fade_ms=None, priority=0, key=None, start_time=None):
            r = RunningShow._verif17_run
            if r is not None and key and key.split(".")[0] in r.child_ctx:
                r.child_log.append({"i": r.child_ctx[key.split(".")[0]], "light": light.name, "color": tuple(color), "prio": priority,
                                    "st": units(start_time) if start_time else None, "t": units(r.vm.now())})
            if r is not None and key and key.split(".")[0] in r.ctx_of:
                k, i = r.ctx_of[key.split(".")[0]]
                r.note(k, {"k": "eff", "i": i, "light": light.name, "color": tuple(color), "prio": priority, "fade": fade_ms,
                           "st": units(start_time) if start_time else None, "t": units(r.vm.now())})
                if r.case["slow"] and not r.bumped and not r.twin:
                    r.bumped = True
                    r.vm.tc.loop.advance_time(UNIT)      # a slow effect: everything after it runs late
            return Light._verif17_color(light, color, fade_ms=fade_ms, priority=priority, key=key, start_time=start_time)

        def remove(light, key, fade_ms=None):
            r = RunningShow._verif17_run
            if r is not None and str(key).split(".")[0] in r.ctx_of:
                k, i = r.ctx_of[str(key).split(".")[0]]
                r.note(k, {"k": "rm", "i": i, "light": light.name, "t": units(r.vm.now())})
            return Light._verif17_remove_from_stack_by_key(light, key, fade_ms)
        RunningShow._run_next_step = run_next
        RunningShow._start_now = start_now
        RunningShow._start_play = start_play
        RunningShow._post_events = post_events
        RunningShow.stop = stop
        Light.color = color
        Light.remove_from_stack_by_key = remove
        RunningShow._verif17_run = self
        for name in self.case["shows"]:
            key = key_of(self.case, name)
            for e in EVS:
                def h(_n=name, _k=key, _e=e, **kwargs):
                    q = run.pending_posts.get("%s_%s" % (_n, _e))
                    # the event queue is FIFO: the oldest post of this event that is still in the queue
                    i, seg = q.pop(0) if q else (None, None)
                    run.note(_k, {"k": "ev", "e": _e, "i": i, "show": _n, "t": units(run.vm.now())}, seg)
                self.vm.machine.events.add_handler("%s_%s" % (name, e), h)
            for i in range(8):
                def hs(_n=name, _k=key, _i=i, **kwargs):
                    q = run.pending_posts.get("sev_%s_%d" % (_n, _i))
                    run.note(_k, {"k": "sev", "s": _i, "show": _n, "t": units(run.vm.now())}, q.pop(0)[1] if q else None)
                self.vm.machine.events.add_handler("sev_%s_%d" % (name, i), hs)

    def uninstall(self):
        from mpf.assets.show import RunningShow
        from mpf.devices.light import Light
        from mpf.core.events import EventManager
        EventManager.post = EventManager._verif17_post
        RunningShow._verif17_run = None
        RunningShow._run_next_step = RunningShow._verif17__run_next_step
        RunningShow._start_now = RunningShow._verif17__start_now
        RunningShow._start_play = RunningShow._verif17__start_play
        RunningShow._post_events = RunningShow._verif17__post_events
        RunningShow.stop = RunningShow._verif17_stop
        Light.color = Light._verif17_color
        Light.remove_from_stack_by_key = Light._verif17_remove_from_stack_by_key

    def light_state(self):
        out = {}
        for l in LIGHTS:
            light = self.vm.machine.lights[l]
            out[l] = {"stack": [[e.key, e.priority, None if e.dest_color is None else tuple(e.dest_color)] for e in light.stack],
                      "color": tuple(light.get_color()),
                      "hw": [round(light.hw_drivers[c][0].current_brightness * 255, 6) for c in ("red", "green", "blue")]}
        return out

    def sample(self, what):
        """the lights as they are now: visible colour and the priorities on the stack"""
        if self.twin or not (self.case.get("comp") or self.case.get("parent")):
            return
        out = {}
        for l in LIGHTS + (["l3"] if self.case.get("parent") else []):
            light = self.vm.machine.lights[l]
            out[l] = {"color": tuple(light.get_color()), "stack": [[str(e.key), e.priority] for e in light.stack]}
        self.samples.append((units(self.vm.now()), what, out))

    def execute(self):
        case = self.case
        shows = {"sh" + n: show_yaml(n, sh["spec"]) for n, sh in case["shows"].items()}
        if case.get("parent"):
            shows.update(parent_shows(case))
        try:
            self.vm = VMachine(config_yaml(case), shows=shows, modes={"m1": mode_yaml(case)} if case.get("mode") else None).start()
        except BootError as e:
            raise InfraError("C17 machine does not boot: %s" % e)
        try:
            m = self.vm.machine
            if case.get("mode"):
                self.vm.post("start_m1")
                self.vm.advance(0)
                if not m.modes["m1"].active:
                    raise InfraError("C17: the mode with the show player did not start")
            self.vm.align()
            self.vm.advance(1.0 - self.vm.now())
            # what the loader made of the show files
            self.loaded = {}
            for n, sh in case["shows"].items():
                self.loaded[n] = [st["duration"] for st in m.shows["sh" + n].show_steps]
                want = [d / 1000.0 if d > 0 else -1 for d in effective_durs(sh["spec"])]
                if len(self.loaded[n]) != len(want) or any(abs(a - b) > 1e-9 for a, b in zip(self.loaded[n], want)):
                    self.fail.append(("show-durations-parsed-wrong", {"show": n, "loaded": self.loaded[n], "want": want}))
            self.install()
            if case["bg"]:
                m.lights["l1"].color((3, 3, 3), key="bg", priority=0, fade_ms=0)
                m.lights["l2"].color((4, 4, 4), key="bg", priority=0, fade_ms=0)
            if case.get("comp"):
                # a competing entry between the right priority of the shows and twice their base priority
                for l in LIGHTS:
                    m.lights[l].color(COMP_COLOR, key="comp", priority=comp_prio(case), fade_ms=0)
            if case.get("parent"):
                m.lights["l3"].color(COMP_COLOR, key="comp", priority=child_prio(case) + 3, fade_ms=0)
            ended = False       # the mode (and with it the show player's entries) is gone
            for gap, name, act in case["ops"]:
                target = self.vm.now() + gap * 2 * UNIT
                try:
                    if self.vm.now() < target:
                        self.vm.advance(target - self.vm.now())
                except Exception as e:  # noqa
                    self.fail.append(("crash-in-callback", {"error": repr(e)}))
                self.sample("before")
                if ended or (act == "modeend" and not case.get("mode")):
                    continue
                if act == "modeend":
                    ended = True
                    if not self.twin:
                        for key in self.keys:
                            self.head(key, {"k": "op", "act": "modeend", "t": units(self.vm.now()), "exact": True})
                    try:
                        self.vm.post("stop_m1")
                        self.vm.advance(0)
                    except Exception as e:  # noqa
                        self.fail.append(("crash-modeend", {"error": repr(e)}))
                    self.sample("modeend")
                    continue
                if self.twin:
                    continue
                if name == "P":
                    # the parent show (outside the per-key logs and the Lean model): play / stop through its entries
                    if case.get("parent"):
                        try:
                            self.vm.post("%s_P" % act)
                            self.vm.advance(0)
                        except Exception as e:  # noqa
                            self.fail.append(("crash-parent-" + act, {"error": repr(e)}))
                        self.sample("%s_P" % act)
                    continue
                self.head(key_of(case, name), {"k": "op", "act": act, "show": name, "t": units(self.vm.now()),
                                               "exact": (Fraction(self.vm.now()) * D).denominator == 1})
                try:
                    self.vm.post(event_of(act, name))
                    self.vm.advance(0)
                except Exception as e:  # noqa
                    if act.startswith("play") and case["shows"][name]["spec"].get("tokmode"):
                        self.refused.append(name)       # a token is missing / unknown: the play request is refused
                    else:
                        self.fail.append(("crash-" + act, {"show": name, "error": repr(e)}))
                self.sample(event_of(act, name))
            try:
                self.vm.advance(case["tail"] * 2 * UNIT)
            except Exception as e:  # noqa
                self.fail.append(("crash-in-callback", {"error": repr(e)}))
            self.sample("end")
            self.child_stopped = "".join("S" if o._stopped else "R" for o in self.child_objs)
            self.final = self.light_state()
            self.end = units(self.vm.now())
            # a later low-priority fade on the same lights: the hardware must get the same fade commands as in the twin
            probe = {}
            for l in LIGHTS:
                light = m.lights[l]
                t0 = self.vm.now()
                light.color((9, 90, 200), fade_ms=1000, key="probe", priority=0)
                probe[l] = {"fade_cmd": [[round(x, 6) for x in (f[0], f[1] - t0 if f[1] >= 0 else -1, f[2], f[3] - t0 if f[3] >= 0 else -1)]
                                         for f in (light.hw_drivers[c][0]._current_fade for c in ("red", "green", "blue"))]}
            self.vm.advance(0.5)
            for l in LIGHTS:
                light = m.lights[l]
                probe[l]["mid_color"] = tuple(light.get_color())
                probe[l]["mid_hw"] = [round(light.hw_drivers[c][0].current_brightness * 255, 6) for c in ("red", "green", "blue")]
            self.final["probe"] = probe
            self.stopped = {k: "".join("S" if o._stopped else "R" for o in objs) for k, objs in self.objs.items()}
        finally:
            self.uninstall()
            self.vm.stop()
        return self


def segments(log):
    """[(head, [entries])] where head is an op or fire entry; an entry belongs to the head during which it was caused (for a
    show event: during which it was posted)"""
    segs = [(e, []) for e in log if e["k"] in ("op", "fire")]
    stray = []
    for e in log:
        if e["k"] not in ("op", "fire"):
            if 0 <= e["seg"] < len(segs):
                segs[e["seg"]][1].append(e)
            else:
                stray.append(e)
    if stray:
        segs.insert(0, ({"k": "none", "t": stray[0]["t"]}, stray))
    return segs


def idx_of(name, color):
    for i in range(8):
        if step_color(name, i) == tuple(color):
            return i
    return None


def obs_of(run, case, key, entries):
    """canonical observation tokens of one segment as (instance serial, token) in the order they were observed - what the
    instances did synchronously (steps, clean-ups) first, then the show events in the order they were posted; None if a
    step's effects are inconsistent"""
    out = []
    i = 0
    while i < len(entries):
        e = entries[i]
        if e["k"] == "eff":
            grp = [e]
            while i + 1 < len(entries) and entries[i + 1]["k"] == "eff" and entries[i + 1]["i"] == e["i"]:
                i += 1
                grp.append(entries[i])
            name = run.inst_show[key][e["i"]]
            spec = case["shows"][name]["spec"]
            idxs = {idx_of(name, g["color"]) for g in grp}
            sts = {g["st"] for g in grp}
            if len(idxs) != 1 or len(sts) != 1 or sorted(g["light"] for g in grp) != sorted(LIGHTS[:spec["lights"]]):
                return None
            if spec["fade"] and {g.get("fade", spec["fade"] * 125) for g in grp} != {spec["fade"] * 125}:
                return None
            out.append((e["i"], "e%s@%s" % (idxs.pop(), sts.pop())))
        elif e["k"] == "rm":
            while i + 1 < len(entries) and entries[i + 1]["k"] == "rm" and entries[i + 1]["i"] == e["i"]:
                i += 1
            out.append((e["i"], "clr"))
        elif e["k"] == "ev":
            out.append((e["i"], "E" + e["e"]))
        i += 1
    return out


def oracle(run, case):
    """model-independent checks on the implementation's logs (all times in whole units of 1/D s, see `units`), one
    show-player key at a time.  Every RunningShow instance created under the key has its own bookkeeping; a request
    addresses the instance in the dict (the newest one), a timer callback its own instance.  An instance played with
    sync_ms over one that still runs *holds* the stop of that one until it starts or is stopped itself."""
    fails = []
    stats = {}

    def cnt(k):
        stats[k] = stats.get(k, 0) + 1

    for key in run.keys:
        insts = []      # bookkeeping per instance serial
        cur = None      # the instance in the show player's dict
        cut = False

        def chain(j):
            """the instances whose stop is due when `j` is stopped: `j` itself and, transitively, what it still holds -
            in the order they emit (deepest first)"""
            out = []
            while j is not None and not insts[j]["stopped"]:
                out.append(j)
                j = insts[j]["replaces"]
            return out[::-1]

        for head, entries in segments(run.logs[key]):
            toks = obs_of(run, case, key, entries)
            if toks is None:
                fails.append(("step-effects-inconsistent", {"key": key, "at": head["t"], "entries": entries}))
                cut = True
                break
            obs = ["%s:%s" % t for t in toks]
            act = head.get("act") if head["k"] == "op" else head["k"]
            new = [e for e in entries if e["k"] == "new"]
            must_stop = []
            a = cur
            repeated = False        # a play request that created no instance: the old one was kept or advanced
            if act and act.startswith("play"):
                pname = head["show"]
                ent = entry(case, pname, act)
                act = "play"
                if pname in run.refused:
                    if [t for t in toks if t[0] is None or t[0] >= len(insts)]:
                        fails.append(("refused-play-has-effects", {"show": pname, "at": head["t"], "obs": obs}))
                        cut = True
                        break
                    insts += [{"stopped": True, "replaces": None, "count": {e: 0 for e in EVS}, "zombie": True, "name": pname,
                               "played_steps": 0} for _ in new]
                    continue
                shw = case["shows"][pname]
                old = insts[cur] if cur is not None and not insts[cur].get("zombie") else None
                if not new and shw.get("plain") and old is not None and not old["stopped"]:
                    # replace_or_advance_show's shortcut: legitimate only for the very same config (same show, tokens,
                    # priority, loops, sync_ms, manual_advance and the speed the instance has *now*)
                    same = old["name"] == pname and old["z"] == ent["z"] and old["speed"] == SPEEDS[ent["speed"]] and \
                        old["play"]["loops"] == ent["loops"] and old["play"].get("sync", 0) == ent.get("sync", 0) and \
                        old["play"]["manual"] == ent["manual"] and old["play"]["prio"] == ent["prio"]
                    if not same:
                        fails.append(("play-creates-no-instance", {"show": pname, "at": head["t"], "obs": obs, "request": head["act"],
                                                                   "why": "the running instance has another config (speed / tokens / ...)"}))
                        cut = True
                        break
                    repeated = True
                    mine0 = [t for i, t in toks if i == cur]
                    if old["pending"] and mine0:
                        # a show that waits for its sync point is started by nothing but its timer or a
                        # resume / advance / step_back request - a repeated play must not start it off the grid
                        fails.append(("sync-start-off-grid", {"show": pname, "play_at": old["t_play"], "at": head["t"],
                                                              "sync_units": old["sync"], "obs": obs,
                                                              "why": "a repeated play request started the waiting show"}))
                        cut = True
                        break
                    act = "advance" if mine0 else "keep"
                    cnt("repeated_play_" + ("advances" if mine0 else "keeps") + ("_waiting_show" if old["pending"] else ""))
                    if old["paused"]:
                        cnt("repeated_play_" + act + "_paused_show")
                    want_first = first_idx(ent["start"], len(old["durs"]))
                    if act == "keep" and not old["pending"] and (old["prev"] is None or old["prev"]["idx"] != want_first):
                        fails.append(("request-plays-wrong-step", {"show": pname, "request": head["act"], "at": head["t"],
                                                                   "kept_at_step": old["prev"] and old["prev"]["idx"],
                                                                   "want_step": want_first}))
                        cut = True
                        break
                elif len(new) != 1 or new[0]["i"] != len(insts):
                    fails.append(("play-creates-no-instance", {"show": pname, "at": head["t"], "obs": obs}))
                    cut = True
                    break
            if act == "play":
                psync = ent.get("sync", 0) * MS
                holds = None
                if cur is not None and not insts[cur]["stopped"]:
                    if psync:
                        holds = cur         # the replaced instance runs on until the new one starts (or is stopped)
                        cnt("play_over_running_synced" + ("_waiting" if insts[cur]["pending"] else ""))
                    else:
                        must_stop = chain(cur)
                        cnt("play_over_running_unsynced")
                    if shw.get("plain"):
                        cnt("plain_play_replaces_running" + ("_waiting" if insts[cur].get("pending") else ""))
                a = cur = len(insts)
                insts.append({"count": {e: 0 for e in EVS}, "stopped": False, "prev": None, "speed": SPEEDS[ent["speed"]],
                              "loops": ent["loops"], "paused": not ent["running"], "pending": bool(psync),
                              "t_play": head["t"], "played_steps": 0, "replaces": holds, "name": pname, "spec": shw["spec"],
                              "play": ent, "durs": model_durs(shw["spec"]), "sync": psync, "z": ent["z"]})
            elif act == "fire":
                a = head["i"]
            elif new:
                fails.append(("instance-created-without-play", {"key": key, "at": head["t"], "obs": obs}))
                cut = True
                break
            if act == "modeend":
                act = "stop"
            mine = [t for i, t in toks if i == a and a is not None]
            others = {}
            for i, t in toks:
                if i != a or a is None:
                    others.setdefault(i, []).append(t)
            inst = insts[a] if a is not None and a < len(insts) else None
            if inst is None or inst.get("zombie"):
                if toks:
                    fails.append(("effect-without-show", {"key": key, "at": head["t"], "obs": obs}))
                continue
            name, spec, play, durs, sync = inst["name"], inst["spec"], inst["play"], inst["durs"], inst["sync"]
            total = len(durs)
            effs = [o for o in mine if o[0] == "e"]
            evs = [o[1:] for o in mine if o[0] == "E"]
            sevs = [e["s"] for e in entries if e["k"] == "sev" and e["show"] == name]
            # a resume/advance/step_back request for a show that still waits for its synchronised start starts it now
            by_request = bool(inst["pending"] and act in ("resume", "advance", "back") and not inst["stopped"])
            starting = bool((act == "play" and not sync) or (act == "fire" and head.get("start")) or by_request)
            # ... and whatever it replaces is stopped when it starts, or when it is stopped before it started
            if inst["replaces"] is not None and (starting or "stopped" in evs):
                must_stop = chain(inst["replaces"])
                inst["replaces"] = None
                cnt("deferred_stop_by_start" if starting else "deferred_stop_by_stop_before_start")
                if len(must_stop) > 1:
                    cnt("deferred_stop_chain_of_%d" % len(must_stop))
                if not starting and inst.get("paused_waiting"):
                    cnt("deferred_stop_after_pause_of_waiting_show")
            for j in must_stop:
                tj = others.pop(j, [])
                if "Estopped" not in tj:
                    fails.append(("replaced-show-not-stopped-with-its-replacement",
                                  {"key": key, "at": head["t"], "request": act, "replaced_instance": j,
                                   "show": insts[j]["name"], "obs": obs}))
                    cut = True
                    break
                if [t for t in tj if t not in ("clr", "Estopped")] or tj.count("Estopped") > 1:
                    fails.append(("replaced-show-does-more-than-stop", {"key": key, "at": head["t"], "instance": j, "obs": obs}))
                    cut = True
                    break
                insts[j]["stopped"] = True
                insts[j]["replaces"] = None
                insts[j]["count"]["stopped"] += 1
            if cut:
                break
            if others:
                fails.append(("effect-from-an-instance-nobody-addressed", {"key": key, "at": head["t"], "request": act, "obs": obs}))
                cut = True
                break
            if by_request:
                inst["pending"] = False
            if act == "play" and sync and (effs or evs):
                fails.append(("sync-show-acts-before-its-start", {"show": name, "at": head["t"], "obs": obs}))
                cut = True
                break
            if act == "fire" and head.get("start"):
                if not inst["pending"]:
                    fails.append(("sync-start-runs-twice-or-after-a-request", {"show": name, "at": head["t"], "obs": obs}))
                    cut = True
                    break
                inst["pending"] = False
                inst["paused"] = not play["running"]
            if act and act.startswith("speed") and not inst["stopped"]:
                inst["speed"] = SPEEDS[act[5:]]
            for e in evs:
                inst["count"][e] += 1
            if act and act.startswith("speed"):
                inst["updated"] = True
            if act == "fire" and not head.get("start") and play["manual"]:
                # a manual_advance show has no step timer at all: steps run on advance/step_back/resume requests only
                fails.append(("update-resets-manual-advance" if inst.get("updated") else "manual-show-steps-by-itself",
                              {"show": name, "at": head["t"], "obs": obs}))
                cut = True
                break
            if act == "pause":
                inst["paused"] = True
                if inst["pending"]:
                    inst["paused_waiting"] = True
            elif act in ("resume", "advance", "back"):
                inst["paused"] = by_request and not play["running"]
            if act == "fire" and not head.get("start") and inst["paused"] and effs:
                fails.append(("step-while-paused", {"show": name, "at": head["t"], "obs": obs}))
                cut = True
                break
            if inst["stopped"] and (effs or "clr" in mine or [e for e in evs if e not in ("paused",)]):
                fails.append(("effect-after-stop", {"show": name, "at": head["t"], "request": act, "obs": obs}))
                cut = True
                break
            if len(effs) > 1:
                fails.append(("two-steps-in-one-run", {"show": name, "at": head["t"], "obs": obs}))
                cut = True
                break
            if starting and ("played" in evs) != True:      # noqa: E712
                fails.append(("start-without-played-event", {"show": name, "at": head["t"], "obs": obs}))
                cut = True
                break
            if effs:
                idx, st = [int(x) for x in effs[0][1:].split("@")]
                tcall = [e["t"] for e in entries if e["k"] == "eff" and e["i"] == a][0]
                if spec.get("tok") and sevs != [idx]:
                    fails.append(("step-event-token-wrong", {"show": name, "at": head["t"], "step": idx, "step_events": sevs}))
                    cut = True
                    break
                beyond = starting and first_idx(play["start"], total) is None
                if starting and sync and not by_request:
                    # sync_ms: the start is on the sync grid, not in the past, at most one period after the request,
                    # and it is the start *time* of the step however late the timer callback runs
                    if st % sync or not (inst["t_play"] <= st <= inst["t_play"] + sync) or not (st <= tcall <= st + LATE):
                        fails.append(("sync-start-off-grid", {"show": name, "play_at": inst["t_play"], "start_time": st,
                                                              "called_at": tcall, "sync_units": sync}))
                        cut = True
                        break
                if act in ("play", "resume", "advance", "back") or starting:
                    if st != head["t"] and not (starting and sync and not by_request):
                        fails.append(("step-start-time-not-request-time", {"show": name, "at": head["t"], "obs": obs}))
                        cut = True
                        break
                    p = inst["prev"]
                    want_i = None if p is None else (p["idx"] - 1) % total if act == "back" else \
                        (p["idx"] + 1) % total if act in ("resume", "advance") else None
                    if starting:
                        want_i = 0 if beyond else first_idx(play["start"], total)
                    if want_i is not None and idx != want_i:
                        fails.append(("request-plays-wrong-step", {"show": name, "request": act, "step": idx, "want_step": want_i}))
                        cut = True
                        break
                    if repeated and idx != (first_idx(ent["start"], total) or 0):
                        # the play request was answered by advancing the running instance: it must now be at the start step
                        fails.append(("request-plays-wrong-step", {"show": name, "request": head["act"], "step": idx,
                                                                   "want_step": first_idx(ent["start"], total) or 0}))
                        cut = True
                        break
                elif act == "fire":
                    p = inst["prev"]
                    if p is None or durs[p["idx"]] == 0:
                        fails.append(("step-timer-without-a-timed-step-before", {"show": name, "at": head["t"], "obs": obs}))
                        cut = True
                        break
                    # exact rational schedule: previous start + duration / speed (a whole number of units by construction)
                    q = Fraction(durs[p["idx"]] * p["speed"][1], p["speed"][0])
                    if q.denominator != 1:
                        raise InfraError("unit too coarse for %r" % (p,))
                    want_t = p["st"] + int(q)
                    want_i = (p["idx"] + 1) % total
                    if (idx, st) != (want_i, want_t) or not (st <= tcall <= st + LATE):
                        fails.append(("step-off-schedule", {"show": name, "step": idx, "start_time": st, "called_at": tcall,
                                                            "want_step": want_i, "want_time": want_t, "slow_effects": case["slow"],
                                                            "units_per_s": D}))
                        cut = True
                        break
                p = inst["prev"]
                wrapped = (p is not None and idx == 0 and p["idx"] == total - 1 and act in ("fire", "advance", "resume")
                           and not starting) or beyond
                if wrapped != ("looped" in evs):
                    fails.append(("looped-event-wrong", {"show": name, "at": head["t"], "obs": obs, "wrapped": wrapped}))
                    cut = True
                    break
                inst["prev"] = {"idx": idx, "st": st, "speed": inst["speed"]}
                inst["played_steps"] += 1
            if "stopped" in evs:
                inst["stopped"] = True
            c = inst["count"]
            if c["played"] > 1 or c["stopped"] > 1 or c["completed"] > 1 or c["completed"] > c["stopped"]:
                fails.append(("event-more-than-once", {"show": name, "at": head["t"], "counts": c}))
                cut = True
                break
        if cut:
            continue        # the walk over this key's log was cut short by the failure above
        for j, inst in enumerate(insts):
            if inst.get("zombie"):
                continue
            if not inst["stopped"]:
                fails.append(("not-stopped-at-end", {"show": inst["name"], "instance": j, "key": key,
                                                     "was_replaced": j != len(insts) - 1}))
                continue
            c = inst["count"]
            # played exactly once iff the instance ever played a step or completed (a synchronised show that is stopped
            # before its start never started: no played event)
            want_played = 1 if (inst["played_steps"] or c["completed"]) else 0
            if c["stopped"] != 1 or c["played"] != want_played:
                fails.append(("event-count-at-end", {"show": inst["name"], "instance": j, "counts": c}))
    run.stats = stats
    return fails


def prio_oracle(run, case):
    """every light-stack entry a show creates carries the config priority of its entry + the base priority (mode, parent
    show) - on the first play and on every later one -, so an entry with a priority above all of them (and below twice
    the base priority) stays visible whatever the shows do; the child show of a looping parent follows its own absolute
    schedule in every loop and is gone - with its stack entries - once the parent is stopped."""
    fails = []
    want = {}
    for key in run.keys:
        nplay = {}
        for e in run.logs[key]:
            if e["k"] == "new":
                nplay[e["show"]] = nplay.get(e["show"], 0) + 1
            if e["k"] == "eff":
                name = run.inst_show[key][e["i"]]
                if e["prio"] != want_prio(case, name):
                    fails.append(("show-light-priority-wrong", {
                        "show": name, "instance": e["i"], "light": e["light"], "priority": e["prio"], "want": want_prio(case, name),
                        "entry_priority": case["shows"][name]["play"]["prio"], "base_priority": base_prio(case),
                        "play_number_of_show": nplay.get(name)}))
                    break
    for ctx, (key, i) in run.ctx_of.items():
        want[ctx] = want_prio(case, run.inst_show[key][i])
    if case.get("parent"):
        pa = case["parent"]
        for ctx in run.child_ctx:
            want[ctx] = child_prio(case)
        per = {}
        for e in run.child_log:
            per.setdefault(e["i"], []).append(e)
            if e["prio"] != child_prio(case) or e["light"] != "l3":
                fails.append(("child-show-light-priority-wrong", {
                    "child_instance": e["i"], "light": e["light"], "priority": e["prio"], "want": child_prio(case),
                    "entry_priority": pa["cprio"], "parent_priority": pa["prio"], "mode_priority": base_prio(case)}))
                break
        for i, effs in sorted(per.items()):
            # the child's steps: 1, 2, ... n, 1, ... every CHILD_MS, anchored at its first step
            got = [(e["color"], e["st"]) for e in effs]
            exp = [(child_color(j % pa["csteps"]), effs[0]["st"] + j * CHILD_MS * MS) for j in range(len(effs))]
            if got != exp:
                fails.append(("child-show-off-schedule", {"child_instance": i, "got": got[:8], "want": exp[:8]}))
                break
        if "R" in run.child_stopped:
            fails.append(("child-show-still-running-at-end", {"instances_oldest_first": run.child_stopped}))
    for t, what, lights in run.samples:
        bad = None
        for l, st in sorted(lights.items()):
            for k, pr in st["stack"]:
                c = k.split(".")[0]
                if c in want and pr != want[c]:
                    bad = ("show-stack-entry-priority-wrong", {"at": t, "after": what, "light": l, "stack": st["stack"],
                                                               "entry": k, "priority": pr, "want": want[c]})
            if bad is None and (case.get("comp") or l == "l3") and st["color"] != COMP_COLOR:
                bad = ("competing-entry-not-visible", {
                    "at": t, "after": what, "light": l, "color": st["color"], "want": COMP_COLOR, "stack": st["stack"],
                    "competing_priority": child_prio(case) + 3 if l == "l3" else comp_prio(case)})
            if bad is None and what == "end" and [k for k, _ in st["stack"] if k.split(".")[0] in want]:
                bad = ("show-stack-entry-left-at-end", {"light": l, "stack": st["stack"]})
        if bad:
            fails.append(bad)
            break
    return fails


def to_model_lines(run, case, key):
    lines = []
    last_t = 0
    for head, entries in segments(run.logs[key]):
        if head["k"] != "none":
            if head["t"] < last_t:
                # several timers of one instant ran with slow effects (each moves the test loop's clock on by 1/64 s), then
                # the test loop set its clock back to the next request's instant: an artefact of the harness clock - the
                # model's clock never runs backwards, so this key is left to the oracle
                return "clock-set-back"
            last_t = head["t"]
        toks = obs_of(run, case, key, entries)
        obs = None if toks is None else ["%s:%s" % t for t in toks]
        if head["k"] == "none":
            lines.append((None, obs, head))
            continue
        if head["k"] == "fire":
            line = "fire %d %d" % (head["i"], head["t"])
        else:
            act = head["act"]
            if act.startswith("play"):
                shw = case["shows"][head["show"]]
                spec, play = shw["spec"], entry(case, head["show"], act)
                num, den = SPEEDS[play["speed"]]
                sync = play.get("sync", 0)
                if sync and head["t"] % (sync * MS) == 0 and not (sync in DYADIC_SYNC and head.get("exact")):
                    # the request is (within float error) on a multiple of the sync period: whether the float
                    # `t % sync` is 0 or almost `sync` decides between "now" and "one period later" - both satisfy the
                    # oracle (on the grid, not in the past, at most one period away); the exact model says one period
                    # later.  Compared only when the float clock and the period are exact (dyadic).
                    return None
                line = "play %d %d %s %d %d %d %d %d %s" % (num, den, "inf" if play["loops"] < 0 else play["loops"], play["start"],
                                                           1 if play["running"] else 0, 1 if play["manual"] else 0, sync * MS,
                                                           head["t"], " ".join(str(d) for d in model_durs(spec)))
                if shw.get("plain"):
                    # an entry without events_when_played/stopped: the model decides keep / advance / replace
                    line = "playc %d %s" % (cfg_id(case, head["show"], act) * 8 + play["prio"], line[5:])
            elif act.startswith("speed"):
                num, den = SPEEDS[act[5:]]
                line = "speed %d %d %d" % (num, den, head["t"])
            elif act == "modeend":
                line = "stop %d" % head["t"]        # clear_context: every instance in the dict is stopped, the dict is reset
            else:
                line = "%s %d" % (act, head["t"])
        lines.append((line, obs, head))
    return lines


def canon_obs(toks, per_instance):
    """synchronous effects first, then the events (the order in which the implementation is observed).  In a case with
    entries without events_when_played/stopped the start and the stop of their instances are recorded when they happen
    (there is no event that would travel through the event queue): there the events are compared per instance (stable
    sort by instance), not across instances"""
    ev = [t for t in toks if ":E" in t]
    if per_instance:
        ev.sort(key=lambda t: int(t.split(":")[0]) if t.split(":")[0].isdigit() else -1)
    return [t for t in toks if ":E" not in t] + ev


def model_obs(ans, per_instance=False):
    """the model's answer in the order the implementation is observed in"""
    return canon_obs(ans[1:].split("|")[0].split(), per_instance)


def model_check(ctx, model, run, case):
    for key in run.keys:
        if model.ask("reset") != "ok":
            raise InfraError("model reset failed")
        if any(key_of(case, n) == key for n in run.refused):
            continue
        lines = to_model_lines(run, case, key)
        if lines is None:
            ctx.count("sync_float_coincidence_not_compared")
            continue
        if lines == "clock-set-back":
            ctx.count("harness_clock_set_back_after_slow_timer_chain_not_compared")
            continue
        plain = any(sh.get("plain") for sh in case["shows"].values())
        ninst = 0
        for line, obs, head in lines:
            what = {"key": key, "at": head["t"], "line": line}
            if line is None:
                ctx.compare(dict(case, **what), obs, "no request or timer")
                return
            ans = model.ask(line)
            if not ans.startswith("o"):
                ctx.compare(dict(case, **what), obs, ans)
                return
            if obs is not None and plain:
                obs = canon_obs(obs, True)
            if not ctx.compare(dict(case, **what), obs, model_obs(ans, plain)):
                return
            created = len([e for e in run.logs[key] if e["k"] == "new" and e["seg"] == head.get("seg")])
            if line.startswith("playc"):
                # the decision of replace_or_advance_show: what the implementation did (new instance / the old one did
                # something / nothing at all) against the model's keep / advance / replace
                did = ("new" if not ninst else "replace") if created else \
                    "advance" if [o for o in (obs or []) if o.split(":")[0] == str(ninst - 1)] else "keep"
                ctx.count("decision_" + did)
                if not ctx.compare(dict(case, what="decision of replace_or_advance_show", **what), did, ans.split("|")[-1].strip()):
                    return
            ninst += created
        # final stopped flags of every instance ever created under the key
        ans = model.ask("pause %d" % run.end)
        if ans.startswith("o"):
            ctx.compare(dict(case, key=key, what="stopped flags of all instances at the end"), run.stopped[key], ans.split("|")[-1])


def probes_agree(a, b):
    """the later fade: the same hardware fade commands; the colour read back in the middle of the fade may differ by one
    step of 1/255 (with non-dyadic step times the loop clock at a request instant is up to ~1e-15 s before the grid
    instant, so the interpolation can fall on the other side of an integer boundary - stated float tolerance)"""
    for l in LIGHTS:
        if a[l]["fade_cmd"] != b[l]["fade_cmd"]:
            return False
        if any(abs(x - y) > 1 for x, y in zip(a[l]["mid_color"], b[l]["mid_color"])):
            return False
        if any(abs(x - y) > 1.0 for x, y in zip(a[l]["mid_hw"], b[l]["mid_hw"])):
            return False
    return True


def execute_case(case):
    del OFFGRID[:]
    run = Run(case).execute()
    if OFFGRID:
        run.fail.append(("time-off-exact-rational-schedule", {"times": OFFGRID[:5], "tolerance_s": float(TOL)}))
    run.fail += oracle(run, case)
    run.fail += prio_oracle(run, case)
    for key, flags in sorted(run.stopped.items()):
        if "R" in flags and not any(key_of(case, n) == key for n in run.refused):
            # after the key was stopped (or its mode ended) no RunningShow ever created under it may still run
            run.fail.append(("instance-still-running-at-end", {"key": key, "instances_oldest_first": flags,
                                                               "shows": run.inst_show[key]}))
    twin = Run(case, twin=True).execute()
    if {k: v for k, v in run.final.items() if k != "probe"} != {k: v for k, v in twin.final.items() if k != "probe"}:
        run.fail.append(("lights-differ-from-twin-without-show", {"with_show": run.final, "twin": twin.final}))
    elif not probes_agree(run.final["probe"], twin.final["probe"]):
        run.fail.append(("later-fade-differs-from-twin-without-show", {"with_show": run.final["probe"], "twin": twin.final["probe"]}))
    return run


def report_failures(ctx, case, run):
    seen = set()
    for sig, detail in run.fail:
        if sig in seen:
            continue
        seen.add(sig)
        small = case
        nplay = len(case["shows"])
        keep = case.get("keep", 0)
        head, mid, tail = case["ops"][:nplay], case["ops"][nplay:len(case["ops"]) - keep], case["ops"][len(case["ops"]) - keep:]

        def fails(ops, _sig=sig):
            r2 = execute_case(dict(case, ops=head + ops + tail))
            return any(s == _sig for s, _ in r2.fail)
        try:
            ops = ddmin(mid, fails, max_tests=40)
            cand = dict(case, ops=head + ops + tail)
            r2 = execute_case(cand)
            d2 = [d for s, d in r2.fail if s == sig]
            if d2:
                small, detail = cand, d2[0]
        except InfraError:
            raise
        ctx.fail(sig, small, detail)


def one_case(ctx, model, case):
    run = execute_case(case)
    ctx.evaluated(case, is_nontrivial(case))
    for _, _, act in case["ops"]:
        ctx.count("req_" + ("speed_update" if act.startswith("speed") else "play_start_step_variant" if act.startswith("play@")
                            else "play_other_speed" if act == "playv" else "play_other_tokens" if act == "playt" else act))
    for key in run.keys:
        for e in run.logs[key]:
            if e["k"] == "fire":
                ctx.count("step_timer_fired")
            elif e["k"] == "ev":
                ctx.count("ev_" + e["e"])
            elif e["k"] == "new" and e["holds"] is not None:
                ctx.count("instance_holds_deferred_stop")
        if len(run.objs[key]) > 1:
            ctx.count("key_with_several_instances")
        if len(set(run.inst_show[key])) > 1:
            ctx.count("key_played_with_different_shows")
    for k, v in getattr(run, "stats", {}).items():
        for _ in range(v):
            ctx.count(k)
    ctx.count("cases_slow_effects" if case["slow"] else "cases_on_time")
    if case.get("rep"):
        ctx.count("cases_repeated_plays")
        for shw in case["shows"].values():
            ctx.count("show_entry_without_played_stopped_events" if shw.get("plain") else "show_entry_with_events_in_rep_case")
    if case.get("mode"):
        ctx.count("cases_show_player_in_mode")
    if case.get("comp"):
        ctx.count("cases_competing_entry_between_right_and_accumulated_priority")
        for key in run.keys:
            for n in set(run.inst_show[key]):
                if run.inst_show[key].count(n) > 1:
                    ctx.count("prio_show_entry_played_again_with_base_priority" if case.get("mode") else "prio_show_entry_played_again")
    if case.get("parent"):
        ctx.count("cases_parent_show_with_child_in_step")
        for _ in run.child_objs[1:]:
            ctx.count("child_show_requested_again_by_parent_loop_or_replay")
    for name, shw in case["shows"].items():
        spec, play = shw["spec"], shw["play"]
        if "ms" in spec:
            ctx.count("show_non_dyadic_step_times")
        if spec.get("tok"):
            ctx.count("show_with_tokens" + ("_" + spec["tokmode"] if spec.get("tokmode") else ""))
        if -1 in durs_ms(spec):
            ctx.count("show_with_hold_step")
        if play.get("sync"):
            ctx.count("play_sync_ms_dyadic" if play["sync"] in DYADIC_SYNC else "play_sync_ms_non_dyadic")
        if play["speed"] in ("3", "0.3", "1.5"):
            ctx.count("play_non_dyadic_speed")
        if play["start"] <= 0:
            ctx.count("play_start_step_zero_or_negative")
        elif play["start"] > len(durs_ms(spec)):
            ctx.count("play_start_step_beyond_end")
        if not play["running"]:
            ctx.count("play_start_running_false")
    for name in run.refused:
        ctx.count("play_refused_token")
    for key in run.keys:
        if any(e.get("start") for e in run.logs[key]):
            ctx.count("sync_start_timer_ran")
    if run.fail:
        report_failures(ctx, case, run)
    if model is not None:
        model_check(ctx, model, run, case)


def sh(durs, style="duration", lights=1, fade=0, speed="1", loops=-1, start=1, running=True, manual=False, prio=1, ms=None,
       tok=False, sync=0):
    spec = {"durs": durs, "style": style, "lights": lights, "fade": fade, "tok": tok}
    if ms:
        del spec["durs"]
        spec["ms"] = ms
    return {"spec": spec, "play": {"speed": speed, "loops": loops, "start": start, "running": running, "manual": manual,
                                   "prio": prio, "sync": sync}}


CORPUS = [
    # two shows on the same lights, light fade 250 ms: B is stopped while A's fade-out is still running, then at its end
    {"shows": {"A": sh([2, 2], lights=2, prio=1), "B": sh([4], lights=2, prio=5)}, "slow": False, "bg": True, "tail": 64, "keep": 3,
     "light_fade": 250, "fade_style": "light",
     "ops": [[0, "A", "play"], [0, "B", "play"], [20, "A", "stop"], [3, "B", "stop"], [2, "A", "resume"]]},
    {"shows": {"A": sh([2, 2], lights=2, prio=1), "B": sh([4], lights=2, prio=0)}, "slow": True, "bg": False, "tail": 64, "keep": 3,
     "light_fade": 500, "fade_style": "default",
     "ops": [[0, "A", "play"], [2, "B", "play"], [20, "B", "stop"], [0, "A", "stop"], [16, "B", "advance"]]},
    # D14: a show that completed by itself, then step_back for its key
    {"shows": {"A": sh([2, 2], loops=0)}, "slow": False, "bg": True, "tail": 64,
     "keep": 2, "ops": [[0, "A", "play"], [24, "A", "back"], [16, "A", "stop"], [4, "A", "advance"]]},
    # D26: resume without pause, then stop
    {"shows": {"A": sh([4, 4, 4], lights=2)}, "slow": False, "bg": False, "tail": 64,
     "keep": 2, "ops": [[0, "A", "play"], [8, "A", "resume"], [4, "A", "stop"], [2, "A", "resume"]]},
    # many loops with slow effects (drift)
    {"shows": {"A": sh([1, 2, 1], speed="2", style="abs")}, "slow": True, "bg": True, "tail": 64,
     "keep": 2, "ops": [[0, "A", "play"], [200, "A", "stop"], [2, "A", "pause"]]},
    # two shows on the same lights, speed change, stop during a fade
    {"shows": {"A": sh([2, 3], lights=2, fade=2, prio=1), "B": sh([4], lights=2, fade=1, prio=5, loops=2)}, "slow": False,
     "bg": True, "tail": 64, "keep": 4,
     "ops": [[0, "A", "play"], [2, "B", "play"], [10, "A", "speed2"], [7, "A", "pause"], [5, "A", "resume"], [30, "B", "back"],
             [3, "A", "stop"], [1, "B", "stop"], [2, "A", "resume"], [0, "B", "advance"]]},
]


# D30: an update request (speed) for a manual_advance show; oracle only (the model follows the repaired code, where an
# update that does not mention manual_advance leaves it alone)
MANUAL_UPDATE = [
    {"shows": {"A": sh([2, 2, 2], manual=True)}, "slow": False, "bg": True, "tail": 64, "keep": 2,
     "ops": [[0, "A", "play"], [8, "A", "speed2"], [4, "A", "advance"], [40, "A", "stop"], [2, "A", "advance"]]},
    {"shows": {"A": sh([4, 2], manual=True, loops=1), "B": sh([2, 2], prio=5)}, "slow": False, "bg": False, "tail": 64, "keep": 3,
     "ops": [[0, "A", "play"], [0, "B", "play"], [6, "A", "advance"], [6, "A", "speed0.5"], [2, "A", "back"], [50, "A", "stop"],
             [0, "B", "stop"], [2, "A", "resume"]]},
]


# session 3: sync_ms, tokens, non-dyadic speeds and step times, start steps from the end / beyond the end, hold steps
CORPUS3 = [
    # a show waiting for its sync_ms start is advanced / resumed / stepped back before the start (defect found in session 3:
    # it played steps without ever posting `played`, and a show it replaced was never stopped)
    {"shows": {"A": sh(None, ms=[100, 330], speed="3", sync=500, tok=True)}, "slow": False, "bg": True, "tail": 64, "keep": 2,
     "light_fade": 0, "fade_style": "light", "ops": [[3, "A", "play"], [4, "A", "advance"], [40, "A", "stop"], [2, "A", "resume"]]},
    {"shows": {"A": sh(None, ms=[125, 250, 100], sync=1000, start=-1, running=False)}, "slow": True, "bg": False, "tail": 64, "keep": 2,
     "light_fade": 0, "fade_style": "light",
     "ops": [[0, "A", "play"], [2, "A", "pause"], [40, "A", "resume"], [30, "A", "back"], [8, "A", "stop"], [2, "A", "advance"]]},
    # speed 3 and 0.3 with 100 ms / 330 ms steps over many loops with slow effects: the k-th step is at the exact sum
    {"shows": {"A": sh(None, ms=[100, 330], speed="3", tok=True, lights=2), "B": sh(None, ms=[330, 100, 170], speed="0.3", prio=5)},
     "slow": True, "bg": True, "tail": 64, "keep": 3, "light_fade": 0, "fade_style": "light",
     "ops": [[0, "A", "play"], [3, "B", "play"], [60, "A", "speed1.5"], [120, "A", "stop"], [5, "B", "stop"], [2, "A", "pause"]]},
    # the play request exactly on a sync multiple (dyadic, exact clock): one full period is waited
    {"shows": {"A": sh([2, 2], sync=500)}, "slow": False, "bg": False, "tail": 64, "keep": 2, "light_fade": 0, "fade_style": "light",
     "ops": [[0, "A", "play"], [40, "A", "stop"], [2, "A", "resume"]]},
    # start_step beyond the end (a loop is consumed at once / the show completes at once), hold step, start_step 0
    {"shows": {"A": sh(None, ms=[100, -1], start=5, loops=1), "B": sh(None, ms=[125, 125], start=4, loops=0, prio=5)}, "slow": False,
     "bg": True, "tail": 64, "keep": 3, "light_fade": 0, "fade_style": "light",
     "ops": [[0, "A", "play"], [0, "B", "play"], [12, "A", "advance"], [12, "A", "advance"], [20, "A", "stop"], [0, "B", "stop"],
             [2, "A", "back"]]},
]


def over(shows, ops, keep, **kw):
    case = {"shows": shows, "ops": ops, "keep": keep, "slow": False, "bg": True, "tail": 64, "light_fade": 0, "fade_style": "light"}
    case.update(kw)
    return case


def shk(key, *a, **kw):
    d = sh(*a, **kw)
    d["key"] = key
    return d


# session 3b: a play with sync_ms over an instance that still runs - the replaced instance runs on until the replacement
# starts, or is stopped before it started (the deferred stop: `start_callback`)
CORPUS4 = [
    # the seeded change (stop skips the start callback once pause cancelled the sync timer): B over A, pause, stop
    over({"A": sh([2, 2], sync=250), "B": shk("A", [2, 2], sync=250, prio=5)}, keep=2,
         ops=[[0, "A", "play"], [0, "B", "play"], [12, "A", "pause"], [4, "A", "stop"], [2, "A", "resume"]]),
    # ... with a manual_advance show advanced / stepped back before the sync point (the request starts it: A stops then)
    over({"A": sh([2, 2], sync=250), "B": shk("A", [2, 2, 2], sync=500, manual=True)}, keep=2,
         ops=[[0, "A", "play"], [0, "B", "play"], [11, "B", "play"], [2, "A", "advance"], [20, "A", "back"], [4, "A", "stop"],
              [2, "A", "resume"]]),
    # the same show config several times in a row: a chain of three deferred stops, released by one stop request
    over({"A": sh([2, 2], sync=1000, lights=2)}, keep=2, slow=True,
         ops=[[0, "A", "play"], [36, "A", "play"], [2, "A", "play"], [2, "A", "play"], [1, "A", "pause"], [3, "A", "stop"],
              [2, "A", "advance"]]),
    # ... released by the start of the newest one; the middle one's own sync timer runs first (it starts, then is replaced)
    over({"A": sh([2, 2], sync=250, lights=2), "B": shk("A", None, ms=[100, 330], sync=1000, speed="3", tok=True)}, keep=3,
         ops=[[0, "A", "play"], [12, "A", "play"], [1, "B", "play"], [40, "A", "speed2"], [0, "A", "play"], [2, "B", "play"],
              [60, "A", "stop"], [0, "B", "stop"], [2, "A", "resume"]]),
    # a play without sync_ms over a waiting replacement: both older instances stop at once; show player in a mode, mode end
    over({"A": sh([2, 3], sync=500, loops=-1), "B": shk("A", [4], sync=0, prio=5, loops=2)}, keep=3, mode=True,
         ops=[[0, "A", "play"], [20, "A", "play"], [2, "B", "play"], [6, "A", "play"], [3, "A", "pause"], [2, "*", "modeend"],
              [2, "A", "resume"], [0, "B", "advance"]]),
    over({"A": sh([2, 3], sync=500, loops=-1, running=False), "B": sh([1, 1], sync=125, prio=5)}, keep=2, mode=True, light_fade=250,
         ops=[[0, "A", "play"], [0, "B", "play"], [20, "A", "play"], [2, "A", "resume"], [9, "B", "play"], [1, "B", "back"],
              [30, "*", "modeend"], [2, "A", "resume"]]),
]


def rep(shows, ops, keep, **kw):
    return over(shows, ops, keep, rep=True, **kw)


def plain(d):
    d["plain"] = True
    return d


# session 3c: repeated plays through entries without events_when_played/stopped (replace_or_advance_show's shortcuts)
CORPUS5 = [
    # the seeded change: the identical play again while the first instance still waits for its sync point (1 s grid)
    rep({"A": plain(sh([2, 2], sync=1000))}, keep=2,
        ops=[[1, "A", "play"], [4, "A", "play"], [2, "A", "play@1"], [2, "A", "play@2"], [40, "A", "stop"], [2, "A", "resume"]]),
    # keep right after the start, replace one step later, advance to the next step, advance at the last step (wraps)
    rep({"A": plain(sh([4, 4, 4], lights=2))}, keep=2,
        ops=[[0, "A", "play"], [1, "A", "play"], [8, "A", "play"], [1, "A", "play@2"], [1, "A", "play@3"], [1, "A", "play@4"],
             [2, "A", "play@1"], [30, "A", "stop"], [2, "A", "advance"]]),
    # another speed / the speed after an update request / other tokens; a paused and a manual_advance show
    rep({"A": plain(sh(None, ms=[100, 330, 250], speed="3", tok=True, running=False)),
         "B": plain(sh([2, 2], manual=True, loops=0, prio=5))}, keep=3,
        ops=[[0, "A", "play"], [0, "B", "play"], [2, "A", "play"], [2, "A", "playv"], [2, "A", "play"], [1, "A", "speed3"],
             [1, "A", "play"], [2, "A", "playt"], [2, "B", "play@2"], [2, "B", "play@3"], [2, "B", "play"],
             [20, "A", "stop"], [0, "B", "stop"], [2, "A", "resume"]]),
]
CORPUS5[2]["shows"]["A"]["spec"]["ztok"] = True


def prio(shows, ops, keep, **kw):
    return over(shows, ops, keep, comp=True, **kw)


PARENT = {"prio": 7, "cprio": 2, "ms": [250, 125], "csteps": 3}
# session 3d: base priorities (mode / parent show) are added once per play, not once more on every play of the same entry
CORPUS6 = [
    # the seeded change: entry of a mode's show player played, stopped, played again, re-posted while it runs
    prio({"A": sh([2, 2], lights=2, prio=5), "B": plain(sh([4, 2], prio=0))}, keep=3, mode=True, rep=True,
         ops=[[0, "A", "play"], [0, "B", "play"], [6, "A", "stop"], [2, "A", "play"], [3, "A", "play"], [4, "B", "play"],
              [2, "B", "play@2"], [9, "B", "stop"], [1, "B", "play"], [12, "A", "stop"], [0, "B", "stop"], [2, "A", "resume"]]),
    # ... a child show in a step of a looping parent (in the mode / at machine level); the parent played a second time
    prio({"A": sh([2, 2], prio=1)}, keep=3, mode=True, parent=PARENT,
         ops=[[0, "A", "play"], [0, "P", "play"], [30, "A", "advance"], [6, "P", "stop"], [2, "P", "play"], [4, "A", "play"],
              [30, "P", "stop"], [0, "A", "stop"], [2, "A", "resume"]]),
    prio({"A": sh([2, 2], prio=1)}, keep=3, parent=dict(PARENT, ms=[125, 250], csteps=2, cprio=0), slow=True,
         ops=[[0, "A", "play"], [0, "P", "play"], [40, "A", "advance"], [0, "A", "play"], [2, "P", "stop"], [0, "A", "stop"],
              [2, "A", "resume"]]),
    prio({"A": sh([2, 3], prio=5, sync=250), "B": shk("A", [4], prio=1, loops=2)}, keep=2, mode=True, parent=PARENT,
         ops=[[0, "A", "play"], [1, "P", "play"], [8, "B", "play"], [6, "A", "play"], [30, "P", "stop"], [2, "*", "modeend"],
              [2, "A", "resume"]]),
]


def run(ctx):
    model = None if getattr(ctx, "model_unavailable", False) else leanproc.LeanProc(ID)
    ctx.notes["time_units_per_second"] = D
    ctx.notes["time_tolerance_seconds"] = float(TOL)
    try:
        for case in CORPUS + CORPUS3 + CORPUS4:
            one_case(ctx, model, case)
        for case in MANUAL_UPDATE:
            one_case(ctx, None, case)
        for i in range(ctx.n(40, 300)):
            one_case(ctx, None, gen_token_refusal(ctx.rng("tokens", i)))
        for case in CORPUS5 + CORPUS6:
            one_case(ctx, model, case)
        for i in range(ctx.n(70, 700)):
            one_case(ctx, model, gen_prio_case(ctx.rng("prio", i)))
        # show-token substitution: the real Show.get_show_steps_with_token on generated nested step dicts vs Model/ShowToken.lean
        for case in tokens_c17.CORPUS:
            tokens_c17.one_case(ctx, model, case)
        for i in range(ctx.n(1500, 15000)):
            r = ctx.rng("tokensubst", i)
            if not tokens_c17.one_case(ctx, model, tokens_c17.gen_case(r)) and not ctx.search:
                break
        for i in range(ctx.n(220, 2300)):
            one_case(ctx, model, gen_rep_case(ctx.rng("rep", i)))
        for i in range(ctx.n(340, 3400)):
            one_case(ctx, model, gen_case(ctx.rng("case", i)))
    finally:
        if model is not None:
            model.close()


def replay(ctx, rep):
    case = rep["case"]
    if case.get("kind") == "tokens":
        tokens_c17.one_case(ctx, None, case)
        return
    run = execute_case(case)
    for sig, detail in run.fail:
        if sig == rep.get("signature"):
            ctx.fail(sig, case, detail)
            return
    for sig, detail in run.fail[:1]:
        ctx.fail(sig, case, detail)
