"""C12 - config validation returns well-typed complete configs or rejects.

Implementation side: the real ConfigValidator of a real machine: validate_item for every scalar validator on a
type-directed + malformed value matrix, Util.string_to_ms/string_to_secs on generated time strings, and
validate_config on every section of config_spec.yaml with generated sources (provided / missing / unknown keys).
Model side: Model/Config.lean (scalar validators, section validation) and the time-suffix table regenerated from
utility_functions.py.  Oracle: HasType per validator, exact rational value*unit for time strings, key completeness.
"""
import copy
import math
import re
from fractions import Fraction

from harness.common import leanproc
from harness.common.vmachine import VMachine

ID = "C12"
LEAN_MODULES = ["MpfVerif.Props.C12"]
PROPS_FILE = "MpfVerif/Props/C12.lean"


def _gen_time_suffix():
    from translate import config_tables
    return config_tables.generate_time_suffix()


def _gen_spec_table():
    from translate import config_tables
    return config_tables.generate_spec_table()


def _gen_color_names():
    from translate import config_tables
    return config_tables.generate_color_names()


def _gen_bool_words():
    from translate import config_tables
    return config_tables.generate_bool_words()


def _gen_spec_sections():
    from translate import config_tables
    return config_tables.generate_spec_sections()


GEN = [_gen_time_suffix, _gen_spec_table, _gen_color_names, _gen_bool_words, _gen_spec_sections]
MANIFEST = {
    "text": "Proof on a Lean model of config validation: (1) for every scalar validator (int, float, num with ranges, bool, str, lstr, ms, secs, enum, pow2, bool_int) and every YAML scalar, validate_item returns an error or a value of the declared type inside the declared range (NaN is in no range); (2) the same for the extended validators - x_or_token, event_handler / event_posted strings, int_from_hex, color (names regenerated from NAMED_RGB_COLORS, hex, r,g,b lists), gain, the six template_* builders (constant of the right type / expression template of the right class / rejected), machine(<collection>) device references (accepted only if the device exists) - for every environment; (3) _validate_config over trees with a depth bound: for every spec table, section (with base specs) and source, the result is rejected or is a dict that lists every non-ignored key of the merged spec, each typed - lists, sets, dicts, event-handler dicts element-wise, subconfig(...) values and nested list-of-dict sections recursively - and holds no unknown key; an unknown key / a non-dict source is rejected at every depth; (4) tables regenerated from the source on every run and re-checked: the time-suffix chain (rounded not truncated, slice = suffix length, no shadowed branch, units), the bool word lists, the colour names (all inside 0..255), every (section, key, validator) of config_spec.yaml (every validator modelled except kivycolor; every subconfig target exists; the substring test on __valid_in__ agrees with list membership for machine / mode); value*unit is recovered exactly for every time suffix whenever the product is a whole number of ms below 2^49, assuming only correctly rounded float parse/multiply. Tied to the real ConfigValidator by correspondence on every run (validator x value matrix run twice for history independence, item types, time strings, every section of the spec flat and with generated nested sources).",
    "note": "Trusted: Lean kernel + standard axioms; translate/config_tables.py (ast/yaml -> tables); the hand models Model/Config.lean and Model/ConfigExt.lean (differentially tested; recursion by section name uses a depth bound - out of fuel is answered 'unmodelled', never a verdict); Python's int()/float() string parsing is modelled for ASCII literals incl. underscores and exponents up to 1e300 (other strings are compared as 'unmodelled' and judged by the oracle alone); Python's own expression parser (ast.parse) decides whether a template text is accepted - its verdict is an input of the model; IEEE arithmetic enters as an abstract rounding function with relative error 2^-53; decibel gains below 0 dB (pow) and str() of floats / containers are 'unmodelled'. Not modelled: kivycolor (mpf-mc), ruamel.yaml, dict ordering (results are compared sorted), non-string dict keys that collide (1 / True), config_players' expanded forms.",
    "technique": "regenerated tables (ast / yaml -> Lean) + Lean theorems (case analysis per validator, induction on depth bound and key list for the recursive section validation, decide +kernel over tables, real-number rounding lemma) + differential correspondence with the real ConfigValidator",
    "translated": True,
}
RULE = ("(a) validator x value matrix: every scalar validator (with and without ranges / enum lists) on None, bools, ints, "
        "floats incl. NaN/inf, numeric and non-numeric strings (bool words, underscores, exponents, hex), lists, dicts; (a') the "
        "extended validators (tokens, event strings, hex ints, colours, gains, templates, device references, dict / list, "
        "subconfig) on a 170-value matrix; both matrices run twice (table order, shuffled) for history independence; "
        "(b) time strings: decimal literal x suffix (ms msec s sec m h d, any case) incl. boundary decimals; (c) every section "
        "of config_spec.yaml whose required keys are scalar: generated source with provided / omitted / unknown keys; (c') "
        "every section of the spec with generated NESTED sources (subconfig values, lists / dicts of subconfigs, nested "
        "list-of-dict sections, device names of a real machine), an unknown key / an omitted required key / an ill-typed "
        "value planted at random depth; (d) item types list / set / dict / event_handler over the extended validators; "
        "(e) ConfigProcessor._check_sections for every section x {machine, mode}. "
        "non-trivial = the value is not the validator's plain happy-path literal (needs conversion, is out of range, "
        "malformed or None) or the source has an unknown/omitted key or is nested; distinct = canonical JSON of the case")
TRUSTED = ["modelled, not verified: Python int()/float() parsing beyond ASCII literals, ast.parse (template syntax verdict is "
           "an input), pow() for decibel gains, ruamel.yaml, CPython dict order, kivycolor"]
ASSUMPTIONS = ["float parse and multiply are correctly rounded (relative error <= 2^-53) - hypothesis of time_value_times_unit",
               "depth of nesting below the model's fuel (8) - deeper sources are answered 'unmodelled' and judged by the oracle alone"]

NAN = float("nan")
VALUES = [None, True, False, 0, 1, -1, 7, 16, 255, 2.5, -0.5, 0.5, 1.0, 1000.0, NAN, float("inf"), "", "abc", "12", " 12 ",
          "1.5", "-3", "0.25", "1_000", "0x10", "yes", "No", "on", "off", "true", "F", "1s", "100ms", "1.001s", "2m",
          "none", "None", "16", "3", "a", "B", "Ab", [1, 2], {"a": 1}, "1e3", "nan", "-0.0", "٣", "1.", ".5", "+5", "2.7",
          # session 3: bool word forms, int / float / num literal boundaries
          "Yes", "ON", "t", "T", "enable", "Disable", "f", "y", "n", "1", "0", 2, 0.0, -0.0, "1_0", "_1", "1_", "1__0", "1_0.5", "1._5",
          "0X1F", "0b1", "1E3", "1e+3", "1.5e-3", "1e", "e3", "1e400", "-1e400", "1e-400", "inf", "-inf", "Infinity", "+inf", "infinit",
          ".", "-", "+", "- 1", "1 0", "\t7\n", "0.1e1", "00012", "-00", "1e0", "12e-1", float("-inf")]
VALIDATORS = ["int", "int(0,10)", "int(NONE,5)", "int(-1,NONE)", "float", "float(0,1)", "float(NONE,0.5)", "float(-1,1)",
              "num", "num(0,10)", "bool", "str", "lstr", "ms", "secs", "enum(a,b,none)", "enum(yes,no)", "enum(1,2,ab)",
              "pow2", "bool_int"]
TIME_NUMS = ["0", "1", "2", "10", "100", "1.5", "0.5", "1.001", "0.001", "0.0005", "1.1", "4.35", "2.675", "0.1", "0.3", "0.7",
             "1000000", "123456.789", "-1", "-0.5", "1.0005", "8.2", "9.999", "16.666", "0.017", "33.333"]
TIME_SUFFIX = ["", "ms", "msec", "s", "sec", "m", "h", "d", "MS", "Sec", "S", "M", "x", "mss", " s"]
UNIT = {"": 1, "ms": 1, "msec": 1, "s": 1000, "sec": 1000, "m": 60000, "h": 3600000, "d": 86400000}


def tok(v):
    """line-protocol token of a YAML scalar (lists/dicts are 'L'/'D')"""
    if v is None:
        return "N"
    if v is True:
        return "T"
    if v is False:
        return "F"
    if isinstance(v, int):
        return "i%d" % v
    if isinstance(v, float):
        if v != v:
            return "nan"
        if v in (float("inf"), float("-inf")):
            return "inf" if v > 0 else "-inf"
        fr = Fraction(repr(v))      # the decimal value of the shortest repr (0.1 -> 1/10): see DESIGN C12
        return "q%d/%d" % (fr.numerator, fr.denominator)
    if isinstance(v, str):
        return "s" + (v.encode().hex() or "-")
    if isinstance(v, list):
        return "L"
    if isinstance(v, dict):
        return "D"
    if isinstance(v, tuple):
        return "L"
    return "O"


def itok(v):
    """token of a config item: scalar, list of scalars (l:) or dict of scalars (d:); None if deeper / not expressible"""
    if isinstance(v, (list, tuple)):
        ts = [tok(x) for x in v]
        return None if any(t in ("L", "D", "O") for t in ts) else "l:" + ",".join(ts)
    if isinstance(v, (set, frozenset)):
        ts = sorted(tok(x) for x in v)
        return None if any(t in ("L", "D", "O") for t in ts) else "l:" + ",".join(ts)
    if isinstance(v, dict):
        ts = [(tok(k), tok(x)) for k, x in v.items()]
        return None if any(a in ("L", "D", "O") or b in ("L", "D", "O") for a, b in ts) else "d:" + ",".join(a + "=" + b for a, b in ts)
    t = tok(v)
    return None if t in ("L", "D", "O") else t


def show_item(out, as_set=False):
    kind, v = out
    if kind != "ok":
        return "reject" if kind == "reject" else "raise"
    t = itok(v)
    if t is None:
        return "ok ?"
    if as_set and t.startswith("l:"):
        t = "l:" + ",".join(sorted(x for x in t[2:].split(",") if x))
    return "ok " + t


def has_type(validator, item, out):
    """the oracle: is `out` a value of the declared type (and range)?  returns None if fine, else a reason"""
    base, _, param = validator.partition("(")
    param = param[:-1] if param else None
    if out is None:
        if item is None or (isinstance(item, str) and item.lower() == "none"):
            return None
        if base == "enum" and "none" in param.lower().split(","):
            return None
        return "None for a non-None item"

    def rng(v):
        if not param:
            return None
        lo, hi = param.split(",")
        if v != v:
            return "NaN returned for a ranged value"
        if lo != "NONE" and not v >= float(lo):
            return "below minimum"
        if hi != "NONE" and not v <= float(hi):
            return "above maximum"
        return None
    if base == "int":
        if type(out) is not int:
            return "not an int: %r" % (out,)
        return rng(out)
    if base == "float":
        if type(out) is not float:
            return "not a float: %r" % (out,)
        return rng(out)
    if base == "num":
        if not isinstance(out, (int, float)):
            return "not a number: %r" % (out,)
        return rng(out)
    if base == "bool":
        return None if type(out) is bool else "not a bool"
    if base == "str":
        return None if type(out) is str else "not a str"
    if base == "lstr":
        return None if type(out) is str and out == out.lower() else "not a lower-case str"
    if base == "ms":
        return None if type(out) is int else "not an int (ms): %r" % (out,)
    if base == "secs":
        return None if type(out) is float else "not a float (secs): %r" % (out,)
    if base == "enum":
        return None if out in param.lower().split(",") else "not an enum member: %r" % (out,)
    if base == "pow2":
        return None if type(out) is int and out > 0 and out & (out - 1) == 0 else "not an int power of two: %r" % (out,)
    if base == "bool_int":
        return None if out in (0, 1) and type(out) is int else "not 0/1"
    return None


def outcome(f):
    try:
        return ("ok", f())
    except Exception as e:
        name = type(e).__name__
        return ("reject" if name in ("ConfigFileError", "ValueError", "AssertionError") else "raise:" + name, None)


def show(out):
    """canonical result token for the correspondence"""
    kind, v = out
    if kind != "ok":
        return "reject" if kind == "reject" else "raise"
    return "ok " + tok(v)


def validator_matrix(ctx, cv, model, VP, r):
    """every validator on every value, twice: in table order and then shuffled - the verdict for a (validator, value)
    must not depend on what was validated before (caches, shared mutable state)"""
    first = {}
    pairs = [(vd, i) for vd in VALIDATORS for i in range(len(VALUES))]
    second = list(pairs)
    r.shuffle(second)
    for rnd, order in enumerate((pairs, second)):
        for vd, idx in order:
            item = VALUES[idx]
            case = {"kind": "item", "validator": vd, "item": tok(item)}
            res = outcome(lambda: cv.validate_item(copy.deepcopy(item), vd, VP))
            plain = isinstance(item, (int, float, str, bool)) and res[0] == "ok" and type(res[1]) is type(item) and res[1] == item
            if rnd == 0:
                ctx.evaluated(case, not plain, sample=len(ctx.samples) < 3)
                first[(vd, idx)] = show(res)
            else:
                ctx.evaluated(dict(case, order="shuffled"), not plain, sample=False)
                if show(res) != first[(vd, idx)]:
                    ctx.fail("history-dependent:%s" % vd.split("(")[0], case, {"first": first[(vd, idx)], "later": show(res)})
            ctx.count("validator_" + vd.split("(")[0])
            ctx.count("item_" + res[0].split(":")[0])
            if res[0] == "ok":
                why = has_type(vd, item, res[1])
                if why:
                    ctx.fail("ill-typed:%s" % vd.split("(")[0], case, {"returned": repr(res[1]), "why": why})
            elif res[0].startswith("raise"):
                ctx.count("non_config_error_" + res[0])
            if model is not None and tok(item) not in ("L", "D", "O"):
                ans = model.ask("item %s %s" % (vd, tok(item)))
                if ans == "unmodelled":
                    ctx.count("unmodelled_string")
                else:
                    ctx.compare(case, show(res), ans)


LIST_ITEMS = [None, "", "a", "a,b", "a, b ,c", "1,2,3", "1, 2", "a,,b", "a, ,b", ",", "none", "a,none", "x{1,2}", 5, 2.5, True,
              [], ["a"], ["a", "b"], [1, 2, 3], ["1", 2], [None], ["a", ""], ["yes", "no"], [1.5, "2.5"], {"a": 1}, [[1]],
              "1s, 200ms", ["1s", 250], "on,off", [True, "false"], "A,b", ["A", "B"], "16,3", [0, 11]]
LIST_VALIDATORS = ["str", "lstr", "int", "int(0,10)", "float", "float(0,1)", "num", "bool", "ms", "secs", "enum(a,b)", "bool_int"]
DICT_ITEMS = [None, "None", "", {}, {"a": 1}, {"a": "1", "b": 2}, {1: "x"}, {"a": None}, {"a": "abc"}, {"k": 1.5}, {"a": [1]},
              [1, 2], "a:1", 5, {"A": "yes"}, {"x": "1s"}, {"1": 1, 1: 2}]
DICT_VALIDATORS = ["str:str", "str:int", "str:float(0,1)", "int:str", "str:bool", "lstr:ms", "str:enum(a,b)"]


def item_type_ok(itype, vd, item, out):
    """oracle for list / set / dict item types: container kind, element types, nothing dropped from a provided list"""
    if itype in ("list", "set"):
        if itype == "list" and type(out) is not list:
            return "not a list: %r" % (out,)
        if itype == "set" and type(out) is not set:
            return "not a set: %r" % (out,)
        for e in out:
            why = has_type(vd, "x", e) if e is not None else None
            if why:
                return "element %r: %s" % (e, why)
        if itype == "list" and isinstance(item, list) and len(out) != len(item):
            return "list of %d elements came back with %d" % (len(item), len(out))
        return None
    if itype == "dict":
        if type(out) is not dict:
            return "not a dict: %r" % (out,)
        kv, vv = vd.split(":", 1)
        for k, v in out.items():
            why = (has_type(kv, "x", k) if k is not None else None) or (has_type(vv, "x", v) if v is not None else None)
            if why:
                return "entry %r: %r: %s" % (k, v, why)
        if isinstance(item, dict) and len(out) > len(item):
            return "dict grew"
    return None


def config_items(ctx, cv, model, VP):
    """list / set / dict item types of validate_config_item on the real validator, the model and the oracle"""
    jobs = [(it, vd, item) for it in ("list", "set") for vd in LIST_VALIDATORS for item in LIST_ITEMS]
    jobs += [("dict", vd, item) for vd in DICT_VALIDATORS for item in DICT_ITEMS]
    for itype, vd, item in jobs:
        t = itok(item)
        case = {"kind": "citem", "itype": itype, "validator": vd, "item": t if t is not None else repr(item)}
        res = outcome(lambda: cv.validate_config_item([itype, vd, "None"], VP, copy.deepcopy(item)))
        ctx.evaluated(case, True, sample=len(ctx.samples) < 6)
        ctx.count("citem_" + itype)
        ctx.count("citem_res_" + res[0].split(":")[0])
        if res[0] == "ok":
            why = item_type_ok(itype, vd, item, res[1])
            if why:
                ctx.fail("ill-typed:%s|%s" % (itype, vd.split("(")[0]), case, {"returned": repr(res[1])[:200], "why": why})
        if model is not None and t is not None:
            ans = model.ask("citem %s %s %s" % (itype, vd, t))
            if ans == "unmodelled" or show_item(res, itype == "set") == "ok ?":
                ctx.count("unmodelled_citem")
            else:
                if itype == "set" and ans.startswith("ok l:"):
                    ans = "ok l:" + ",".join(sorted(x for x in ans[5:].split(",") if x))
                ctx.compare(case, show_item(res, itype == "set"), ans)


def exact_ms(num, suffix):
    return Fraction(num) * UNIT[suffix.lower()]


def time_strings(ctx, model, r, n):
    from mpf.core.utility_functions import Util
    combos = [(a, b) for a in TIME_NUMS for b in TIME_SUFFIX]
    extra = []
    for _ in range(n):
        whole = r.randint(0, 5000)
        frac = r.choice(["", ".%d" % r.randint(0, 9), ".%02d" % r.randint(0, 99), ".%03d" % r.randint(0, 999),
                         ".%04d" % r.randint(0, 9999)])
        extra.append(("%d%s" % (whole, frac), r.choice(["ms", "s", "sec", "m", "h", "d", "", "msec"])))
    for num, suf in combos + extra:
        s = num + suf
        case = {"kind": "time", "string": s}
        res = outcome(lambda: Util.string_to_ms(s))
        ctx.evaluated(case, "." in num or suf.lower() not in ("", "ms"), sample=len(ctx.samples) < 5)
        ctx.count("time_" + (suf.lower() if suf.lower() in UNIT else "other"))
        ctx.count("time_res_" + res[0].split(":")[0])
        if suf.lower() in UNIT and re.fullmatch(r"-?\d+(\.\d+)?", num):
            ex = exact_ms(num, suf)
            if res[0] == "ok":
                if type(res[1]) is not int:
                    ctx.fail("time:not-int", case, {"returned": repr(res[1])})
                elif ex.denominator == 1 and res[1] != ex:
                    ctx.fail("time:value-times-unit", case, {"returned": res[1], "exact": str(ex)})
                elif abs(res[1] - ex) >= 1:
                    ctx.fail("time:value-times-unit", case, {"returned": res[1], "exact": str(ex)})
            elif res[0] == "reject" and ex.denominator == 1 and (suf.lower() not in ("", "ms", "msec") or "." not in num):
                ctx.fail("time:accepted-suffix-rejected", case, {"exact": str(ex)})
        if model is not None:
            ans = model.ask("ms s" + (s.encode().hex() or "-"))
            if ans == "unmodelled":
                ctx.count("unmodelled_time")
            else:
                ctx.compare(case, show(res), ans)
        # secs: the same string through string_to_secs (value / 1000.0)
        res2 = outcome(lambda: Util.string_to_secs(s))
        if res2[0] == "ok" and suf.lower() in UNIT and suf != "" and re.fullmatch(r"-?\d+(\.\d+)?", num):
            ex = exact_ms(num, suf)
            if type(res2[1]) is not float:
                ctx.fail("time:secs-not-float", case, {"returned": repr(res2[1])})
            elif ex.denominator == 1 and res2[1] != float(ex) / 1000.0:
                ctx.fail("time:value-times-unit", dict(case, fn="secs"), {"returned": res2[1], "exact_ms": str(ex)})


SCALAR = {"int", "float", "num", "bool", "str", "lstr", "ms", "secs", "enum", "pow2", "bool_int"}


def gen_value_for(r, validator):
    base, _, param = validator.partition("(")
    param = param[:-1] if param else ""
    good = {"int": [0, 1, 5, "7", 2.0], "float": [0.5, 1, "0.25", 0], "num": [1, 2.5, "3"], "bool": [True, False, "yes", "off"],
            "str": ["x", 5, "a b"], "lstr": ["Ab"], "ms": [100, "1s", "250ms", "1.5s"], "secs": [1, "500ms", "2s", 0.5],
            "pow2": [2, 16, "8"], "bool_int": [True, "no"]}
    if base == "enum":
        vals = param.split(",")
        return r.choice(vals + [r.choice(vals).upper(), "zzz_not_a_member"]) if r.random() < 0.9 else 42
    if r.random() < 0.75 and base in good:
        return r.choice(good[base])
    return r.choice(VALUES)


def section_cases(ctx, vm, model, r, n):
    cv = vm.machine.config_validator
    spec_all = cv.get_config_spec()
    sections = []
    for sec, d in spec_all.items():
        if not isinstance(d, dict):
            continue
        keys = {}
        ok = True
        for k, v in d.items():
            if k.startswith("_") or v == "ignore":
                continue
            if isinstance(v, dict):
                continue
            parts = list(v) if isinstance(v, (list, tuple)) else str(v).split("|")
            parts = [str(x) for x in parts]
            if len(parts) != 3:
                ok = False
                break
            base = parts[1].split("(")[0]
            required = parts[2] == ""
            if parts[0] == "dict" and ":" in parts[1]:
                kb, vb = [x.split("(")[0] for x in parts[1].split(":", 1)]
                scalar = kb in SCALAR and vb in SCALAR
            else:
                scalar = parts[0] in ("single", "list", "set") and base in SCALAR
            if required and not scalar:
                ok = False
                break
            keys[k] = (parts, scalar)
        if ok and keys:
            sections.append((sec, keys))
    ctx.notes["sections_exercised"] = len(sections)
    # sections whose opaque (non-scalar) keys reject even an empty source (e.g. a machine(...) default naming a device
    # that does not exist here) cannot be compared key-wise with the scalar model: oracle only
    opaque_rejects = set()
    for sec, keys in sections:
        if not any(p[2] == "" for p, s_ in keys.values()):
            if outcome(lambda: cv.validate_config(sec, {}, sec))[0] != "ok":
                opaque_rejects.add(sec)
    ctx.notes["sections_opaque_rejecting"] = len(opaque_rejects)
    for i in range(n):
        sec, keys = sections[i % len(sections)] if i < len(sections) else r.choice(sections)
        src = {}
        for k, (parts, scalar) in keys.items():
            required = parts[2] == ""
            if scalar and (required or r.random() < 0.35):
                if parts[0] == "single":
                    src[k] = gen_value_for(r, parts[1])
                elif parts[0] in ("list", "set"):
                    src[k] = r.choice([gen_value_for(r, parts[1]), [gen_value_for(r, parts[1]) for _ in range(r.randint(0, 3))],
                                       r.choice(LIST_ITEMS)])
                else:
                    kv, vv = parts[1].split(":", 1)
                    d = {}
                    for _ in range(r.randint(0, 2)):
                        kk = gen_value_for(r, kv)
                        if isinstance(kk, (list, dict)) or kk != kk:      # unhashable / NaN keys cannot come out of YAML
                            kk = "k"
                        d[kk] = gen_value_for(r, vv)
                    src[k] = r.choice([d if r.random() < 0.8 else r.choice(DICT_ITEMS), None])
        unknown = r.random() < 0.2
        if unknown:
            src[r.choice(["zz_unknown_key", "colour", "Enabled"])] = 1
        omit_required = None
        reqs = [k for k, (p, s) in keys.items() if p[2] == "" and k in src]
        if reqs and r.random() < 0.15:
            omit_required = r.choice(reqs)
            del src[omit_required]
        case = {"kind": "section", "section": sec, "source": {k: tok(v) for k, v in src.items()}}
        before = copy.deepcopy(spec_all[sec])
        res = outcome(lambda: cv.validate_config(sec, copy.deepcopy(src), sec))
        ctx.evaluated(case, unknown or omit_required is not None or len(src) > 0, sample=len(ctx.samples) < 6)
        ctx.count("section_" + res[0].split(":")[0])
        if spec_all[sec] != before:
            ctx.fail("spec-modified", case, {"section": sec})
        allow_others = "__allow_others__" in spec_all[sec]
        if res[0] == "ok":
            out = res[1]
            if unknown and not allow_others:
                ctx.fail("unknown-key-accepted", case, {"keys": list(out)[:20]})
            if omit_required is not None:
                ctx.fail("missing-required-accepted", case, {"key": omit_required})
            for k, v in spec_all[sec].items():
                if k.startswith("_") or v == "ignore":
                    continue
                if k not in out:
                    ctx.fail("spec-key-missing", case, {"key": k})
                    break
            for k in src:
                if k not in out and not (unknown and k not in keys):
                    ctx.fail("provided-key-dropped", case, {"key": k})
                    break
            for k, (parts, scalar) in keys.items():
                if scalar and k in out:
                    item = src.get(k, None if parts[2].lower() == "none" else parts[2])
                    if parts[0] == "single":
                        why = has_type(parts[1], item, out[k])
                        sig = "ill-typed:%s" % parts[1].split("(")[0]
                    else:
                        why = item_type_ok(parts[0], parts[1], item, out[k])
                        sig = "ill-typed:%s|%s" % (parts[0], parts[1].split("(")[0])
                    if why:
                        ctx.fail(sig, dict(case, key=k), {"returned": repr(out[k])[:200], "why": why})
                        break
        if model is not None:
            # model: the key-level outcome (unknown key / missing required / per-key scalar validation)
            toks = []
            for k, (parts, scalar) in keys.items():
                if not scalar:
                    continue
                toks.append("%s|%s|%s|%s|%s" % (k, parts[0], parts[1], (parts[2].encode().hex() or "-"),
                                                (itok(src[k]) or "O") if k in src else "-"))
            extra = sum(1 for k in src if k not in keys)
            if sec in opaque_rejects or any(itok(v) is None for v in src.values()) or \
                    any(parts[0] == "set" for k, (parts, sc) in keys.items() if sc):
                ans = "unmodelled"      # list/dict given for a scalar key: outside the scalar model (oracle still applies)
            else:
                ans = model.ask(("section %d %d %s" % (1 if allow_others else 0, extra, " ".join(toks))).strip())
            if ans == "unmodelled":
                ctx.count("unmodelled_section")
            else:
                impl = "reject" if res[0] != "ok" else ("ok " + " ".join(
                    "%s=%s" % (k, itok(res[1][k]) or "?") for k, (p, s) in keys.items() if s)).strip()
                ctx.compare(case, impl, ans)


def run(ctx):
    from mpf.core.config_validator import ValidationPath
    model = None if getattr(ctx, "model_unavailable", False) else leanproc.LeanProc(ID)
    vm = VMachine("switches:\n  s1:\n    number: 1\n").start()
    try:
        cv = vm.machine.config_validator
        VP = ValidationPath(ValidationPath(None, "verif"), "item")
        validator_matrix(ctx, cv, model, VP, ctx.rng("matrix"))
        config_items(ctx, cv, model, VP)
        time_strings(ctx, model, ctx.rng("time"), ctx.n(600, 20000))
        section_cases(ctx, vm, model, ctx.rng("sections"), ctx.n(500, 6000))
    finally:
        vm.stop()
    try:
        from harness.common import cfgext_c12
        cfgext_c12.run_ext(ctx, model, ctx.n(1500, 60000))
    finally:
        if model is not None:
            model.close()


def replay(ctx, rep):
    from mpf.core.config_validator import ValidationPath
    from mpf.core.utility_functions import Util
    c = rep["case"]
    if c["kind"] in ("xitem", "xcitem", "xsec", "valid_in"):
        if str(rep.get("signature", "")).startswith("history-dependent"):
            from harness.common import cfgext_c12
            from harness.common.vmachine import VMachine
            vm = VMachine(cfgext_c12.MACHINE_CONFIG).start()
            try:
                o = cfgext_c12.Oracle(ctx, vm.machine)
                env = cfgext_c12.env_of(vm.machine, o.spec)
                VP = ValidationPath(ValidationPath(None, "verif"), "item")
                cfgext_c12.ext_matrix(ctx, vm.machine.config_validator, None, cfgext_c12.Canon(vm.machine, env), o, VP,
                                      ctx.rng("xmatrix"))
            finally:
                vm.stop()
            return
        from harness.common import cfgext_c12
        return cfgext_c12.replay_ext(ctx, c)
    if c["kind"] == "time":
        res = outcome(lambda: Util.string_to_ms(c["string"]))
        m = re.fullmatch(r"(-?\d+(?:\.\d+)?)([a-zA-Z]*)", c["string"])
        if m and m.group(2).lower() in UNIT and res[0] == "ok":
            ex = exact_ms(m.group(1), m.group(2))
            if (ex.denominator == 1 and res[1] != ex) or abs(res[1] - ex) >= 1:
                ctx.fail("time:value-times-unit", c, {"returned": res[1], "exact": str(ex)})
        elif m and m.group(2).lower() in UNIT and res[0] == "reject":
            ctx.fail("time:accepted-suffix-rejected", c, {})
        return
    vm = VMachine("switches:\n  s1:\n    number: 1\n").start()
    try:
        if str(rep.get("signature", "")).startswith("history-dependent"):
            # needs the history: replay the whole two-pass matrix
            VP = ValidationPath(ValidationPath(None, "verif"), "item")
            validator_matrix(ctx, vm.machine.config_validator, None, VP, ctx.rng("matrix"))
        elif c["kind"] == "item":
            item = untok(c["item"])
            VP = ValidationPath(ValidationPath(None, "verif"), "item")
            res = outcome(lambda: vm.machine.config_validator.validate_item(item, c["validator"], VP))
            if res[0] == "ok":
                why = has_type(c["validator"], item, res[1])
                if why:
                    ctx.fail("ill-typed:%s" % c["validator"].split("(")[0], c, {"returned": repr(res[1]), "why": why})
    finally:
        vm.stop()


def untok(t):
    if t == "N":
        return None
    if t == "T":
        return True
    if t == "F":
        return False
    if t == "nan":
        return NAN
    if t in ("inf", "-inf"):
        return float(t)
    if t[0] == "i":
        return int(t[1:])
    if t[0] == "q":
        a, b = t[1:].split("/")
        return int(a) / int(b)
    if t[0] == "s":
        return "" if t == "s-" else bytes.fromhex(t[1:]).decode()
    return t
