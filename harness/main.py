"""./check <id> --tier quick|thorough [--replay FILE]

Pipeline (DESIGN.md 1.1): regenerate Gen/ from /repo -> lake build of the property's theorems -> axiom audit ->
correspondence (real mpf code vs. Lean model driver) + property oracle on the implementation -> verdict.
"""
import argparse
import hashlib
import importlib
import json
import os
import re
import subprocess
import sys
import time
import traceback

from harness.common import util
from harness.common.util import VERIF, LEAN_DIR, InfraError
from harness.common import leanproc

ALLOWED_AXIOMS = {"propext", "Classical.choice", "Quot.sound"}
FORBIDDEN = re.compile(r"\bsorry\b|\badmit\b|^\s*axiom\s|native_decide|bv_decide|implemented_by|\bunsafe\s|maxHeartbeats\s+0\b",
                       re.M)


class Ctx:
    def __init__(self, prop_id, tier, seed, factor=1, search=False):
        self.id, self.tier, self.seed, self.factor, self.search = prop_id, tier, seed, factor, search
        self.evaluations = 0
        self.nontrivial = set()
        self.samples = []
        self.hist = {}
        self.notes = {}
        self.failures = []       # oracle failures on the implementation: dict(signature, case, detail)
        self.disagreements = []  # model vs implementation: dict(case, impl, model)
        self.validated = 0
        self.disagreements_checked = 0
        self.exhaustive = None
        self.deadline = None

    def n(self, quick, thorough=None):
        base = quick if self.tier == "quick" or thorough is None else thorough
        return base * self.factor

    def rng(self, *tags):
        return util.rng_for(self.seed, self.id, *tags)

    def count(self, name, k=1):
        self.hist[name] = self.hist.get(name, 0) + k

    def evaluated(self, case, nontrivial=True, sample=True):
        self.evaluations += 1
        if nontrivial:
            key = hashlib.sha1(json.dumps(util.canon(case), sort_keys=True, default=repr).encode()).hexdigest()
            if key not in self.nontrivial:
                self.nontrivial.add(key)
                if sample and len(self.samples) < 6:
                    self.samples.append(util.canon(case))

    def fail(self, signature, case, detail):
        self.failures.append({"signature": signature, "case": util.canon(case), "detail": util.canon(detail)})

    def disagree(self, case, impl, model):
        self.disagreements.append({"case": util.canon(case), "impl": util.canon(impl), "model": util.canon(model)})

    def compare(self, case, impl, model):
        """Record one implementation-vs-model comparison."""
        self.disagreements_checked += 1
        if util.canon(impl) != util.canon(model):
            self.disagree(case, impl, model)
            return False
        self.validated += 1
        return True


def load_known():
    p = os.path.join(VERIF, "known_findings.json")
    if not os.path.exists(p):
        return []
    return json.load(open(p))


def strip_comments(src):
    src = re.sub(r"/-.*?-/", "", src, flags=re.S)
    return re.sub(r"--.*", "", src)


def theorem_names(props_rel):
    src = strip_comments(open(os.path.join(LEAN_DIR, props_rel)).read())
    ns = None
    names = []
    for line in src.splitlines():
        m = re.match(r"\s*namespace\s+(\S+)", line)
        if m:
            ns = m.group(1)
        m = re.match(r"\s*(?:private\s+|protected\s+)?theorem\s+(\S+)", line)
        if m:
            names.append((ns + "." if ns else "") + m.group(1))
    return names


def lean_sources_of(modules, prop_id=None):
    """The Lean sources the property's theorems and driver are built from: the transitive `import MpfVerif.*`
    closure of its modules and of Drivers/<ID>.lean (the grep audit covers exactly these)."""
    todo = list(modules)
    seen = {}
    files = []
    if prop_id:
        drv = os.path.join(LEAN_DIR, "Drivers", prop_id + ".lean")
        if os.path.exists(drv):
            files.append(drv)
            todo += re.findall(r"^\s*import\s+(MpfVerif\.\S+)", open(drv).read(), re.M)
    while todo:
        m = todo.pop()
        if m in seen:
            continue
        path = os.path.join(LEAN_DIR, *m.split(".")) + ".lean"
        seen[m] = path
        if os.path.exists(path):
            files.append(path)
            todo += re.findall(r"^\s*import\s+(MpfVerif\.\S+)", open(path).read(), re.M)
    return files


def regenerate(mod, report):
    """Run the translator jobs of this property; write Gen files only when content changes."""
    ok = True
    for job in getattr(mod, "GEN", []):
        try:
            rel, content = job()
            path = os.path.join(LEAN_DIR, rel)
            old = open(path).read() if os.path.exists(path) else None
            if old != content:
                os.makedirs(os.path.dirname(path), exist_ok=True)
                with open(path, "w") as f:
                    f.write(content)
                report["regenerated"].append(rel)
            report["translated"].append(rel)
        except Exception as e:  # translator-inapplicable: the tie is broken for this run
            ok = False
            report["translator_errors"].append("%s: %s: %s" % (getattr(job, "__name__", job), type(e).__name__, e))
    return ok


def build_and_audit(mod, report):
    """lake build the property module(s), grep for forbidden constructs, #print axioms on every property theorem."""
    t0 = time.time()
    rc, out = leanproc.run_lake(["build"] + list(mod.LEAN_MODULES) + ["drv_" + mod.ID.lower()])
    report["build_s"] = round(time.time() - t0, 1)
    names = theorem_names(mod.PROPS_FILE)
    report["theorems"] = names
    report["obligations"] = len(names)
    if rc != 0:
        report["build_ok"] = False
        errs = [l for l in out.splitlines() if "error" in l.lower()]
        report["build_errors"] = errs[:30] or out.splitlines()[-30:]
        report["discharged"] = 0
        return False
    report["build_ok"] = True
    bad = []
    for f in lean_sources_of(mod.LEAN_MODULES, mod.ID):
        m = FORBIDDEN.search(strip_comments(open(f).read()))
        if m:
            bad.append("%s: %s" % (os.path.relpath(f, LEAN_DIR), m.group(0).strip()))
    report["forbidden_constructs"] = bad
    audit_dir = os.path.join(LEAN_DIR, ".lake", "audit")
    os.makedirs(audit_dir, exist_ok=True)
    af = os.path.join(audit_dir, mod.ID + ".lean")
    with open(af, "w") as f:
        for m in mod.LEAN_MODULES:
            f.write("import %s\n" % m)
        for n in names:
            f.write("#print axioms %s\n" % n)
    p = subprocess.run(["lake", "env", "lean", af], cwd=LEAN_DIR, stdout=subprocess.PIPE, stderr=subprocess.STDOUT,
                       text=True, timeout=1800)
    axioms = {}
    txt = p.stdout.replace("\n  ", " ")
    for m in re.finditer(r"'([^']+)' (does not depend on any axioms|depends on axioms: \[([^\]]*)\])", txt):
        axioms[m.group(1)] = [] if m.group(3) is None else [a.strip() for a in m.group(3).split(",") if a.strip()]
    report["axioms"] = axioms
    discharged = 0
    problems = []
    for n in names:
        if n not in axioms:
            problems.append("no axiom report for " + n)
        elif not set(axioms[n]) <= ALLOWED_AXIOMS:
            problems.append("%s depends on %s" % (n, axioms[n]))
        else:
            discharged += 1
    if p.returncode != 0:
        problems.append("audit lean rc=%s: %s" % (p.returncode, p.stdout[-500:]))
    if bad:
        problems += bad
        discharged = 0
    report["audit_problems"] = problems
    report["discharged"] = discharged
    return not problems and len(names) > 0


def thorough_recheck(mod, report):
    t0 = time.time()
    p = subprocess.run(["lake", "env", "leanchecker"] + list(mod.LEAN_MODULES), cwd=LEAN_DIR, stdout=subprocess.PIPE,
                       stderr=subprocess.STDOUT, text=True, timeout=3000)
    report["leanchecker_rc"] = p.returncode
    report["leanchecker_s"] = round(time.time() - t0, 1)
    if p.returncode != 0:
        report["leanchecker_out"] = p.stdout[-1500:]
    return p.returncode == 0



def run_search(mod, ctx2, budget, is_new=lambda f: True):
    """mod.run(ctx2) in a forked child (own process group) for at most `budget` seconds; ctx2 in the parent receives the
    failures as the child finds them, and the counters when it finishes.  Returns done | timeout | infra:<msg> | error:<repr>."""
    import multiprocessing as mp
    import signal
    mpc = mp.get_context("fork")
    rx, tx = mpc.Pipe(duplex=False)

    def target():
        try:
            os.setsid()
        except OSError:
            pass
        orig_fail = ctx2.fail

        def fail(signature, case, detail):
            orig_fail(signature, case, detail)
            try:
                tx.send(("fail", ctx2.failures[-1]))
            except Exception:
                pass
        ctx2.fail = fail
        try:
            mod.run(ctx2)
            st = "done"
        except InfraError as e:
            st = "infra:%s" % e
        except BaseException as e:
            st = "error:%r" % (e,)
        try:
            tx.send(("end", st, ctx2.disagreements[:5], ctx2.evaluations, list(ctx2.nontrivial), ctx2.validated,
                     ctx2.disagreements_checked, ctx2.hist))
        except Exception:
            pass
        os._exit(0)

    p = mpc.Process(target=target)
    p.start()
    tx.close()
    deadline = time.time() + budget
    status = "timeout"
    try:
        while True:
            left = deadline - time.time()
            if left <= 0 or not rx.poll(min(left, 5.0)):
                if left <= 0:
                    break
                if not p.is_alive() and not rx.poll(0):
                    status = "error:search process died"
                    break
                continue
            try:
                msg = rx.recv()
            except EOFError:
                status = "error:search process died"
                break
            if msg[0] == "fail":
                ctx2.failures.append(msg[1])
                if is_new(msg[1]):          # one failing input that is not a listed finding is all the search is for
                    status = "done"
                    break
            else:
                _, status, dis, ev, nt, val, dch, hist = msg
                ctx2.disagreements += dis
                ctx2.evaluations, ctx2.validated, ctx2.disagreements_checked = ev, val, dch
                ctx2.nontrivial |= set(nt)
                ctx2.hist = hist
                break
    finally:
        try:
            os.killpg(p.pid, signal.SIGKILL)
        except Exception:
            pass
        p.join(5)
    return status


def write_replay(prop_id, seed, payload, tag=""):
    os.makedirs(os.path.join(VERIF, "replays"), exist_ok=True)
    rel = "replays/%s-%s%s.json" % (prop_id, seed, tag)
    with open(os.path.join(VERIF, rel), "w") as f:
        json.dump(payload, f, indent=1, sort_keys=True, default=repr)
    return rel


def write_evidence(mod, ctx, report, tier, seed, t0, violations, extra_assumptions=()):
    cov = {
        "obligations": report.get("obligations", 0),
        "discharged": report.get("discharged", 0),
        "checker_cmd": "cd lean && lake build %s && lake env lean .lake/audit/%s.lean  (#print axioms on every theorem of %s)"
                       % (" ".join(mod.LEAN_MODULES), mod.ID, mod.PROPS_FILE)
                       + ("; lake env leanchecker %s" % " ".join(mod.LEAN_MODULES) if tier == "thorough" else ""),
        "trusted_base": list(getattr(mod, "TRUSTED", [])) + [
            "Lean 4.33.0 kernel; axioms allowed: propext, Classical.choice, Quot.sound (audited per theorem, see axioms)",
            "harness/ correspondence + canonicalisation; translate/ (for Gen/*.lean)",
            "mpf.tests scaffolding (TimeTravelLoop, TestMachineController, virtual platform) where a real machine is booted"],
        "theorems": report.get("theorems", []),
        "axioms": report.get("axioms", {}),
        "translator": {"translated": report.get("translated", []), "regenerated_this_run": report.get("regenerated", []),
                       "errors": report.get("translator_errors", [])},
        "source_pins": report.get("source_pins", {}),
        "search_stopped_after_s": report.get("search_stopped_after_s"), "search_error": report.get("search_error"),
        "build_ok": report.get("build_ok"), "build_s": report.get("build_s"),
        "audit_problems": report.get("audit_problems", []),
        "evaluations": ctx.evaluations,
        "distinct_nontrivial": len(ctx.nontrivial),
        "rule": getattr(mod, "RULE", ""),
        "samples": ctx.samples[:6] or ["(no case generated)"],
        "traces_validated_against_impl": ctx.validated,
        "disagreements_checked": ctx.disagreements_checked,
        "disagreements": len(ctx.disagreements),
        "op_histogram": ctx.hist,
        "mpf_under_test": report.get("mpf_file"),
        "known_findings_hit": report.get("known_hit", []),
    }
    cov.update(ctx.notes)
    if ctx.exhaustive is not None:
        cov["exhaustive"] = ctx.exhaustive
    if "leanchecker_rc" in report:
        cov["leanchecker_rc"] = report["leanchecker_rc"]
    ev = {"property_id": mod.ID, "tier": tier, "seed": seed, "level": "proof", "coverage": cov,
          "assumptions": list(getattr(mod, "ASSUMPTIONS", [])) + list(extra_assumptions),
          "wall_s": round(time.time() - t0, 2), "violations": violations}
    # evidence/ only ever describes runs against /repo itself; a run on a scratch worktree (VERIF_REPO) writes elsewhere
    scratch = os.path.realpath(os.environ.get("VERIF_REPO", "/repo")) != "/repo"
    evdir = os.path.join(VERIF, "replays", "scratch-evidence") if scratch else os.path.join(VERIF, "evidence")
    os.makedirs(evdir, exist_ok=True)
    with open(os.path.join(evdir, mod.ID + ".json"), "w") as f:
        json.dump(ev, f, indent=1, sort_keys=True, default=repr)


def main():
    ap = argparse.ArgumentParser()
    ap.add_argument("prop")
    ap.add_argument("--tier", default=os.environ.get("VERIF_TIER", "quick"), choices=["quick", "thorough"])
    ap.add_argument("--replay")
    a = ap.parse_args()
    seed = int(os.environ.get("VERIF_SEED", "0") or 0)
    t0 = time.time()
    try:
        report = {"regenerated": [], "translated": [], "translator_errors": []}
        report["mpf_file"] = util.ensure_repo_mpf()
        util.private_tmp()
        mod = importlib.import_module("harness.corr." + a.prop)
        if a.replay:
            case = json.load(open(a.replay))
            ctx = Ctx(mod.ID, a.tier, seed)
            mod.replay(ctx, case)
            for f in ctx.failures:
                print("REPLAY-FAILS property=%s signature=%s detail=%s" % (mod.ID, f["signature"], json.dumps(f["detail"])[:400]))
            if case.get("kind") in ("proof", "correspondence") and not ctx.failures:
                print("replay names a broken obligation/correspondence: %s" % json.dumps(case.get("broken"))[:600])
            sys.exit(1 if ctx.failures else 0)

        known = [k for k in load_known() if k["property"] == mod.ID and k["kind"] == "known"]
        known_sigs = {k["signature"]: k for k in known}

        tr_ok = regenerate(mod, report)
        # source pins: the functions the hand model transcribes still have the text it was validated against
        from translate import source_pin
        n_pins, pin_msgs = source_pin.check(VERIF, mod.ID, util.REPO)
        report["source_pins"] = {"checked": n_pins, "changed": pin_msgs}
        if pin_msgs:
            report["translator_errors"] += pin_msgs
            tr_ok = False
        proof_ok = build_and_audit(mod, report) and tr_ok
        if proof_ok and a.tier == "thorough" and os.environ.get("VERIF_SKIP_LEANCHECKER") != "1":
            proof_ok = thorough_recheck(mod, report) and proof_ok

        ctx = Ctx(mod.ID, a.tier, seed)
        if report.get("build_ok"):
            mod.run(ctx)
        else:
            # the model driver may not exist: run implementation-side oracle only
            ctx.model_unavailable = True
            mod.run(ctx)

        def unlisted(c):
            return [f for f in c.failures if f["signature"] not in known_sigs]

        bad = unlisted(ctx)
        verdict = None
        if bad:
            verdict = ("input", bad[0])
        elif (not proof_ok) or ctx.disagreements:
            # failing-input search: same generators, 10x budget, boundary streams on
            ctx2 = Ctx(mod.ID, a.tier, seed + 7919, factor=10, search=True)
            if not report.get("build_ok"):
                ctx2.model_unavailable = True
            # the search runs in a forked child with a wall-clock budget (a check on a changed tree must still answer in
            # minutes); failures are reported to the parent as they are found, so what it found until then counts
            budget = int(os.environ.get("VERIF_SEARCH_BUDGET_S", "300" if a.tier == "quick" else "900"))
            status = run_search(mod, ctx2, budget, lambda f: f["signature"] not in known_sigs)
            if status == "timeout":
                report["search_stopped_after_s"] = budget
            elif status.startswith("infra:"):
                raise InfraError(status[6:])
            elif status != "done":
                report["search_error"] = status[:300]
            bad2 = unlisted(ctx2)
            ctx.evaluations += ctx2.evaluations
            ctx.nontrivial |= ctx2.nontrivial
            if bad2:
                verdict = ("input", bad2[0])
            else:
                broken = {}
                if not proof_ok:
                    broken["proof"] = {"translator_errors": report.get("translator_errors"),
                                       "build_errors": report.get("build_errors"),
                                       "audit_problems": report.get("audit_problems"),
                                       "theorems": report.get("theorems")}
                if ctx.disagreements or ctx2.disagreements:
                    broken["correspondence"] = (ctx.disagreements + ctx2.disagreements)[:3]
                verdict = ("none", broken)

        hit = sorted({f["signature"] for f in ctx.failures if f["signature"] in known_sigs})
        report["known_hit"] = hit
        if verdict is None:
            for s in hit:
                print("KNOWN-FINDING: property=%s %s [%s]" % (mod.ID, known_sigs[s]["what"], s))
            write_evidence(mod, ctx, report, a.tier, seed, t0, 0)
            print("OK property=%s tier=%s theorems=%d/%d evaluations=%d distinct_nontrivial=%d validated=%d wall=%.1fs"
                  % (mod.ID, a.tier, report.get("discharged", 0), report.get("obligations", 0), ctx.evaluations,
                     len(ctx.nontrivial), ctx.validated, time.time() - t0))
            sys.exit(0)
        if verdict[0] == "input":
            f = verdict[1]
            rel = write_replay(mod.ID, seed, {"property": mod.ID, "kind": "input", "signature": f["signature"],
                                              "case": f["case"], "detail": f["detail"],
                                              "proof_ok": proof_ok, "disagreements": ctx.disagreements[:2]})
            write_evidence(mod, ctx, report, a.tier, seed, t0, 1)
            print("VIOLATION property=%s replay=%s" % (mod.ID, rel))
            print("  signature=%s detail=%s" % (f["signature"], json.dumps(f["detail"])[:600]))
            sys.exit(1)
        rel = write_replay(mod.ID, seed, {"property": mod.ID, "kind": "proof" if "proof" in verdict[1] else "correspondence",
                                          "broken": verdict[1]}, "-nofail")
        write_evidence(mod, ctx, report, a.tier, seed, t0, 1)
        print("VIOLATION property=%s replay=%s no-failing-input-found" % (mod.ID, rel))
        sys.exit(1)
    except InfraError as e:
        print("INFRA-ERROR: %s" % e)
        sys.exit(2)
    except subprocess.TimeoutExpired as e:
        print("INFRA-TIMEOUT: %s" % e)
        sys.exit(2)
    except SystemExit:
        raise
    except Exception:
        traceback.print_exc()
        print("INFRA-ERROR: unexpected exception in the harness")
        sys.exit(2)


if __name__ == "__main__":
    main()
