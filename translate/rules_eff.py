"""GEN job for C10: the state machines that write and clear hardware rules -> lean/MpfVerif/Gen/RulesOps.lean

Every method listed in CLASSES becomes a `List SSt` literal for the stateful interpreter lean/MpfVerif/Model/PyStore.lean:
  self.<attr> (the class's ATTRS)                    -> read `.env "<attr>"` / write `.store "<attr>"`
  self.config['k']                                   -> `.cfg "k"`;  self.config['k'].get('f', None) / self.config['k']['f'] /
                                                        self.config['k'].config['f']  -> `.cfg "k.f"`
  self.driver.hold_settings / .pulse_settings        -> `.cfg "driver.hold_settings"` ...
  x in (True, None), a == b as a value               -> `.ite <condition> True False`
  calls on a collaborator (COLLAB: the platform controller, the platform driver, the switch controller, the delay manager,
  the event manager, the playfield, the clock)       -> `.eff <obj> <method> [args]`; a namedtuple constructor argument
                                                        (`SwitchRuleSettings(...)`) is flattened into `<position>.<field>`
                                                        arguments; `x = <collaborator call>` keeps the call as an effect and
                                                        binds nothing (the handle is only ever passed back to the collaborator)
  self.<m>() / super().<m>() for a translated m      -> `.call` with the callee's program embedded
  logging, docstrings, `del kwargs`                  -> dropped
Anything else raises Untranslatable: the tie is broken for this run (never skipped).
"""
import ast
import os

from translate.py2lean import Translator, Untranslatable, lean_str, DROPPED_CALL_PREFIXES
from translate.py2eff import class_methods

REPO = os.environ.get("VERIF_REPO", "/repo")

CLASSES = [
    # (file, class, lean prefix, attrs, methods in dependency order, base class for super())
    ("mpf/core/platform_controller.py", "SoftwareEosRepulseManager", "mgr",
     ["_button_is_active", "_is_eos_closed_long_enough", "_enabled_by_repulse", "_handlers"],
     ["stop", "_button_active", "_button_inactive", "_eos_closed_long_enough", "_repulse_on_eos_open"], None),
    ("mpf/devices/autofire.py", "AutofireCoil", "af",
     ["_enabled", "_rule", "_ball_search_in_progress", "_timeout_watch_time", "_timeout_max_hits", "_timeout_disable_time"],
     ["enable", "disable"], None),
]
COLLAB = {
    "self.machine.platform_controller": "pc",
    "self.driver.hw_driver": "hw_driver",
    "self.machine.switch_controller": "switch_controller",
    "self.delay": "delay",
    "self.machine.events": "events",
}
TUPLES = ("SwitchRuleSettings", "DriverRuleSettings", "PulseRuleSettings", "HoldRuleSettings", "EosRuleSettings")


class RulesTranslator(Translator):
    def __init__(self, attrs, methods, prefix):
        super().__init__({"self." + a: a for a in attrs})
        self.attrs, self.methods, self.prefix = attrs, methods, prefix

    # ---- expressions ------------------------------------------------------------------------------------------------
    def cfg_key(self, e):
        """self.config['k'] | self.config['k']['f'] | self.config['k'].get('f', None) | self.config['k'].config['f'] |
        self.driver.<field> -> the key, else None"""
        if isinstance(e, ast.Subscript) and isinstance(e.slice, ast.Constant) and isinstance(e.slice.value, str):
            base = e.value
            if ast.unparse(base) == "self.config":
                return e.slice.value
            if isinstance(base, ast.Attribute) and base.attr == "config":
                inner = self.cfg_key(base.value)
                if inner is not None:
                    return inner + "." + e.slice.value
            inner = self.cfg_key(base)
            if inner is not None:
                return inner + "." + e.slice.value
        if isinstance(e, ast.Call) and isinstance(e.func, ast.Attribute) and e.func.attr == "get" and len(e.args) == 2 \
                and isinstance(e.args[0], ast.Constant) and isinstance(e.args[1], ast.Constant) and e.args[1].value is None:
            inner = self.cfg_key(e.func.value)
            if inner is not None:
                return inner + "." + e.args[0].value
        if isinstance(e, ast.Attribute) and ast.unparse(e.value) == "self.driver":
            return "driver." + e.attr
        return None

    def ex(self, e):
        k = self.cfg_key(e)
        if k is not None:
            return "(.cfg %s)" % lean_str(k)
        if isinstance(e, ast.Compare) and len(e.ops) == 1 and isinstance(e.ops[0], ast.In) \
                and isinstance(e.comparators[0], ast.Tuple):
            left = self.ex(e.left)
            parts = []
            for c in e.comparators[0].elts:
                if not isinstance(c, ast.Constant):
                    raise Untranslatable("membership in a non-constant tuple: " + ast.unparse(e)[:80])
                parts.append("(.isNone %s)" % left if c.value is None else '(.cmp "==" %s %s)' % (left, self.ex(c)))
            out = parts[-1]
            for p in reversed(parts[:-1]):
                out = "(.or %s %s)" % (p, out)
            return "(.ite %s (.lit (.bool true)) (.lit (.bool false)))" % out
        if isinstance(e, ast.Compare):
            return "(.ite %s (.lit (.bool true)) (.lit (.bool false)))" % self.cd(e)
        if isinstance(e, ast.Attribute) and isinstance(e.value, ast.Name) and e.value.id == "self" and e.attr in self.methods:
            return "(.lit (.str %s))" % lean_str("cb:" + e.attr)
        return super().ex(e)

    def sex(self, e):
        return "(.pure %s)" % self.ex(e)

    # ---- calls ------------------------------------------------------------------------------------------------------
    def eff(self, call):
        f = call.func
        if not isinstance(f, ast.Attribute):
            return None
        obj = COLLAB.get(ast.unparse(f.value))
        if obj is None:
            return None
        pairs = []
        for pos, a in enumerate(call.args):
            if isinstance(a, ast.Call) and ast.unparse(a.func) in TUPLES:
                if a.args:
                    raise Untranslatable("positional namedtuple fields: " + ast.unparse(a)[:80])
                for kw in a.keywords:
                    pairs.append(("%d.%s" % (pos, kw.arg), self.sex(kw.value)))
            else:
                pairs.append((str(pos), self.sex(a)))
        for kw in call.keywords:
            if kw.arg is None:
                raise Untranslatable("**kwargs in a collaborator call: " + ast.unparse(call)[:80])
            pairs.append((kw.arg, self.sex(kw.value)))
        return ".eff %s %s [%s]" % (lean_str(obj), lean_str(f.attr),
                                    ", ".join("(%s, %s)" % (lean_str(k), v) for k, v in pairs))

    def own_call(self, call):
        f = call.func
        if isinstance(f, ast.Attribute) and f.attr in self.methods and not call.args and not call.keywords and \
                ast.unparse(f.value) in ("self", "super()"):
            return ".call none %s_%s []" % (self.prefix, f.attr.lstrip("_"))
        return None

    # ---- statements -------------------------------------------------------------------------------------------------
    def block(self, lines, pad):
        return ",\n".join(x.strip() if i == 0 else x for i, x in enumerate(lines))

    def sstmts(self, body, ind):
        out = []
        pad = " " * ind
        for s in body:
            if isinstance(s, ast.Expr):
                if isinstance(s.value, ast.Constant) and isinstance(s.value.value, str):
                    continue
                if isinstance(s.value, ast.Call):
                    if ast.unparse(s.value.func).startswith(DROPPED_CALL_PREFIXES):
                        continue
                    st = self.eff(s.value) or self.own_call(s.value)
                    if st is None:
                        raise Untranslatable("call: " + ast.unparse(s)[:80])
                    out.append(pad + st)
                    continue
                raise Untranslatable("expression statement: " + ast.unparse(s)[:80])
            if isinstance(s, ast.Delete):
                continue
            if isinstance(s, ast.Assign) and len(s.targets) == 1:
                tgt = s.targets[0]
                if isinstance(tgt, ast.Attribute) and isinstance(tgt.value, ast.Name) and tgt.value.id == "self" \
                        and tgt.attr in self.attrs:
                    if isinstance(s.value, ast.Call) and self.eff(s.value):
                        out.append(pad + self.eff(s.value))      # the handle: only ever passed back to the collaborator
                    else:
                        out.append("%s.store %s %s" % (pad, lean_str(tgt.attr), self.sex(s.value)))
                elif isinstance(tgt, ast.Name):
                    out.append("%s.assign %s %s" % (pad, lean_str(tgt.id), self.sex(s.value)))
                else:
                    raise Untranslatable("assignment target: " + ast.unparse(s)[:80])
            elif isinstance(s, ast.If):
                body_l = self.sstmts(s.body, ind + 2)
                else_l = self.sstmts(s.orelse, ind + 2)
                out.append("%s.ifThen %s\n%s  [%s]\n%s  [%s]" % (pad, self.cd(s.test), pad, self.block(body_l, pad),
                                                             pad, self.block(else_l, pad)))
            elif isinstance(s, ast.Return):
                out.append("%s.ret %s" % (pad, self.sex(s.value) if s.value is not None else "(.pure (.lit .none))"))
            else:
                raise Untranslatable("statement: " + ast.unparse(s)[:80])
        return out

    def method(self, name):
        fn = self.methods[name]
        if not isinstance(fn, ast.FunctionDef) or fn.args.vararg or fn.args.kwonlyargs or fn.args.posonlyargs \
                or [a.arg for a in fn.args.args] != ["self"]:
            raise Untranslatable("signature of " + name)
        body = self.sstmts(fn.body, 4)
        return "def %s_%s : List SSt :=\n  [\n%s\n  ]\n" % (self.prefix, name.lstrip("_"), ",\n".join(body))


def generate():
    out = ["import MpfVerif.Model.PyStore",
           "/-! GENERATED by translate/rules_eff.py from mpf/core/platform_controller.py and mpf/devices/autofire.py — do not edit.",
           "Regenerated on every check; `Props/C10.lean` proves that the hand model `Model/Rules.lean` does what these programs",
           "do (`*_refines_source`). -/",
           "namespace MpfVerif.Gen.RulesOps", "open MpfVerif.Py", ""]
    for path, cls, prefix, attrs, names, _ in CLASSES:
        tree = ast.parse(open(os.path.join(REPO, path)).read())
        methods = class_methods(tree, cls)
        tr = RulesTranslator(attrs, methods, prefix)
        for m in names:
            if m not in methods:
                raise Untranslatable("%s.%s not found" % (cls, m))
            out.append("/-- `%s.%s` -/" % (cls, m))
            out.append(tr.method(m))
    out.append("end MpfVerif.Gen.RulesOps")
    return "MpfVerif/Gen/RulesOps.lean", "\n".join(out) + "\n"


if __name__ == "__main__":
    print(generate()[1])
